#!/usr/bin/env python3
"""Harness for C15 (history independence).

DIRECT ORACLE (never uses the model): every operation of every history is compared with the SAME operation on a FRESH
object (a new SgzReader(path) -- no preload, default cache -- or a new seismic_zfp.open(path) for accessor
operations): bitwise equal arrays / equal header dictionaries / same exception class.

CORRESPONDENCE with coq/Model/Caches.v (run through tools/coqeval.py): the harness logs, at the call sites, every
consultation of a cache the real code makes (class-level lru_cache'd loader methods with their arguments, the
per-reader chunk cache with its key, the lazy mask, the footer-array loads) and whether functools / the reader
answered from memory (cache_info().misses, reader.mask) -- the model machine (the one the theorems are about) is run
on the same sequence of opens / closes / consultations and must predict every hit and miss; on readers built on a
hz.CountingFile the number of file reads of every operation must be the predicted one (no loader miss and nothing
else to fetch <=> the file is not touched; preload: the data section is never read again).

Histories: all ordered pairs (x3 argument patterns: repeated key, alternating key) and sampled triples of operation
kinds on one reader, for chunk_cache_size in {1, 2, default} x preload in {False, True}; random histories over 2-3
readers of the same path + one seismic_zfp.open object + a reader of ANOTHER file of the same geometry (a class-level
key without the loader identity would serve its data), with readers opened and closed in between.
Files: regular 3D in three layouts (4x4xN fast paths, z-slice layout, general layout), irregular 3D, 2D (two layouts);
the 4x4xN and the general layout also with traces deeper than one block (shape_pad[2] > blockshape[2]: a z-window, a
chunk and a trace are three different things there).
Structural sub-volumes: read_subvolume with every axis extent drawn from the sizes the layout is made of (whole axis,
every 4-unit of the axis without the whole axis, one block, one block length unaligned, one unit) -- the windows for
which a shortcut keyed on 'as many units as ...' could fire -- as two operation kinds of the pair / triple histories
and as random draws in the multi-reader histories.
"""
import os, sys, itertools, functools
sys.path.insert(0, os.path.dirname(os.path.abspath(__file__)))
from common import *
a = parse_args()
from hz import *
import itertools
import hz as _hz
_hz.DECOY[0] = False      # this harness snapshots cache / object state around calls: the harness's own decoy reads would show in it
from coqeval import coq_eval, parse_value, zlit, CoqEvalError
import seismic_zfp
from seismic_zfp.loader import SgzLoader2d, SgzLoader3d
from seismic_zfp.utils import get_chunk_cache_size

R = Result('one case = one operation of one history (file layout, reader configuration, everything executed before it); '
           'non-trivial = the operation returns data and is preceded by at least one other operation or open/close event '
           'in its history; histories = all ordered pairs and sampled triples of operation kinds with repeated and '
           'alternating arguments x chunk_cache_size {1,2,default} x preload {F,T}, plus random multi-reader histories '
           '(2-3 readers by path, one seismic_zfp.open object, a reader of another file, opens/closes in between); '
           'read_subvolume also with structural windows (whole axis / all units / one block / one unit per axis)')
rng = random.Random(a.seed * 104729 + 15)
quick = (a.tier == 'quick') and not a.search
PATCHED = hasattr(SgzReader, '_load_variant_headers')
d = scratch_dir()


# ------------------------------------------------------------------------------------------------ files
class F:
    """a generated file + what the generators need to know about it"""
    def __init__(self, label, path, other=None):
        self.label, self.path, self.other = label, path, other
        with SgzReader(path) as r:
            self.is2d = r.is_2d
            self.structured = bool(r.structured)
            self.n_il, self.n_xl, self.n_s, self.tc = r.n_ilines, r.n_xlines, r.n_samples, r.tracecount
            self.bs = tuple(int(x) for x in r.blockshape)
            self.shape_pad = tuple(int(x) for x in r.shape_pad)
            self.stored = [int(k) for k in r.stored_header_keys]
            self.template_keys = [int(k) for k in r.segy_traceheader_template]
            self.consts = [k for k in self.template_keys if k not in self.stored]
            # the constant fields with a non-zero value first and last (they are the ones the generators address): on an
            # irregular file their hole positions are observable
            nz_ = [k for k in self.consts if int(r.segy_traceheader_template[k]) != 0]
            self.consts = nz_[:1] + [k for k in self.consts if k not in nz_[:1] + nz_[-1:]] + (nz_[-1:] if len(nz_) > 1 else [])
            self.ilines = None if r.is_2d else [int(x) for x in r.ilines]
            self.xlines = None if r.is_2d else [int(x) for x in r.xlines]
            self.zs = [float(z) for z in r.zslices]
            self.dcap = 2 if r.is_2d else get_chunk_cache_size(r.shape_pad[0] // r.blockshape[0], r.shape_pad[1] // r.blockshape[1])
            if r.is_2d:
                self.dcap = get_chunk_cache_size(r.shape_pad[0] // r.blockshape[0], r.shape_pad[1] // r.blockshape[1])


def make_files():
    fs = []
    g = random.Random(a.seed * 31 + 7)

    def reg3d(label, shape, bpv, bs, twin=True):
        out = []
        for t in range(2 if twin else 1):
            sgy = os.path.join(d, f'{label}{t}.sgy'); p = os.path.join(d, f'{label}{t}.sgz')
            mk_segy(sgy, rnd_cube(g, shape), 10 + 2 * np.arange(shape[0]), 100 + 3 * np.arange(shape[1]))
            write_segy_sgz(sgy, p, bpv=bpv, blockshape=bs)
            os.remove(sgy)
            out.append(p)
        return F(label, out[0], out[1] if twin else None)
    fs.append(reg3d('reg-4x4', (9, 10, 40), 8, (4, 4, -1)))
    fs.append(reg3d('reg-zslice', (9, 10, 13), 8, (32, 32, 4), twin=not quick))
    fs.append(reg3d('reg-general', (9, 10, 40), 8, (8, 8, 64), twin=not quick))
    # traces spanning more than one block in z (padded to 2 resp. 3 blocks)
    fs.append(reg3d('reg-4x4-deep', (9, 10, 300), 8, (4, 4, -1), twin=not quick))
    if not quick:
        fs.append(reg3d('reg-general-deep', (9, 10, 150), 8, (8, 8, 64), twin=False))
    # irregular 3D
    shape = (6, 7, 24)
    outs = []
    for t in range(2):
        present = np.ones(shape[:2], bool)
        present[0, 0] = present[2, 3] = present[5, 6] = present[4, 1] = False
        sgy = os.path.join(d, f'irr{t}.sgy'); p = os.path.join(d, f'irr{t}.sgz')
        mk_segy(sgy, rnd_cube(g, shape), 10 + 2 * np.arange(shape[0]), 100 + 3 * np.arange(shape[1]), present=present)
        write_segy_sgz(sgy, p, bpv=8)
        os.remove(sgy)
        outs.append(p)
    fs.append(F('irregular', outs[0], outs[1]))
    # 2D, two layouts (rates 0.25/0.5 crash zfpy on 2-D arrays: not used)
    for label, bpv, bs in (('2d-fast', 8, (1, 4, -1)), ('2d-general', 4, (1, 16, -1))):
        outs = []
        for t in range(2):
            sgy = os.path.join(d, f'{label}{t}.sgy'); p = os.path.join(d, f'{label}{t}.sgz')
            mk_segy_2d(sgy, rnd_cube(g, (21, 40)))
            write_segy_sgz(sgy, p, bpv=bpv, blockshape=bs)
            os.remove(sgy)
            outs.append(p)
        fs.append(F(label, outs[0], outs[1]))
    return fs


# ------------------------------------------------------------------------------------------------ operations
def call(obj, op):
    """execute one operation on a reader (SgzReader) or an emulator object"""
    k, x = op[0], op[1:]
    if k == 'rvh':
        return obj.read_variant_headers(include_padding=x[0], tracefields=None if x[1] is None else list(x[1]))
    if k == 'clear_vh':
        return obj.clear_variant_headers()
    if k == 'clear_cache':
        return obj.loader.clear_cache()
    if k == 'gen_trace_header_all':
        return obj.gen_trace_header(x[0], load_all_headers=True)
    if k == 'e_iline':
        return obj.iline[x[0]]
    if k == 'e_xline':
        return obj.xline[x[0]]
    if k == 'e_depth':
        return obj.depth_slice[x[0]]
    if k == 'e_trace':
        return obj.trace[x[0]]
    if k == 'e_header':
        return obj.header[x[0]]
    if k == 'e_attr':
        return obj.attributes(x[0])
    if k == 'e_subvol':
        return obj.subvolume[x[0], x[1], x[2]]
    return getattr(obj, k)(*x)


def outcome(obj, op):
    try:
        return ('ok', freeze(call(obj, op)))
    except Exception as e:
        return ('exc', exc_class(e))


def freeze(v):
    """an independent copy (results are views into the caches)"""
    if isinstance(v, np.ndarray):
        return np.array(v, copy=True)
    if isinstance(v, dict):
        return {int(k): int(x) for k, x in v.items()}
    if isinstance(v, (list, tuple)):
        return [freeze(x) for x in v]
    if isinstance(v, np.generic):
        return v.item()
    return v


def same(x, y):
    if isinstance(x, np.ndarray) or isinstance(y, np.ndarray):
        if not (isinstance(x, np.ndarray) and isinstance(y, np.ndarray)) or x.dtype != y.dtype or x.shape != y.shape:
            return False
        if x.dtype == np.float32:
            return bits_equal(x, y)
        return np.ascontiguousarray(x).tobytes() == np.ascontiguousarray(y).tobytes()
    if isinstance(x, list) or isinstance(y, list):
        return isinstance(x, list) and isinstance(y, list) and len(x) == len(y) and all(same(p, q) for p, q in zip(x, y))
    return type(x) == type(y) and x == y


def describe(o):
    if o[0] == 'exc':
        return o[1]
    v = o[1]
    if isinstance(v, np.ndarray):
        return f'array{v.shape} {v.dtype}'
    if isinstance(v, list):
        return f'list[{len(v)}]'
    return type(v).__name__


def axis_windows(n, b, g=None):
    """structural [lo, hi) windows of an axis of n entries stored in blocks of b (units of 4):
       whole axis; every unit touched but not the whole axis; first block; last block; one block length, unaligned;
       one unit.  Without g the deterministic representative of each class."""
    bl = min(b, n)
    lo = min(3, n - 1) if g is None else g.randrange(0, min(4, n))
    hi = n - ((n - 1) % 4 if g is None else g.randrange(0, (n - 1) % 4 + 1))
    if lo >= hi:
        lo = hi - 1
    off = min(40, n - bl) if g is None else g.randrange(0, n - bl + 1)
    u = (n - 1) // 4 // 2 if g is None else g.randrange(0, (n + 3) // 4)
    return {'whole': (0, n), 'all-units': (lo, hi), 'first-block': (0, bl), 'last-block': (b * ((n - 1) // b), n),
            'block-length': (off, off + bl), 'unit': (4 * u, min(4 * u + 4, n))}


def structural_subvolume(f, g):
    """read_subvolume arguments with every extent drawn from the structural windows of its axis"""
    out = ()
    for n, b in zip((f.n_il, f.n_xl, f.n_s), f.bs):
        w = axis_windows(n, b, g)
        out += w[g.choice(sorted(w))]
    return out


def reader_kinds(f):
    """operation kind -> (A, B): two argument tuples addressing different cache keys"""
    if f.is2d:
        nt, ns = f.tc, f.n_s
        K = {
            'get_trace': ((1,), (nt - 2,)), 'get_trace_oob': ((nt,), (-1,)),
            'read_subplane': ((0, 5, 0, ns), (6, nt, 3, ns - 1)),
            'gen_trace_header': ((1,), (nt - 1,)), 'gen_trace_header_all': ((0,), (2,)),
            'get_tracefield_values': ((f.stored[0],), (f.stored[-1],)),
            'get_tracefield_values_const': ((f.consts[0],), (f.consts[-1],)),
            'read_inline': ((0,), (1,)),
        }
        return K
    ni, nx, ns = f.n_il, f.n_xl, f.n_s
    nt = f.tc
    K = {
        'read_inline': ((1,), (ni - 1,)), 'read_crossline': ((2,), (nx - 1,)), 'read_zslice': ((3,), (ns - 1,)),
        'read_subvolume': ((0, 3, 1, 6, 2, 9), (ni - 3, ni, 0, nx, ns - 5, ns)),
        'read_volume': ((), ()),
        'get_trace': ((1,), (nt - 1,)), 'get_trace_win': ((1, 2, ns - 3), (nx + 2, 0, 5)),
        'read_correlated_diagonal': ((0,), (-2,)), 'read_anticorrelated_diagonal': ((3,), (nx + 1,)),
        'read_inline_number': ((f.ilines[2],), (f.ilines[-1],)), 'read_crossline_number': ((f.xlines[0],), (f.xlines[5],)),
        'gen_trace_header': ((1,), (nt - 1,)), 'gen_trace_header_all': ((0,), (5,)),
        'get_tracefield_values': ((f.stored[0],), (f.stored[-1],)), 'get_tracefield_values_const': ((f.consts[0],), (f.consts[-1],)),
        'read_zslice_oob': ((ns,), (-1,)), 'get_trace_by_coord': ((2, f.zs[1], f.zs[6]), (nt - 2, f.zs[0], f.zs[3])),
    }
    # structural sub-volumes.  slab: every inline and crossline unit x one block depth (A aligned, B unaligned and cropped
    # inside the outer units); column: one block of traces x the whole trace (A), one unit of traces x the last block (B)
    wi, wx, wz = (axis_windows(n, b) for n, b in zip((ni, nx, ns), f.bs))
    K['read_subvolume_slab'] = (wi['whole'] + wx['whole'] + wz['first-block'], wi['last-block'] + wx['all-units'] + wz['block-length'])
    K['read_subvolume_column'] = (wi['first-block'] + wx['last-block'] + wz['whole'], wi['unit'] + wx['unit'] + wz['last-block'])
    return K


def emu_kinds(f):
    if f.is2d:
        nt = f.tc
        return {'e_trace': ((2,), (nt - 1,)), 'e_trace_slice': ((slice(0, 3),), (slice(4, 9, 2),)), 'e_header': ((0,), (-1,)),
                'e_attr': ((f.stored[0],), (f.consts[0],)), 'e_iline': ((0,), (1,))}
    ni, nx, ns, nt = f.n_il, f.n_xl, f.n_s, f.tc
    dz = int(round(f.zs[1] - f.zs[0]))
    return {
        'e_iline': ((f.ilines[1],), (f.ilines[-1],)), 'e_xline': ((f.xlines[2],), (f.xlines[-2],)),
        'e_iline_slice': ((slice(f.ilines[0], f.ilines[3]),), (slice(None, None, None),)),
        'e_depth': ((2,), (ns - 1,)), 'e_trace': ((3,), (-1,)), 'e_trace_slice': ((slice(0, 4),), (slice(nt - 3, nt),)),
        'e_header': ((0,), (nt - 1,)), 'e_header_slice': ((slice(1, 3),), (slice(0, nt, 7),)),
        'e_attr': ((f.stored[0],), (f.consts[0],)),
        'e_subvol': ((slice(f.ilines[0], f.ilines[2]), slice(f.xlines[1], f.xlines[4]), slice(0, 4 * dz)),
                     (slice(f.ilines[3], None), slice(None, None), slice(2 * dz, 6 * dz))),
    }


def mkop(kind, args):
    base = {'get_tracefield_values_const': 'get_tracefield_values', 'get_trace_oob': 'get_trace', 'get_trace_win': 'get_trace', 'read_zslice_oob': 'read_zslice',
            'read_subvolume_slab': 'read_subvolume', 'read_subvolume_column': 'read_subvolume',
            'e_trace_slice': 'e_trace', 'e_iline_slice': 'e_iline', 'e_header_slice': 'e_header'}.get(kind, kind)
    return (base,) + tuple(args)


def opkey(op):
    return repr(op)


# ------------------------------------------------------------------------------------------------ instrumentation
def flat(args):
    out = []
    for x in args:
        if isinstance(x, (tuple, list)):
            out += flat(x)
        elif isinstance(x, (bool, np.bool_)):
            out.append(1 if x else 0)
        else:
            out.append(int(x))
    return out


def cached_names(cls):
    return [n for n in dir(cls) if hasattr(getattr(cls, n), 'cache_info') and hasattr(getattr(cls, n), '__wrapped__')]


def clear_all_class_caches():
    for cls in (SgzLoader2d, SgzLoader3d):
        for n in cached_names(cls):
            getattr(cls, n).cache_clear()


class Tap:
    """call-site log of one history: entries [kind, rid, payload..., hit, depth]"""
    def __init__(self):
        self.log = []
        self.depth = 0

    def attach(self, reader, rid):
        tap = self
        ld = reader.loader
        for name in cached_names(type(ld)):
            f = getattr(type(ld), name)
            bound = getattr(ld, name)

            def make(name, f, bound):
                def w(*args, **kw):
                    e = {'k': 'L', 'rid': rid, 'name': name, 'args': flat(args) + flat(list(kw.values())), 'hit': None, 'depth': tap.depth}
                    tap.log.append(e)
                    m0 = f.cache_info().misses
                    try:
                        return bound(*args, **kw)
                    finally:
                        e['hit'] = (f.cache_info().misses == m0)
                w.cache_clear = f.cache_clear
                w.cache_info = f.cache_info
                return w
            setattr(ld, name, make(name, f, bound))
        orig = reader._read_containing_chunk_cached

        def cw(*args):
            e = {'k': 'C', 'rid': rid, 'args': flat(args), 'hit': None, 'depth': tap.depth}
            tap.log.append(e)
            m0 = orig.cache_info().misses
            tap.depth += 1
            try:
                return orig(*args)
            finally:
                tap.depth -= 1
                e['hit'] = (orig.cache_info().misses == m0)
        cw.cache_info = orig.cache_info
        reader._read_containing_chunk_cached = cw
        gm = reader.get_unstructured_mask

        def mw():
            tap.log.append({'k': 'M', 'rid': rid, 'hit': reader.mask is not None, 'depth': tap.depth})
            return gm()
        reader.get_unstructured_mask = mw
        hname = '_load_variant_headers' if PATCHED else 'read_variant_headers'
        hl = getattr(reader, hname)

        def hw(include_padding=False, tracefields=None):
            tap.log.append({'k': 'H', 'rid': rid, 'pad': bool(include_padding),
                            'fields': None if tracefields is None else [int(t) for t in tracefields], 'depth': tap.depth})
            tap.depth += 1
            try:
                return hl(include_padding, tracefields=tracefields) if PATCHED else hl(include_padding=include_padding, tracefields=tracefields)
            finally:
                tap.depth -= 1
        setattr(reader, hname, hw)


# ------------------------------------------------------------------------------------------------ a history
class Actor:
    def __init__(self, kind, fidx, rid, obj, cfile=None, preload=False, subs=None):
        self.kind, self.fidx, self.rid, self.obj, self.cfile, self.preload = kind, fidx, rid, obj, cfile, preload
        self.subs = subs or {}
        self.open = True


EMU_OF = {'e_trace': 'trace', 'e_header': 'header', 'e_iline': 'iline', 'e_xline': 'xline', 'e_depth': 'depth_slice',
          'e_subvol': 'subvolume', 'e_attr': None}
ORACLE = {}


def oracle(path, op, emu):
    key = (path, emu, opkey(op))
    if key not in ORACLE:
        clear_all_class_caches()
        if emu:
            with seismic_zfp.open(path) as fobj:
                ORACLE[key] = outcome(fobj, op)
        else:
            with SgzReader(path) as r:
                ORACLE[key] = outcome(r, op)
        clear_all_class_caches()
    return ORACLE[key]


def coq_ints(xs):
    return '[' + '; '.join(zlit(int(x)) for x in xs) + ']'


def run_history(files, events, label, counting):
    """files: [F main, (other path)] ; events: list of
         ('open', preload, cap) | ('open_other', cap) | ('emu', cap) | ('close', actor#) | ('op', actor#, op)
       returns the Coq term of the history and the observations (for the correspondence)"""
    f = files[0]
    paths = [f.path, f.other]
    # pass 1: the oracle, before anything of the history exists
    actors_plan = []
    for ev in events:
        if ev[0] in ('open', 'open_other', 'emu'):
            actors_plan.append((ev[0], 1 if ev[0] == 'open_other' else 0))
        elif ev[0] == 'op':
            kind, fidx = actors_plan[ev[1]]
            oracle(paths[fidx], ev[2], kind == 'emu')
    clear_all_class_caches()
    tap = Tap()
    fifo_sim, caps = {}, {}
    actors = []
    nrid = 0
    terms = []
    obs = []          # per event: dict(flat=[(level, hit)], reads=int or None, pred_extra...)
    try:
        for n, ev in enumerate(events):
            if ev[0] in ('open', 'open_other'):
                fidx = 1 if ev[0] == 'open_other' else 0
                preload, cap = (ev[1], ev[2]) if ev[0] == 'open' else (False, ev[1])
                cf = CountingFile(paths[fidx]) if counting else None
                r = SgzReader(cf if counting else paths[fidx], preload=preload, chunk_cache_size=cap)
                tap.attach(r, nrid)
                actors.append(Actor('reader', fidx, nrid, r, cf, preload))
                capv = cap if cap is not None else f.dcap
                caps[nrid] = capv
                terms.append(f'Open {fidx}%nat {"true" if preload else "false"} (Some {capv}%nat)')
                nrid += 1
                obs.append(None)
            elif ev[0] == 'emu':
                e = seismic_zfp.open(f.path, chunk_cache_size=ev[1])
                names = ['trace', 'header'] + ([] if f.is2d else ['iline', 'xline', 'depth_slice', 'subvolume'])
                subs = {None: nrid}
                tap.attach(e, nrid)
                for j, nm in enumerate(names):
                    subs[nm] = nrid + 1 + j
                    tap.attach(getattr(e, nm), nrid + 1 + j)
                actors.append(Actor('emu', 0, nrid, e, subs=subs))
                capv = ev[1] if ev[1] is not None else f.dcap
                caps[nrid] = capv
                terms.append(f'OpenEmu 0%nat (Some {capv}%nat)')
                nrid += 1 + len(names)
                obs.append(None)
            elif ev[0] == 'close':
                A = actors[ev[1]]
                if A.kind == 'emu':
                    A.obj.__exit__(None, None, None)
                else:
                    A.obj.close()
                A.open = False
                terms.append(f'Close {A.rid}%nat')
                obs.append(None)
            else:
                A = actors[ev[1]]
                op = ev[2]
                fA = files[0]
                tap.log.clear()
                if A.cfile is not None:
                    A.cfile.log.clear()
                got = outcome(A.obj, op)
                want = oracle(paths[A.fidx], op, A.kind == 'emu')
                ok = (got[0] == want[0]) and (same(got[1], want[1]) if got[0] == 'ok' else got[1] == want[1])
                canon = f'{label}|{n}|{opkey(op)}'
                by_design = (op[0] == 'rvh' and not fA.structured)
                R.case(canon, nontrivial=(got[0] == 'ok' and n > 1 and op[0] not in ('rvh', 'clear_vh', 'clear_cache')),
                       sample={'file': f.label, 'history': label, 'position': n, 'op': opkey(op), 'result': describe(got)})
                R.count(op[0])
                R.count('expect_' + (want[1] if want[0] == 'exc' else 'data'))
                if not ok and not by_design:
                    R.violation('oracle', {'file': f.label, 'history': label, 'events': [repr(e) for e in events[:n + 1]], 'position': n,
                                           'counting': counting, 'seed': a.seed},
                                f'operation {opkey(op)} after this history gives {describe(got)}, on a fresh '
                                f'{"seismic_zfp.open object" if A.kind == "emu" else "reader"} it gives {describe(want)}'
                                + ('' if got[0] != want[0] or got[0] == 'exc' else ' (values differ)'))
                # ---- the model side of this operation
                rid = A.rid if A.kind == 'reader' else A.subs.get(EMU_OF[op[0]], A.subs[None])
                if op[0] == 'rvh':
                    flds = 'None' if op[2] is None else f'(Some {coq_ints(op[2])})'
                    terms.append(f'Cmd {rid}%nat (ReadVH {"true" if op[1] else "false"} {flds})')
                elif op[0] == 'clear_vh':
                    terms.append(f'Cmd {rid}%nat ClearVH')
                elif op[0] == 'clear_cache':
                    terms.append(f'Cmd {rid}%nat ClearCache')
                else:
                    accs = []
                    nall = 0
                    for e in tap.log:
                        if e['depth'] != 0:
                            continue
                        if e['k'] == 'L':
                            accs.append(f'ALoad "{e["name"]}" {coq_ints(e["args"])}')
                        elif e['k'] == 'C':
                            accs.append(f'AChunk {coq_ints(e["args"])}')
                        elif e['k'] == 'M':
                            accs.append('AMask')
                        elif e['k'] == 'H':
                            pad = 'true' if e['pad'] else 'false'
                            if e['fields'] is None:
                                accs.append(f'AHdrAll {pad} {zlit(fA.stored[nall % len(fA.stored)])}')
                                nall += 1
                            else:
                                accs.append(f'AHdrOne {pad} {zlit(e["fields"][0])}')
                    # gen_trace_header on a structured file without load_all_headers: one 4-byte range read per stored field
                    nraw = 0
                    if op[0] in ('gen_trace_header', 'e_header') and fA.structured and got[0] == 'ok':
                        nraw = len(fA.stored) * (len(got[1]) if isinstance(got[1], list) else 1)
                    accs += ['ARaw 0%nat 4%nat'] * nraw
                    terms.append(f'Query {rid}%nat [{"; ".join(accs)}]')
                # hand-model check: a chunk miss calls exactly the loader method Toy.chunk_body says
                for i, e in enumerate(tap.log):
                    if e['k'] == 'C' and len(e['args']) != 4:
                        if not R.distribution.get('chunk key shape differs from the model'):
                            R.violation('corr', {'file': f.label, 'history': label, 'position': n, 'op': opkey(op)},
                                        f'chunk cache key {e["args"]} has {len(e["args"])} components, the model key has 4 (ref_il, ref_xl, min_z, max_z)')
                        R.count('chunk key shape differs from the model')
                    elif e['k'] == 'C' and e['hit'] is False:
                        il, xl, z0, z1 = e['args']
                        if fA.bs[0] == 4 and fA.bs[1] == 4:
                            exp = ('read_and_decompress_chunk_range', [il + 4, xl + 4, z1, il, xl, z0, 0])
                        else:
                            exp = ('read_unshuffle_and_decompress_chunk_range', [il + fA.bs[0], xl + fA.bs[1], z1, il, xl, z0])
                        nxt = tap.log[i + 1] if i + 1 < len(tap.log) else None
                        if nxt is None or nxt['k'] != 'L' or (nxt['name'], nxt['args']) != exp:
                            R.violation('corr', {'file': f.label, 'history': label, 'position': n, 'op': opkey(op)},
                                        f'chunk miss {e["args"]} called {None if nxt is None else (nxt.get("name"), nxt.get("args"))}, model chunk_body says {exp}')
                for e in tap.log:
                    if e['k'] == 'C':       # metric only: would a FIFO table of the same capacity have answered differently?
                        cap_, fifo_ = fifo_sim.setdefault(e['rid'], [caps.get(e['rid'], f.dcap), []])
                        key_ = tuple(e['args'])
                        if (key_ in fifo_) != bool(e['hit']):
                            R.count('chunk accesses where FIFO and LRU differ')
                        if key_ not in fifo_:
                            fifo_.insert(0, key_)
                            del fifo_[cap_:]
                flat_obs = [({'L': 0, 'C': 1, 'M': 2}[e['k']], bool(e['hit'])) for e in tap.log if e['k'] in 'LCM']
                reads = None
                if A.kind == 'reader' and A.cfile is not None:
                    reads = len(A.cfile.log)
                obs.append({'flat': flat_obs, 'reads': reads, 'preload': A.preload, 'op': opkey(op), 'n': n,
                            'assert': got == ('exc', 'AssertErr'), 'rvh': op[0] == 'rvh'})
    finally:
        for A in actors:
            if A.open:
                try:
                    if A.kind == 'emu':
                        A.obj.__exit__(None, None, None)
                    else:
                        A.obj.close()
                except Exception:
                    pass
        clear_all_class_caches()
    return terms, obs


# ------------------------------------------------------------------------------------------------ generators
def pair_histories(f):
    """all ordered pairs (and sampled triples) of operation kinds on ONE reader"""
    K = reader_kinds(f)
    names = sorted(K)
    hs = []
    cfgs = [(p, c) for p in (False, True) for c in (1, 2, None)]
    pairs = list(itertools.product(names, names))
    for j, (k1, k2) in enumerate(pairs):
        A1, B1 = K[k1]
        A2, B2 = K[k2]
        ops = [mkop(k1, A1), mkop(k2, A2), mkop(k1, A1), mkop(k2, B2), mkop(k1, B1), mkop(k2, A2), mkop(k1, A1)]
        for (p, c) in (cfgs if not quick else [cfgs[j % len(cfgs)]]):
            ev = [('open', p, c)] + [('op', 0, o) for o in ops]
            hs.append((f'pair {k1},{k2} preload={p} cache={c}', ev))
    triples = list(itertools.product(names, names, names))
    g = random.Random(a.seed * 17 + len(names))
    g.shuffle(triples)
    for j, (k1, k2, k3) in enumerate(triples[:(40 if quick else 400)]):
        ops = [mkop(k1, K[k1][0]), mkop(k2, K[k2][1]), mkop(k3, K[k3][0]), mkop(k1, K[k1][0]), mkop(k2, K[k2][0]), mkop(k3, K[k3][1]),
               mkop(k1, K[k1][1])]
        p, c = cfgs[(j * 5 + 1) % len(cfgs)]
        hs.append((f'triple {k1},{k2},{k3} preload={p} cache={c}', [('open', p, c)] + [('op', 0, o) for o in ops]))
    # the emulator: all ordered pairs of accessor kinds
    E = emu_kinds(f)
    en = sorted(E)
    for j, (k1, k2) in enumerate(itertools.product(en, en)):
        ops = [mkop(k1, E[k1][0]), mkop(k2, E[k2][0]), mkop(k1, E[k1][0]), mkop(k2, E[k2][1]), mkop(k1, E[k1][1])]
        c = (1, 2, None)[j % 3]
        hs.append((f'emu-pair {k1},{k2} cache={c}', [('emu', c)] + [('op', 0, o) for o in ops]))
    # LRU order: random walks over five chunks with small capacities (hit moves to front, miss evicts the oldest)
    if not f.is2d:
        gw = random.Random(a.seed * 13 + 5)
        reps = []
        for il in (0, f.bs[0], 2 * f.bs[0]):
            for xl in (0, f.bs[1], 2 * f.bs[1]):
                if il < f.n_il and xl < f.n_xl and f.structured:
                    reps.append(il * f.n_xl + xl)
        if not f.structured:
            reps = [0, f.tc // 4, f.tc // 2, (3 * f.tc) // 4, f.tc - 1]
        reps = reps[:5]
        for c in (1, 2, 3):
            for w in range(3 if quick else 12):
                walk = [gw.choice(reps) for _ in range(30)]
                hs.append((f'lru-walk cache={c} #{w}', [('open', bool(w % 2), c)] + [('op', 0, ('get_trace', i)) for i in walk]))
    # direct use of the public sticky read_variant_headers / cache-clearing commands around reads
    st = f.stored
    cmds = [('rvh', False, None), ('rvh', True, None), ('rvh', True, (st[0],)), ('clear_vh',), ('clear_cache',)]
    reads = [mkop('gen_trace_header', K['gen_trace_header'][0]), mkop('get_tracefield_values', K['get_tracefield_values'][0]),
             mkop('get_trace', K['get_trace'][0]), mkop('gen_trace_header_all', K['gen_trace_header_all'][0])]
    for j, (c1, c2) in enumerate(itertools.product(cmds, cmds)):
        ops = [reads[j % 4], c1, reads[(j + 1) % 4], c2, reads[(j + 2) % 4], reads[j % 4], reads[(j + 3) % 4]]
        hs.append((f'cmd {c1[0]}{c1[1:]},{c2[0]}{c2[1:]}', [('open', bool(j % 2), (1, 2, None)[j % 3])] + [('op', 0, o) for o in ops]))
    return hs


def random_history(f, g, n):
    K = reader_kinds(f)
    E = emu_kinds(f)
    ev = []
    actors = []      # (kind, open?)

    def add(kind):
        if kind == 'open':
            ev.append(('open', g.random() < 0.4, g.choice([1, 1, 2, None])))
        elif kind == 'open_other':
            ev.append(('open_other', g.choice([1, 2, None])))
        else:
            ev.append(('emu', g.choice([1, 2, None])))
        actors.append([kind, True])
    add('open'); add('open')
    if g.random() < 0.8:
        add('emu')
    if f.other and g.random() < 0.8:
        add('open_other')
    while len(ev) < n:
        x = g.random()
        live = [i for i, (k, o) in enumerate(actors) if o]
        if x < 0.06 and len(actors) < 7:
            add(g.choice(['open', 'open', 'emu' if not any(k == 'emu' and o for k, o in actors) else 'open', 'open_other' if f.other else 'open']))
        elif x < 0.13 and len(live) > 1:
            i = g.choice(live)
            actors[i][1] = False
            ev.append(('close', i))
        elif live:
            i = g.choice(live)
            if actors[i][0] == 'emu':
                k = g.choice(sorted(E))
                ev.append(('op', i, mkop(k, g.choice(E[k]))))
            else:
                if g.random() < 0.06:
                    ev.append(('op', i, g.choice([('clear_vh',), ('clear_cache',)] + ([('rvh', False, None)] if f.structured else []))))
                elif not f.is2d and g.random() < 0.12:
                    ev.append(('op', i, ('read_subvolume',) + structural_subvolume(f, g)))
                else:
                    k = g.choice(sorted(K))
                    ev.append(('op', i, mkop(k, g.choice(K[k]))))
        else:
            add('open')
    return ev


# ------------------------------------------------------------------------------------------------ main
def world(files):
    f = files[0]
    n = 2 if f.other else 1
    bs = '; '.join(f'({f.bs[0]}, {f.bs[1]})' for _ in range(n))
    return (f'(fun f => nth f [{bs}] (4, 4)) (fun _ => {"true" if f.is2d else "false"}) (fun _ => {"true" if f.structured else "false"}) '
            f'(fun _ => {coq_ints(f.stored)}) (fun _ => {f.dcap}%nat) {"true" if PATCHED else "false"}')


pending = []    # (label, file label, world, terms, obs)


def execute(f, label, ev, counting):
    try:
        terms, obs = run_history([f], ev, label, counting)
    except Exception as e:
        import traceback
        R.violation('harness', {'file': f.label, 'history': label}, 'harness error: ' + ''.join(traceback.format_exception_only(type(e), e)).strip()
                    + ' @ ' + traceback.format_exc().splitlines()[-3].strip())
        return
    pending.append((label, f.label, world([f]), terms, obs))
    R.count('histories')


def check_model():
    if a.no_model or not pending:
        return
    pre = ('Import Toy.\nDefinition both bs twod st stored dcap p ops := let r := Toy.run bs twod st stored dcap p ops in\n'
           '  (rev (log (fst r)), map (fun x => match x with RUnit (Raise AssertErr) => 1%nat | RVal (Raise AssertErr) => 1%nat | _ => 0%nat end) (snd r)).')
    terms = [f'both {w} [{"; ".join(t)}]' for (_, _, w, t, _) in pending]
    try:
        vals = coq_eval(['SZ.Lib.Py', 'SZ.Model.Caches'], terms, shard=50, preamble=pre)
    except CoqEvalError as e:
        R.violation('corr', {'stage': 'coqeval'}, 'the model could not be evaluated: ' + str(e)[-1500:])
        return
    nh = len(pending)
    for (label, flabel, w, t, obs), tv in zip(pending, vals):
        tr, asserts = parse_value(tv)
        per = []
        for lv, hit in tr:
            if lv == 9:
                per.append([])
            else:
                per[-1].append((lv, hit))
        if len(per) != len(obs):
            R.violation('corr', {'file': flabel, 'history': label}, f'model executed {len(per)} operations, history has {len(obs)}')
            continue
        for m, o, asr in zip(per, obs, asserts):
            if o is None:
                continue
            R.count('corr_ops')
            for lv, hit in o['flat']:
                R.count(f"observed {('loader', 'chunk', 'mask')[lv]} {'hit' if hit else 'miss'}")
            pred = [(lv, hit) for lv, hit in m if lv in (0, 1, 2)]
            if pred != o['flat']:
                R.violation('corr', {'file': flabel, 'history': label, 'position': o['n'], 'op': o['op'], 'terms': t},
                            f'cache hits/misses differ: model (level,hit) {pred}, functools/reader observed {o["flat"]}')
                break
            if o['rvh'] and bool(asr) != o['assert']:
                R.violation('corr', {'file': flabel, 'history': label, 'position': o['n'], 'op': o['op']},
                            f'read_variant_headers: model predicts AssertionError={bool(asr)}, observed {o["assert"]}')
                break
            if o['reads'] is not None and not o['assert']:
                extra = sum(1 for lv, hit in m if (lv == 2 and not hit) or lv in (3, 4))
                lmiss = sum(1 for lv, hit in m if lv == 0 and not hit)
                R.count('corr_io')
                bad = (o['reads'] != extra) if (o['preload'] or lmiss == 0) else (o['reads'] <= extra)
                if bad:
                    R.violation('corr', {'file': flabel, 'history': label, 'position': o['n'], 'op': o['op']},
                                f'file reads: observed {o["reads"]}, model: {lmiss} loader misses (preload={o["preload"]}) + {extra} other fetches')
                    break
    pending.clear()


def alias_sequences():
    """a file in which several header words share stored arrays (SourceX = CDP_X, SourceY = CDP_Y in every trace, as in many real
    SEG-Y files): ordered sequences of five whole-field reads, followed by two regenerated headers, on ONE reader and on
    ONE emulator, equals what fresh readers answer (oracle only; the cache model does not describe this file)"""
    import seismic_zfp as _sz
    g = random.Random(a.seed * 13 + 5)
    shape = (5, 6, 9)
    sgy = os.path.join(d, 'alias.sgy'); p = os.path.join(d, 'alias.sgz')
    TFs = segyio.TraceField
    mk_segy(sgy, rnd_cube(g, shape), 10 + 2 * np.arange(shape[0]), 100 + 3 * np.arange(shape[1]),
            hdr=lambda t, i, x: {TFs.SourceX: 1000 + 7 * i + x, TFs.SourceY: 5000 + 3 * i - 11 * x, TFs.GroupX: 1000 + 7 * i + x})
    write_segy_sgz(sgy, p, bpv=8)
    os.remove(sgy)
    fields = [181, 73, 185, 77, 189, 193, 81]
    fresh = {}
    for fld in fields:
        with SgzReader(p) as r:
            fresh[fld] = np.asarray(r.get_tracefield_values(fld)).copy()
    with SgzReader(p) as r:
        n_arr, hd_ref = r.n_header_arrays, {t: {int(k): int(v) for k, v in r.gen_trace_header(t, load_all_headers=True).items()} for t in (0, 7, 29)}
    R.notes.append(f'alias file: {n_arr} stored arrays behind {len(fields)} varying header words')
    seqs = list(itertools.permutations(fields, 5))        # (longer than the number of stored arrays: every count-based shortcut is crossed)
    g.shuffle(seqs)
    for seq in seqs[:(60 if quick else 210)]:
        inp = {'file': 'alias', 'history': [f'get_tracefield_values({f_})' for f_ in seq] + ['gen_trace_header(7, load_all_headers=True)', 'gen_trace_header(29)']}
        R.case(('alias', seq), nontrivial=True)
        R.count('alias sequences')
        for how in ('reader', 'emulator'):
            try:
                if how == 'reader':
                    with SgzReader(p) as r:
                        got = [np.asarray(r.get_tracefield_values(f_)) for f_ in seq]
                        h7 = {int(k): int(v) for k, v in r.gen_trace_header(7, load_all_headers=True).items()}
                        h29 = {int(k): int(v) for k, v in r.gen_trace_header(29).items()}
                else:
                    with _sz.open(p) as e:
                        got = [np.asarray(e.attributes(f_)[:]).reshape(shape[:2]) for f_ in seq]
                        h7 = {int(k): int(v) for k, v in e.header[7].items()}
                        h29 = {int(k): int(v) for k, v in e.header[29].items()}
                for f_, v in zip(seq, got):
                    if not np.array_equal(v, fresh[f_]):
                        R.violation('oracle', dict(inp, through=how), f'field {f_} read after {list(seq[:seq.index(f_)])} differs from a fresh reader: {v.reshape(-1)[:4]} vs {fresh[f_].reshape(-1)[:4]}')
                        break
                if h7 != hd_ref[7] or h29 != hd_ref[29]:
                    R.violation('oracle', dict(inp, through=how), 'a regenerated header after the field reads differs from a fresh reader')
            except Exception as ex:
                R.violation('oracle', dict(inp, through=how), f'the sequence raised {type(ex).__name__}: {ex}')


try:
    files = make_files()
    if not a.replay:
        alias_sequences()
    if a.replay:
        rp = json.load(open(a.replay))
        inp = rp['input']
        f = [x for x in files if x.label == inp['file']][0]
        # events were recorded as repr() strings of tuples of builtins (slice included)
        ev = [eval(e, {'slice': slice, 'None': None, 'True': True, 'False': False}) for e in inp['events']]
        execute(f, inp.get('history', 'replay'), ev, bool(inp.get('counting')))
        check_model()
    else:
        for fi, f in enumerate(files):
            hs = pair_histories(f)
            for j, (label, ev) in enumerate(hs):
                execute(f, label, ev, counting=(j % 2 == 0))
            g = random.Random(a.seed * 7 + fi)
            for j in range((12 if quick else 150) * (3 if a.search else 1)):
                execute(f, f'random #{j}', random_history(f, g, g.randrange(12, 40)), counting=(j % 3 != 0))
            check_model()
            R.count(f'file {f.label} bs={f.bs} structured={f.structured}')
    if not PATCHED:
        R.notes.append('tree without the D18 repair (_load_variant_headers absent): the model ran with patched=false')
    R.notes.append('direct calls of the public read_variant_headers on unstructured files are compared with the model only '
                   '(documented sticky mode, tests/test_read.py::test_read_variant_headers_padding_mismatch)')
finally:
    shutil.rmtree(d, ignore_errors=True)
R.write(a.out)
