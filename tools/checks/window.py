#!/usr/bin/env python3
"""Harness for C11 (conversion with an inline/crossline window).

For generated regular SEG-Y cubes (non-unit, negative-start line numbering; one of more than 128 traces whose line NUMBERS
start at 0, so that file and window differ in the 512-byte padding class of a stored header array; IEEE and IBM samples; one
file with an extended textual header, whose reduced-I/O self-test fails), every window 0 <= min < max <= n on both axes (exhaustive on
the small cubes, boundary + trace counts around every multiple of 128 + seeded random on the larger ones) x reduce_iops on/off x the four header-detection modes:

  oracle (never uses the model):
    * the windowed SGZ must be byte-identical to the SGZ converted, without a window, from a SEG-Y that contains only
      the windowed traces (and the same 3600-byte file header) (header block incl. hash, SEG-Y header block, data section, footer, file length) -- for windows
      at least two lines wide on both axes (a one-line sub-cube alone is detected as a 2D line: no 3D file to compare with);
    * for EVERY window: n_il/n_xl/trace count/ilines/xlines of the windowed SGZ and every trace header equal what segyio
      reports for the sub-cube SEG-Y; the data section equals zfpy of the edge-extended sub-cube; the stored hash is the
      SHA-1 of the windowed samples; the file length is what the header announces.
  correspondence: Model/Window.v (run inside Coq through tools/coqeval.py on the same source description, window, mode,
    reader flag) vs the implementation: header scalars, header-word table, every stored header array, every plane-set
    buffer (materialised from the model's (inline, crossline) provenance, compressed with zfpy, compared with the data
    section), the hashed rows, the allocation length (file length); and the exception class for a few invalid windows.
  known finding D6-heuristic-detection-from-source-corners: in heuristic mode the header-word table is derived from the
    first and last trace of the SOURCE; when the sub-cube's own corners classify a field differently (guard
    `tables_agree`, evaluated in Coq and cross-checked here) the two files differ in the table and footer, although
    the windowed file's headers are right.  Inside the guard equality is demanded."""
import os, sys, struct, itertools
sys.path.insert(0, os.path.dirname(os.path.abspath(__file__)))
from common import *
a = parse_args()
from hz import *
import coqeval
from coqeval import coq_eval, parse_value, zlit, CoqEvalError
if os.environ.get('VERIF_COQ'):          # development only: a private build directory of the Coq sources
    coqeval.COQ = os.environ['VERIF_COQ']

FINDING = 'D6-heuristic-detection-from-source-corners'
R = Result('one case = (cube, window, reduce_iops, header-detection mode); non-trivial = distinct case whose window is a '
           'proper sub-cube or starts at ordinal 0 or uses the reduced-I/O reader; cubes cover n mod 4 / mod 8 on both axes, '
           'windows are all 0 <= min < max <= n on the small cubes and boundary + seeded random ones on the larger; one cube has '
           'line numbers starting at 0 and more than 128 traces (windows on both sides of the 128-trace footer padding)')
rng = random.Random(a.seed * 104729 + 11)
d = scratch_dir()
TF = segyio.TraceField
MODES = ['heuristic', 'thorough', 'exhaustive', 'strip']
CODES = [int(k) for k in segyio.field.Field(bytearray(240), kind='trace').keys()]
assert CODES == sorted(CODES) and len(CODES) == 89 and [int(x) for x in TF.enums()[0:89]] == CODES


class Cube:
    """a regular SEG-Y source whose header fields are affine in (inline ordinal i, crossline ordinal x)"""
    def __init__(self, name, n_il, n_xl, ns, il0, dil, xl0, dxl, fmt=5, ext_text=0, bpv=8, blockshape=None):
        self.name, self.n_il, self.n_xl, self.ns = name, n_il, n_xl, ns
        self.il0, self.dil, self.xl0, self.dxl, self.fmt, self.ext_text = il0, dil, xl0, dxl, fmt, ext_text
        self.bpv, self.blockshape = bpv, blockshape
        self.dt = 4000
        # field code -> (c0, ci, cx): value = c0 + ci * i + cx * x
        self.fields = {189: (il0, dil, 0), 193: (xl0, 0, dxl), 117: (self.dt, 0, 0), 115: (ns, 0, 0),
                       181: (1000, 7, 1), 185: (5000, 3, -11), 1: (1, n_xl, 1), 5: (1, n_xl, 1), 21: (0, 3, -2), 17: (7, 0, 0)}
        self.data = rnd_cube(rng, (n_il, n_xl, ns))
        self.path = os.path.join(d, name + '.sgy')
        self.write(self.path, 0, n_il, 0, n_xl, self.data)
        with segyio.open(self.path) as s:
            self.cube = segyio.tools.cube(s).copy()      # what segyio reads back (IBM rounding for fmt 1)
        self.selftest = (ext_text == 0)

    def val(self, f, i, x):
        c = self.fields.get(f)
        return 0 if c is None else c[0] + c[1] * i + c[2] * x

    def write(self, path, a_, b_, c_, d_, data):
        il = [self.il0 + self.dil * k for k in range(a_, b_)]
        xl = [self.xl0 + self.dxl * k for k in range(c_, d_)]
        mk_segy(path, data, il, xl, dt_us=self.dt, fmt=self.fmt, ext_text=self.ext_text,
                hdr=lambda t, i, x: {f: self.val(f, i + a_, x + c_) for f in self.fields})
        if path != self.path:
            # the sub-cube file carries the survey's file header (segyio.create stores the trace count in two
            # informational binary-header fields, the only bytes that would differ); the SGZ copies these 3600 bytes
            with open(self.path, 'rb') as f0, open(path, 'r+b') as f1:
                f1.write(f0.read(3600))

    def coq_source(self):
        N = self.n_xl
        body = '0'
        for f, (c0, ci, cx) in sorted(self.fields.items(), reverse=True):
            body = f'if f =? {f} then {zlit(c0)} + {zlit(ci)} * (t / {N}) + {zlit(cx)} * (t mod {N}) else {body}'
        return (f'(prov_source {self.n_il} {self.n_xl} {self.ns} {zlit(self.il0)} {zlit(self.dil)} {zlit(self.xl0)} '
                f'{zlit(self.dxl)} (fun t f => {body}))')

    def bs(self):
        if self.blockshape is None:
            return (4, 4, 4096 * 8 // (16 * self.bpv))
        b0, b1, _ = self.blockshape
        return (b0, b1, 4096 * 8 // (b0 * b1 * self.bpv))


def corner_class(c, first, last):
    """independent re-statement of the heuristic classification: field -> ('const', v) | ('ref', code)"""
    out, seen = {}, []
    for f in CODES:
        v1, v2 = c.val(f, *first), c.val(f, *last)
        if v1 == v2:
            out[f] = ('const', v1)
        else:
            tgt = next((g for g in seen if (c.val(g, *first), c.val(g, *last)) == (v1, v2)), f)
            out[f] = ('ref', tgt)
            seen.append(f)
    return out


def compress_sets(bufs, bs, bpv):
    out = b''
    for buf in bufs:
        buf = np.ascontiguousarray(buf, dtype=np.float32)
        if bs[0] == 4 and bs[1] == 4:
            out += zfpy.compress_numpy(buf, rate=bpv, write_header=False)
        else:
            for x in range(buf.shape[1] // bs[1]):
                for z in range(buf.shape[2] // bs[2]):
                    out += zfpy.compress_numpy(buf[:, x * bs[1]:(x + 1) * bs[1], z * bs[2]:(z + 1) * bs[2]].copy(),
                                               rate=bpv, write_header=False)
    return out


def expected_data(sub, bs, bpv):
    """the data section the specification prescribes for the sub-cube: edge-extended to the blockshape"""
    P = [-(-n // b) * b for n, b in zip(sub.shape, bs)]
    ext = np.pad(sub, [(0, P[k] - sub.shape[k]) for k in range(3)], 'edge')
    return compress_sets([ext[p:p + bs[0]] for p in range(0, P[0], bs[0])], bs, bpv)


def parse_file(path):
    raw = open(path, 'rb').read()
    u = lambda o: struct.unpack('<I', raw[o:o + 4])[0]
    s = lambda o: struct.unpack('<i', raw[o:o + 4])[0]
    fl = lambda o: struct.unpack('<i', raw[o:o + 4])[0]
    tab = [tuple(s(980 + 12 * k + 4 * j) for j in range(3)) for k in range(89)]
    ndb, hel, nha = u(56), u(60), u(64)
    stride = -(-hel // 512) * 512
    foot = [list(np.frombuffer(raw[8192 + 4096 * ndb + k * stride: 8192 + 4096 * ndb + k * stride + hel], dtype='<i4'))
            for k in range(nha)]
    return dict(raw=raw, n_xl=u(8), n_il=u(12), xl0=fl(20), il0=fl(24), dxl=fl(32), dil=fl(36), hel=hel, nha=nha, tc=u(68),
                table=tab, ndb=ndb, data=raw[8192:8192 + 4096 * ndb], footers=foot, stride=stride,
                tail=raw[8192 + 4096 * ndb:], hash=raw[960:980])


cubes = [Cube('c45', 4, 5, 6, 10, 3, 100, 2, bpv=8),
         Cube('c79', 7, 9, 10, -6, 3, 100, 2, bpv=16),
         Cube('c38i', 3, 8, 5, 1, 1, 20, 5, fmt=1, bpv=4),
         Cube('c56x', 5, 6, 7, 10, 2, 7, 3, ext_text=1, bpv=8),
         Cube('c96b', 9, 6, 5, 2, 4, 300, 10, bpv=4, blockshape=(8, 8, -1)),
         Cube('c22', 2, 2, 4, 5, 5, 6, 6, bpv=8),
         # inline/crossline NUMBERS starting at 0 (the value an unpopulated header word has: the converter tests the first
         # inline number against 0 when it sizes the header arrays) in a file of more than 128 traces: a stored header array
         # occupies ceil(4 * traces / 512) * 512 bytes, so a proper window (<= 128 traces) and the file fall in different
         # footer-padding classes and arrays sized or strided by the file instead of the window cannot go unnoticed
         Cube('z1311', 13, 11, 4, 0, 1, 0, 2, bpv=8)]
if a.tier != 'quick':
    cubes += [Cube('t86', 8, 6, 9, 100, 10, 50, 1, bpv=2), Cube('t1317', 13, 17, 5, 3, 2, 9, 4, bpv=8),
              Cube('t512', 5, 12, 8, 0, 1, 0, 1, fmt=1, bpv=16, blockshape=(4, 8, -1)),
              Cube('z2015', 20, 15, 5, 0, 2, -8, 4, bpv=4)]


def all_windows(n_il, n_xl):
    return [(i0, i1, x0, x1) for i0 in range(n_il) for i1 in range(i0 + 1, n_il + 1)
            for x0 in range(n_xl) for x1 in range(x0 + 1, n_xl + 1)]


def pick_windows(c):
    ws = all_windows(c.n_il, c.n_xl)
    if a.tier == 'quick':
        full = {'c45': None, 'c22': None}
        budget = {'c79': 22, 'c38i': 14, 'c56x': 12, 'c96b': 14, 'z1311': 16}
    else:
        full = {'c45': None, 'c22': None, 'c38i': None, 'c56x': None}
        budget = {'c79': 120, 'c96b': 80, 't86': 80, 't1317': 60, 't512': 60, 'z1311': 40, 'z2015': 40}
    if c.name in full:
        return ws
    n = budget[c.name]
    ni, nx = c.n_il, c.n_xl
    must = [(0, ni, 0, nx), (0, 1, 0, 1), (ni - 1, ni, nx - 1, nx), (0, ni - 1, 0, nx - 1), (1, ni, 1, nx), (0, 4, 0, 4),
            (1, 5, 2, 7), (0, ni, 1, nx - 1), (1, ni - 1, 0, nx), (0, 3, 0, 4), (2, 5, 1, 5)]
    # footer residue classes (one stored header array is padded to 512 bytes = 128 traces): for every multiple of 128 below
    # the file's trace count, the largest window not above it and the smallest window above it
    cnt = lambda w: (w[1] - w[0]) * (w[3] - w[2])
    for k in range(1, (ni * nx - 1) // 128 + 1):
        must.append(max((w for w in ws if cnt(w) <= 128 * k), key=cnt))
        must.append(min((w for w in ws if cnt(w) > 128 * k), key=cnt))
    must = [w for w in must if w in set(ws)]
    rest = [w for w in ws if w not in set(must)]
    rng.shuffle(rest)
    return list(dict.fromkeys(must + rest[:max(0, n - len(must))]))


INVALID = [(0, 0, 0, 2), (1, 1, 0, 2), (0, 2, 3, 3), (0, 99, 0, 2), (0, 2, 0, 99), (3, 2, 0, 2), (0, 2, 1, 99)]

# ------------------------------------------------------------------------------------------------ run the implementation
cases = []          # dicts: cube, window, reduce, mode, outcome ('ok', parsed file) | ('exc', class)
subs = {}           # (cube, window) -> (sub-cube sgy path, {mode: parsed reference file or None})
for c in cubes:
    wins = pick_windows(c)
    for w in wins:
        a_, b_, c_, d_ = w
        sp = os.path.join(d, f'{c.name}_{a_}_{b_}_{c_}_{d_}.sgy')
        c.write(sp, a_, b_, c_, d_, c.data[a_:b_, c_:d_])
        refs = {}
        if b_ - a_ >= 2 and d_ - c_ >= 2:
            for m in MODES:
                rp = os.path.join(d, 'ref.sgz')
                write_segy_sgz(sp, rp, bpv=c.bpv, blockshape=c.blockshape, header_detection=m)
                refs[m] = parse_file(rp)
        subs[(c.name, w)] = (sp, refs)
        combos = [(ri, m) for ri in (False, True) for m in MODES]
        if c.name != 'c22' and a.tier == 'quick':
            # every window sees both readers and every mode, not the full product
            k = rng.randrange(4)
            combos = [(False, MODES[k]), (True, MODES[(k + 1) % 4]), (bool(k & 1), MODES[(k + 2) % 4]), (not (k & 1), MODES[(k + 3) % 4])]
        for ri, m in combos:
            wp = os.path.join(d, 'win.sgz')
            try:
                write_segy_sgz(c.path, wp, bpv=c.bpv, blockshape=c.blockshape, reduce_iops=ri, header_detection=m, window=w)
                out = ('ok', parse_file(wp), wp)
            except Exception as e:
                out = ('exc', exc_class(e), None)
            case = dict(cube=c, window=w, reduce=ri, mode=m, out=out[:2])
            if out[0] == 'ok':
                # reader-level observations now (the file is overwritten by the next case)
                with SgzReader(wp) as r:
                    case['reader'] = dict(ilines=[int(v) for v in r.ilines], xlines=[int(v) for v in r.xlines], tc=int(r.tracecount),
                                          structured=bool(r.structured),
                                          hdrs=None if m == 'strip' else [dict((int(k), int(v)) for k, v in r.gen_trace_header(t).items())
                                                                          for t in range(r.tracecount)])
            cases.append(case)
    # invalid windows: only the exception class is compared with the model
    if c.name in ('c45', 'c79'):
        for w in INVALID:
            for ri in (False, True):
                wp = os.path.join(d, 'win.sgz')
                try:
                    write_segy_sgz(c.path, wp, bpv=c.bpv, reduce_iops=ri, header_detection='exhaustive', window=w)
                    out = ('ok', parse_file(wp))
                except Exception as e:
                    out = ('exc', exc_class(e))
                cases.append(dict(cube=c, window=w, reduce=ri, mode='exhaustive', out=out, invalid=True))

# ------------------------------------------------------------------------------------------------ run the model
model_out, guard_out = None, None
if not a.no_model:
    pre = 'Definition codes := [' + '; '.join(map(str, CODES)) + '].\n'
    for c in cubes:
        pre += f'Definition S_{c.name} := {c.coq_source()}.\n'
    terms, gterms = [], []
    for k in cases:
        c, w = k['cube'], k['window']
        bs = c.bs()
        terms.append(f'run_show codes {k["mode"].capitalize()} (win {w[0]} {w[1]} {w[2]} {w[3]}) {str(k["reduce"]).lower()} '
                     f'{str(c.selftest).lower()} {bs[0]} {bs[1]} S_{c.name}')
        gterms.append(f'tables_agree (Z * Z) codes {k["mode"].capitalize()} S_{c.name} {w[0]} {w[1]} {w[2]} {w[3]}')
    try:
        vals = coq_eval(['SZ.Model.Window'], terms + gterms, shard=60, jobs=12, preamble=pre)
        model_out, guard_out = vals[:len(terms)], vals[len(terms):]
    except CoqEvalError as e:
        R.violation('corr', {'stage': 'coq_eval'}, 'the model could not be evaluated: ' + str(e)[-1500:])


def first_diff(x, y):
    n = min(len(x), len(y))
    k = next((j for j in range(n) if x[j] != y[j]), n)
    return f'first difference at byte {k} (lengths {len(x)} / {len(y)})'


ERR = {10: 'IndexErr', 11: 'ValueErr', 12: 'TypeErr', 13: 'OtherErr', 14: 'ZeroDivErr'}
found_known = False
for idx, k in enumerate(cases):
    c, w, ri, m = k['cube'], k['window'], k['reduce'], k['mode']
    a_, b_, c_, d_ = w
    inp = dict(cube=c.name, shape=[c.n_il, c.n_xl, c.ns], window=list(w), reduce_iops=ri, mode=m, bpv=c.bpv,
               blockshape=c.blockshape, fmt=c.fmt, ext_text=c.ext_text)
    bs = c.bs()
    R.count(f'{c.name}')
    kind, val = k['out']
    # ------------------------------------------------ model
    mv = None
    if model_out is not None:
        t = model_out[idx]
        if t.startswith('inl'):
            mv = ('exc', ERR.get(int(t.split()[1]), 'route2d' if t.split()[1] == '2' else t))
        else:
            mv = ('ok', parse_value(t[len('inr'):].strip()))
    if k.get('invalid'):
        R.case(('inv', c.name, w, ri), nontrivial=False)
        R.count('invalid-window')
        if mv is not None:
            got = ('exc', val) if kind == 'exc' else ('ok',)
            want = ('exc', mv[1]) if mv[0] == 'exc' else ('ok',)
            if got != want:
                R.violation('corr', inp, f'invalid window: implementation {got}, model {want}')
        continue
    proper = (b_ - a_, d_ - c_) != (c.n_il, c.n_xl)
    R.case((c.name, w, ri, m), nontrivial=proper or ri, sample=dict(inp) if idx % 97 == 0 else None)
    R.count('mode:' + m); R.count('reduce_iops' if ri else 'segyio')
    if a_ == 0 or c_ == 0:
        R.count('window-starts-at-0')
    if kind == 'exc':
        R.violation('oracle', inp, f'conversion with a valid window raised {val}')
        if mv is not None and mv != ('exc', val):
            R.violation('corr', inp, f'implementation raised {val}, model {mv[0]}')
        continue
    F = val
    sub = c.cube[a_:b_, c_:d_]
    sp, refs = subs[(c.name, w)]
    # ------------------------------------------------ direct oracle 1: semantic content vs segyio on the sub-cube file
    with segyio.open(sp, strict=False) as s:
        if b_ - a_ >= 1:
            exp_il = [c.il0 + c.dil * j for j in range(a_, b_)]
            exp_xl = [c.xl0 + c.dxl * j for j in range(c_, d_)]
            if s.ilines is not None and (list(map(int, s.ilines)) != exp_il or list(map(int, s.xlines)) != exp_xl):
                R.violation('oracle', inp, 'harness error: sub-cube SEG-Y axes are not the windowed axes')
        rd = k['reader']
        if (F['n_il'], F['n_xl'], F['tc']) != (b_ - a_, d_ - c_, (b_ - a_) * (d_ - c_)) or rd['tc'] != s.tracecount or not rd['structured']:
            R.violation('oracle', inp, f"dimensions/trace count: file says {F['n_il']}x{F['n_xl']}, {F['tc']} traces; window is {b_ - a_}x{d_ - c_}")
        if rd['ilines'] != exp_il or rd['xlines'] != exp_xl:
            R.violation('oracle', inp, f"axes: ilines {rd['ilines'][:3]}.. xlines {rd['xlines'][:3]}.., windowed traces have {exp_il[:3]}.. {exp_xl[:3]}..")
        if m != 'strip' and rd['tc'] == s.tracecount:
            bad = [(t, int(f), int(hv), rd['hdrs'][t][int(f)]) for t in range(s.tracecount) for f, hv in s.header[t].items()
                   if int(hv) != rd['hdrs'][t][int(f)]]
            # heuristic mode is allowed to miss a field whose first and last SOURCE values agree (documented); none of the
            # generated fields does that
            if bad:
                R.violation('oracle', inp, f'{len(bad)} trace header values differ from the windowed traces, e.g. (trace, field, want, got) {bad[:3]}')
        want_hash = hashlib.sha1(np.ascontiguousarray(sub, dtype=np.float32).tobytes()).digest()
        if F['hash'] != want_hash:
            R.violation('oracle', inp, 'stored hash is not the SHA-1 of the windowed samples')
    ed = expected_data(sub, bs, c.bpv)
    if F['data'] != ed:
        R.violation('oracle', inp, 'data section is not the compressed edge-extended sub-cube: ' + first_diff(F['data'], ed))
    if len(F['raw']) != 8192 + 4096 * F['ndb'] + F['nha'] * F['stride'] or F['hel'] != 4 * F['tc']:
        R.violation('oracle', inp, f"file length {len(F['raw'])} / header-array length {F['hel']} do not match the header "
                                   f"({F['nha']} arrays of {F['tc']} traces)")
    # ------------------------------------------------ direct oracle 2: byte identity with the converted sub-cube
    # guard, evaluated independently of the model
    g_py = True
    if m == 'heuristic':
        g_py = corner_class(c, (0, 0), (c.n_il - 1, c.n_xl - 1)) == corner_class(c, (a_, c_), (b_ - 1, d_ - 1))
    if guard_out is not None:
        g_coq = guard_out[idx].strip() == 'true'
        if g_coq != g_py:
            R.violation('corr', inp, f'guard tables_agree: Coq {g_coq}, harness {g_py}')
    if refs:
        ref = refs[m]
        same = F['raw'] == ref['raw']
        R.count('file-identity-checked')
        if g_py:
            if not same:
                parts = [nm for nm, x, y in (('header block', F['raw'][:4096], ref['raw'][:4096]), ('SEG-Y header block', F['raw'][4096:8192], ref['raw'][4096:8192]),
                                             ('data section', F['data'], ref['data']), ('footer', F['tail'], ref['tail'])) if x != y]
                R.violation('oracle', inp, 'windowed SGZ differs from the SGZ of the sub-cube SEG-Y in: ' + ', '.join(parts) + '; ' + first_diff(F['raw'], ref['raw']))
        else:
            R.count('outside-guard')
            if same:
                R.violation('oracle', inp, 'guard tables_agree is false but the two files are identical (the finding no longer reproduces)', finding_key=None)
            else:
                if not found_known:     # reported once: further instances must not crowd genuine alarms out of the capped list
                    R.violation('oracle', inp, 'heuristic detection used the source corners: table/footer differ from the converted sub-cube '
                                '(data section equal: %s)' % (F['data'] == ref['data']), finding_key=FINDING)
                found_known = True
                if F['data'] != ref['data'] or F['raw'][:64] != ref['raw'][:64] or F['raw'][68:980] != ref['raw'][68:980] or F['raw'][4096:8192] != ref['raw'][4096:8192]:
                    R.violation('oracle', inp, 'outside the guard only the header-word table, array count and footer may differ')
    else:
        R.count('one-line-window (no 3D reference file)')
    # ------------------------------------------------ correspondence
    if mv is None:
        continue
    if mv[0] != 'ok':
        R.violation('corr', inp, f'implementation wrote a file, model says {mv}')
        continue
    scal, tab, sets, hashed, arrays = mv[1]
    impl_scal = [F['n_il'], F['n_xl'], F['il0'], F['xl0'], F['dil'], F['dxl'], F['hel'], F['tc'], F['nha']]
    mscal = list(scal[:9])
    if mscal != impl_scal:
        R.violation('corr', inp, f'header fields [n_il n_xl il0 xl0 dil dxl hel tracecount n_arrays]: model {scal[:9]}, file {impl_scal}')
    if [tuple(r) for r in tab] != F['table']:
        dif = [(x, y) for x, y in zip([tuple(r) for r in tab], F['table']) if x != y]
        R.violation('corr', inp, f'header-word table: first differing rows (model, file) {dif[:3]}')
    marr = [(f, list(arr)) for f, arr in arrays] if arrays else []
    if [x[1] for x in marr] != [[int(v) for v in fa] for fa in F['footers']]:
        R.violation('corr', inp, f'stored header arrays differ: model fields {[x[0] for x in marr][:6]}.., {len(marr)} arrays vs {len(F["footers"])} in the file')
    alloc = scal[9]
    if m != 'strip' and len(F['tail']) != F['nha'] * (-(-4 * alloc // 512) * 512):
        R.violation('corr', inp, f'footer length {len(F["tail"])} is not {F["nha"]} arrays of {alloc} entries padded to 512')
    # plane-set buffers: materialise provenance, extend samples as io_thread_func's last statement does, compress
    P2 = -(-c.ns // bs[2]) * bs[2]
    bufs = []
    okb = True
    for st in sets:
        buf = np.zeros((len(st), len(st[0]), P2), dtype=np.float32)
        for i, row in enumerate(st):
            for x, (si, sx) in enumerate(row):
                if si < 0:
                    okb = False
                    continue
                buf[i, x, :c.ns] = c.cube[si, sx]
                buf[i, x, c.ns:] = c.cube[si, sx, c.ns - 1]
        bufs.append(buf)
    if not okb or compress_sets(bufs, bs, c.bpv) != F['data']:
        R.violation('corr', inp, 'plane-set buffers of the model, compressed, are not the data section')
    hrows = b''.join(np.ascontiguousarray(c.cube[si, sx], dtype=np.float32).tobytes() for row in hashed for (si, sx) in row)
    if hashlib.sha1(hrows).digest() != F['hash']:
        R.violation('corr', inp, 'SHA-1 of the rows the model feeds to the hash is not the stored hash')

# ------------------------------------------------------------------------------------------------ the command line
# `seismic-zfp sgy2sgz --min-il .. --max-il .. --min-xl .. --max-xl ..` must write what the API writes (a bound of 0 is
# passed as the integer 0, not as "absent")
try:
    from click.testing import CliRunner
    from seismic_zfp import cli as szcli
    c = next(cc for cc in cubes if cc.name == 'c79')
    for w in [(0, 4, 0, 4), (1, 5, 2, 7), (0, 7, 3, 9)]:
        for ri in (False, True):
            cp, ap = os.path.join(d, 'cli.sgz'), os.path.join(d, 'api.sgz')
            res = CliRunner().invoke(szcli.cli, ['sgy2sgz', c.path, cp, '--bits-per-voxel', str(c.bpv), '--reduce-iops', str(ri),
                                                 '--min-il', str(w[0]), '--max-il', str(w[1]), '--min-xl', str(w[2]), '--max-xl', str(w[3])])
            inp = dict(cube=c.name, window=list(w), reduce_iops=ri, mode='heuristic', route='cli')
            R.case(('cli', w, ri), nontrivial=True)
            R.count('cli')
            if res.exit_code != 0 or not os.path.exists(cp):
                R.violation('oracle', inp, f'CLI conversion failed: exit {res.exit_code} {res.exception!r}')
                continue
            write_segy_sgz(c.path, ap, bpv=c.bpv, reduce_iops=ri, window=w)
            x, y = open(cp, 'rb').read(), open(ap, 'rb').read()
            if x != y:
                R.violation('oracle', inp, 'the CLI writes a different file than the API for the same window: ' + first_diff(x, y))
            os.remove(cp)
except ImportError as e:
    R.notes.append(f'CLI route not exercised: {e}')

if found_known:
    R.known.append(FINDING)
R.notes.append('one-line windows: the sub-cube alone is detected as a 2D line, so only the semantic oracle applies to them')
shutil.rmtree(d, ignore_errors=True)
R.write(a.out)
