#!/usr/bin/env python3
"""Harness for C16 (writer pipeline): schedules of the producer / compressor / writer threads, forced on the real code.

A cooperative scheduler is substituted for `Queue`, `Thread` and `zfpy` in seismic_zfp.conversion_utils and for `open` in
seismic_zfp.conversion: every participant thread parks BEFORE each queue / thread / file operation (thread start, put, get,
compress, task_done, join, write, flush) announcing the operation and whether it is enabled; a controller lets exactly one
enabled thread execute exactly one operation, chosen by the schedule.  So a schedule of the Coq model (a list of thread
choices) can be replayed verbatim on `NumpyConverter.run` / `SegyConverter.run` (3D and 2D).

(a) correspondence: schedules are enumerated from the GENERATED operation lists (tools/genx_pipeline.extract on the
    repository under test) by a mirrored interpreter: all of them when there are few, otherwise a transition cover of the
    state graph plus a uniform sample.  Each is replayed on the real code and evaluated in the Coq model
    (Model/Pipeline.v `observe`, through tools/coqeval.py) and the enabled-thread set before every step, the sequence of
    file writes and the final state are compared  -> viol('corr', ...).
(b) direct oracle (no model): under every explored schedule the conversion terminates (no deadlock, no exception), the
    bytes of the output file equal those of the strictly sequential execution (and of an ordinary run with real threads),
    and no daemon thread writes -- or is even able to move -- after run_conversion_loop has returned
    -> viol('oracle', ...).
--search (an obligation broke): bad states are searched exhaustively in the state graph of the (changed) generated programs
and the schedules that reach them are replayed first; then a larger random search.
"""
import os, sys, threading, types, itertools, builtins, hashlib, time, json
sys.path.insert(0, os.path.dirname(os.path.abspath(__file__)))
from common import *
a = parse_args()
from hz import *
import hz as _hz
_hz.DECOY[0] = False      # this harness records / schedules the writers' own file operations: no decoy history here
import seismic_zfp.conversion_utils as cu
import seismic_zfp.conversion as cv
import genx_pipeline
from coqeval import coq_eval, parse_value, CoqEvalError

R = Result('one case = (route, number of queue items n in 1..3, capacities in {1,2,16}, schedule, tail policy) replayed on the real '
           'converter under the cooperative scheduler; non-trivial = distinct (route, n, capacity, schedule); schedules: all '
           'complete schedules of the generated programs when they are few, else a transition cover of the state graph + a uniform '
           'sample; every replay is judged by the direct oracle and compared step by step with the Coq model')
rng = random.Random(a.seed + 1601)
NVIOL = {'oracle': 0, 'corr': 0}


def viol(kind, inp, detail):
    NVIOL[kind] = NVIOL.get(kind, 0) + 1
    R.count('violations/' + kind)
    R.violation(kind, inp, detail)


def enough():
    """--search: stop spending once failing inputs have been found"""
    return a.search and NVIOL['oracle'] >= 12

QUICK = a.tier == 'quick'
T_START = time.time()
TIME_BUDGET = (150 if QUICK else 780)
SRC = os.path.join(REPO, 'seismic_zfp')
TMP = scratch_dir()
import atexit, shutil
atexit.register(lambda: shutil.rmtree(TMP, ignore_errors=True))

# ===================================================================================== generated programs + mirror
try:
    PROGS = genx_pipeline.extract(SRC)
    GEN_TEXT = genx_pipeline.generate(SRC)['Pipeline']
except Exception as ex:      # fail closed: no model; the oracle still runs on random schedules
    PROGS, GEN_TEXT = None, None
    R.notes.append(f'generator failed on {SRC}: {ex!r}; model-free random search only')
if PROGS is not None and os.path.realpath(REPO) == '/repo':
    gp = os.path.join(os.path.dirname(os.path.abspath(__file__)), '..', '..', 'coq', 'Gen', 'Pipeline.v')
    if not os.path.exists(gp) or open(gp).read() != GEN_TEXT:
        R.notes.append('coq/Gen/Pipeline.v on disk differs from what the generator produces now (stale build?)')

TIDS = ('TM', 'TC', 'TW')
LETTER = {'TM': 'M', 'TC': 'C', 'TW': 'W'}
UNLETTER = {v: k for k, v in LETTER.items()}


class Mirror:
    """Python mirror of Model/Pipeline.v `step` (used ONLY to enumerate valid schedules; the comparison is against Coq).
    state = (next, qc_items, qc_unf, qw_items, qw_unf, (started, cur, reg) x 3, file)"""
    def __init__(self, progs, n, capc, capw):
        self.n, self.cap = n, {'Qc': capc, 'Qw': capw}
        self.loop = {'TM': (), 'TC': tuple(progs['compressor_loop']), 'TW': tuple(progs['writer_loop'])}
        fp = lambda pro, lp: tuple(pro) if pro else tuple(lp)
        self.init = (0, (), 0, (), 0,
                     (True, tuple(progs['main']), 'J'),
                     (False, fp(progs['compressor_pro'], progs['compressor_loop']), 'J'),
                     (False, fp(progs['writer_pro'], progs['writer_loop']), 'J'), ())

    def step(self, t, s):
        nxt, qci, qcu, qwi, qwu, tm, tc, tw, f = s
        th = {'TM': tm, 'TC': tc, 'TW': tw}
        q = {'Qc': [qci, qcu], 'Qw': [qwi, qwu]}
        started, cur, reg = th[t]
        if not started or not cur:
            return None
        o = cur[0]

        def adv(r):
            rest = cur[1:] if len(cur) >= 2 else self.loop[t]
            th[t] = (started, rest, r)
        k = o[0]
        if k == 'Start':
            adv(reg)
            st2, c2, r2 = th[o[1]]
            th[o[1]] = (True, c2, r2)
        elif k == 'Produce':
            if nxt < self.n:
                if len(q[o[1]][0]) >= self.cap[o[1]]:
                    return None
                q[o[1]][0] = q[o[1]][0] + (('R', nxt),)
                q[o[1]][1] += 1
                nxt += 1
                if nxt == self.n:
                    adv(reg)
            else:
                adv(reg)
        elif k == 'Get':
            if not q[o[1]][0]:
                return None
            x = q[o[1]][0][0]
            q[o[1]][0] = q[o[1]][0][1:]
            adv(x)
        elif k == 'Compress':
            adv(('C', reg[1]) if reg != 'J' and reg[0] == 'R' else reg)
        elif k == 'Put':
            if len(q[o[1]][0]) >= self.cap[o[1]]:
                return None
            q[o[1]][0] = q[o[1]][0] + (reg,)
            q[o[1]][1] += 1
            adv(reg)
        elif k == 'TaskDone':
            if q[o[1]][1] == 0:
                # ValueError: the thread dies and never runs again (empty cur)
                dead = list(s)
                idx = 5 + TIDS.index(t)
                dead[idx] = (started, (), reg)
                return tuple(dead)
            q[o[1]][1] -= 1
            adv(reg)
        elif k == 'Join':
            if q[o[1]][1] != 0:
                return None
            adv(reg)
        elif k == 'WriteHeader':
            f = f + (1,)
            adv(reg)
        elif k == 'WriteFile':
            f = f + (code_of(reg),)
            adv(reg)
        elif k == 'Flush':
            f = f + (2,)
            adv(reg)
        else:
            raise RuntimeError(o)
        return (nxt, q['Qc'][0], q['Qc'][1], q['Qw'][0], q['Qw'][1], th['TM'], th['TC'], th['TW'], f)

    def enabled(self, s):
        return [t for t in TIDS if self.step(t, s) is not None]

    @staticmethod
    def main_done(s):
        return not s[5][1]


def code_of(x):
    """event codes of Model/Pipeline.v item_code"""
    if x == 'J':
        return 3
    return (10 if x[0] == 'C' else 1000) + x[1]


def explore(M):
    """state graph up to the return of the calling thread: succ[s] = [(t, s')]; terminal: main done, or nothing enabled"""
    succ, order, todo = {}, [], [M.init]
    while todo:
        s = todo.pop()
        if s in succ:
            continue
        if M.main_done(s):
            succ[s] = []
        else:
            succ[s] = [(t, s2) for t in TIDS for s2 in [M.step(t, s)] if s2 is not None]
        order.append(s)
        for _, s2 in succ[s]:
            if s2 not in succ:
                todo.append(s2)
    return succ


def path_counts(succ, init):
    cnt = {}
    sys.setrecursionlimit(100000)

    def go(s):
        if s in cnt:
            return cnt[s]
        cnt[s] = 1 if not succ[s] else sum(go(s2) for _, s2 in succ[s])
        return cnt[s]
    go(init)
    return cnt


def all_paths(succ, init, limit):
    out = []

    def go(s, acc):
        if len(out) >= limit:
            return
        if not succ[s]:
            out.append(''.join(acc))
            return
        for t, s2 in succ[s]:
            acc.append(LETTER[t])
            go(s2, acc)
            acc.pop()
    go(init, [])
    return out


def sample_path(succ, cnt, init, rnd):
    s, acc = init, []
    while succ[s]:
        r = rnd.randrange(cnt[s])
        for t, s2 in succ[s]:
            if r < cnt[s2]:
                acc.append(LETTER[t])
                s = s2
                break
            r -= cnt[s2]
    return ''.join(acc)


def transition_cover(succ, cnt, init, rnd):
    """a set of complete schedules that together traverse every transition of the state graph"""
    parent = {init: None}
    bfs = [init]
    for s in bfs:
        for t, s2 in succ[s]:
            if s2 not in parent:
                parent[s2] = (s, t)
                bfs.append(s2)
    covered, out = set(), []

    def prefix(s):
        acc = []
        while parent[s] is not None:
            s, t = parent[s]
            acc.append((s, t))
        return acc[::-1]
    for s in bfs:
        for t, s2 in succ[s]:
            if (s, t) in covered:
                continue
            pre = prefix(s) + [(s, t)]
            # complete greedily through uncovered transitions, else by a counted random choice
            cur = s2
            while succ[cur]:
                unc = [(t3, s3) for t3, s3 in succ[cur] if (cur, t3) not in covered]
                t3, s3 = unc[0] if unc else succ[cur][rnd.randrange(len(succ[cur]))]
                pre.append((cur, t3))
                cur = s3
            covered.update(pre)
            out.append(''.join(LETTER[t] for _, t in pre))
    return out


def bad_terminals(M, succ, n):
    """terminal states of the changed programs that violate the property in the MODEL: deadlock, wrong file at return, or a
    thread still able to move after return; returns schedules reaching them (shortest first)"""
    want = (1,) + tuple(10 + k for k in range(n)) + (2,)
    parent = {M.init: None}
    bfs = [M.init]
    for s in bfs:
        for t, s2 in succ[s]:
            if s2 not in parent:
                parent[s2] = (s, t)
                bfs.append(s2)
    out = []
    for s in bfs:
        if succ[s]:
            continue
        why = None
        if not M.main_done(s):
            why = 'deadlock'
        elif s[8] != want:
            why = 'file at return differs from the sequential file'
        elif M.enabled(s):
            why = 'a thread can still move after return'
        if why:
            acc, c = [], s
            while parent[c] is not None:
                c, t = parent[c]
                acc.append(LETTER[t])
            out.append((''.join(acc[::-1]), why))
    return out


# ===================================================================================== cooperative scheduler
class Abort(BaseException):
    pass


class Sched:
    def __init__(self):
        self.cv = threading.Condition()
        self.parked = {}        # name -> (label, enabled predicate)
        self.active = 0         # participants currently running (not parked, not finished)
        self.grant = None
        self.finished = set()
        self.died = {}          # name -> exception of a worker
        self.abort = False
        self.log = []           # (thread, label) in execution order
        self.writes = []        # (thread, kind, bytes) in execution order
        self.main_exc = None
        self.nthreads = {}
        self.members = {'TM'}   # threads of THIS replay; a worker left over from an earlier (real-threaded) conversion that
                                # wakes up inside the substituted zfpy is not a participant

    def me(self):
        return threading.current_thread().name

    def op(self, label, enabled=lambda: True):
        me = self.me()
        if me not in self.members:
            raise Abort()
        with self.cv:
            self.parked[me] = (label, enabled)
            self.active -= 1
            self.cv.notify_all()
            while self.grant != me:
                if self.abort:
                    raise Abort()
                self.cv.wait()
            self.grant = None
            del self.parked[me]
            self.log.append((me, label))

    # ---- controller side
    def wait_idle(self, timeout=60):
        with self.cv:
            end = time.time() + timeout
            while self.active > 0:
                left = end - time.time()
                if left <= 0:
                    return False
                self.cv.wait(left)
            return True

    def enabled(self):
        with self.cv:
            return sorted(n for n, (_, p) in self.parked.items() if p())

    def go(self, name):
        with self.cv:
            self.active += 1
            self.grant = name
            self.cv.notify_all()

    def stop(self):
        with self.cv:
            self.abort = True
            self.cv.notify_all()

    def finish(self, name):
        with self.cv:
            self.finished.add(name)
            self.active -= 1
            self.cv.notify_all()


def make_patches(S, force_cap):
    class Q:
        def __init__(self, maxsize=0):
            self.maxsize = force_cap if force_cap else maxsize
            self.items, self.unfinished = [], 0
            S.caps_seen.append(self.maxsize)

        def put(self, x):
            S.op('put', lambda: self.maxsize <= 0 or len(self.items) < self.maxsize)
            self.items.append(x)
            self.unfinished += 1
            if getattr(S, 'split_put', False):
                S.op('handed')          # "put() has returned" as an event of its own: the consumer may run before the producer's next line

        def get(self):
            S.op('get', lambda: len(self.items) > 0)
            return self.items.pop(0)

        def task_done(self):
            S.op('task_done')
            if self.unfinished <= 0:
                raise ValueError('task_done() called too many times')
            self.unfinished -= 1

        def join(self):
            S.op('join', lambda: self.unfinished == 0)

    class T:
        def __init__(self, target=None, args=(), **kw):
            base = {'compressor': 'TC', 'writer': 'TW'}.get(getattr(target, '__name__', ''), 'TX')
            S.nthreads[base] = S.nthreads.get(base, 0) + 1
            self.name = base if S.nthreads[base] == 1 else f'{base}{S.nthreads[base]}'
            self.daemon = False
            self._target, self._args = target, args
            S.members.add(self.name)

        def _run(self):
            try:
                if getattr(S, 'late_begin', False):
                    S.op('begin')           # "thread start" is an event of its own: the body begins when the scheduler says so
                self._target(*self._args)
            except Abort:
                return
            except BaseException as e:      # a daemon thread that dies (e.g. ValueError from task_done)
                S.died[self.name] = repr(e)
            S.finish(self.name)

        def start(self):
            S.op('start')
            with S.cv:
                S.active += 1               # the child runs until it parks at its first operation
            th = threading.Thread(target=self._run, name=self.name, daemon=True)
            th.start()

    def compress_numpy(*args, **kw):
        S.op('compress')
        return zfpy.compress_numpy(*args, **kw)
    return Q, T, types.SimpleNamespace(compress_numpy=compress_numpy)


class YieldFile:
    def __init__(self, S, f):
        self.S, self.f, self.name = S, f, f.name

    def write(self, b):
        self.S.op('write')
        self.S.writes.append((self.S.me(), 'write', bytes(b)))
        return self.f.write(b)

    def flush(self):
        self.S.op('flush')
        self.S.writes.append((self.S.me(), 'flush', b''))
        return self.f.flush()

    def close(self):
        return self.f.close()

    def __enter__(self):
        return self

    def __exit__(self, *x):
        self.f.close()
        return False


BIT = {'TM': 1, 'TC': 2, 'TW': 4}


def replay(scn, cap, schedule, tail='D', max_tail=400, chooser=None, late_begin=False, split_put=False):
    """run scenario `scn` (a function out_path, cap -> None that calls a converter's run) under the scheduler.
    schedule: string over M/C/W for the run_conversion_loop phase (None: use chooser(enabled names) for every step).
    tail: after the schedule is exhausted, 'D' = daemon threads first, 'M' = calling thread first.
    returns a dict of observations"""
    if isinstance(schedule, str):
        schedule = [UNLETTER[c] for c in schedule]
    S = Sched()
    S.caps_seen = []
    S.late_begin = late_begin
    S.split_put = split_put
    force = scn.force_cap(cap)
    Q, T, Z = make_patches(S, force)
    out = os.path.join(TMP, 'out.sgz')
    if os.path.exists(out):
        os.remove(out)
    saved = (cu.Queue, cu.Thread, cu.zfpy, getattr(cv, 'open', None))

    def my_open(name, mode='r', *x, **k):
        f = builtins.open(name, mode, *x, **k)
        return YieldFile(S, f) if (mode == 'wb' and os.path.abspath(name) == os.path.abspath(out)) else f
    cu.Queue, cu.Thread, cu.zfpy, cv.open = Q, T, Z, my_open
    obs = {'masks': [], 'steps': 0, 'deadlock': False, 'hang': False, 'mismatch': None, 'exc': None, 'tail_daemon_steps': [],
           'late_writes': 0}

    def main():
        try:
            quiet(scn.run, out, cap)
        except Abort:
            return
        except BaseException as e:
            S.main_exc = repr(e)
        S.finish('TM')
    try:
        S.active = 1
        tm = threading.Thread(target=main, name='TM', daemon=True)
        tm.start()
        pos, tail_steps = 0, 0
        flushed_at = None
        while True:
            if not S.wait_idle():
                obs['hang'] = True
                break
            en = S.enabled()
            if late_begin:
                # started threads whose bodies have not begun: they begin only once the calling thread is past ALL its start()
                # calls (it is parked at something else, or has finished); until then they are not candidates
                with S.cv:
                    begins = sorted(n_ for n_, (lab_, _) in S.parked.items() if lab_ == 'begin')
                    tm_lab = S.parked.get('TM', (None, None))[0]
                if begins and (tm_lab != 'start' or 'TM' not in en):
                    S.go(begins[-1])            # the thread started LAST begins first
                    continue
                en = [t_ for t_ in en if t_ not in begins]
            if flushed_at is None and any(k == 'flush' for _, k, _ in S.writes):
                flushed_at = len(S.writes)
            in_sched = (schedule is not None and pos < len(schedule)) or (schedule is None and flushed_at is None and 'TM' not in S.finished)
            if in_sched:
                obs['masks'].append(sum(BIT.get(t, 8) for t in en))
                if not en:
                    obs['deadlock'] = True
                    break
                if schedule is not None:
                    t = schedule[pos]
                    if t not in en:
                        obs['mismatch'] = (pos, t, en)
                        break
                else:
                    t = chooser(en)
                    obs.setdefault('chosen', []).append(t)
                pos += 1
                obs['steps'] += 1
                S.go(t)
                continue
            # ---- tail: run_conversion_loop has returned (or the schedule is exhausted)
            if 'mask_end' not in obs:
                obs['mask_end'] = sum(BIT.get(t, 8) for t in en)
                obs['writes_at_end'] = len(S.writes)
                obs['main_done_at_end'] = flushed_at is not None
            daemons = [t for t in en if t != 'TM']
            if 'TM' in S.finished and not daemons:
                break
            if not en:
                if 'TM' not in S.finished:
                    obs['deadlock'] = True
                break
            tail_steps += 1
            if tail_steps > max_tail:
                obs['tail_unbounded'] = True
                break
            if daemons and (tail == 'D' or 'TM' not in en):
                t = daemons[0]
                if flushed_at is not None:
                    obs['tail_daemon_steps'].append((t, S.parked[t][0]))
            else:
                t = 'TM'
            S.go(t)
        S.wait_idle(5)
    finally:
        S.stop()
        cu.Queue, cu.Thread, cu.zfpy = saved[:3]
        if saved[3] is None:
            del cv.open
        else:
            cv.open = saved[3]
    obs['exc'] = S.main_exc
    obs['died'] = dict(S.died)
    obs['writes'] = S.writes
    obs['caps'] = S.caps_seen
    obs['finished'] = 'TM' in S.finished
    if flushed_at is not None:
        obs['late_writes'] = sum(1 for th, k, _ in S.writes[flushed_at:] if th != 'TM')
    try:
        obs['bytes'] = open(out, 'rb').read()
    except OSError:
        obs['bytes'] = None
    return obs


# ===================================================================================== scenarios (routes)
class Scenario:
    """one input: route + sizes; .run(out, cap) performs the conversion through the public converter"""
    def key(self):
        return (self.route, self.n, self.tag)


class NumpyScn(Scenario):
    route = 'numpy'

    def __init__(self, n, rnd):
        self.n = n
        n_il = max(2, 4 * n - rnd.choice([0, 1, 3]))      # the writers need at least two lines per axis (axis[1] - axis[0])
        self.shape = (n_il, rnd.choice([4, 5, 8]), rnd.choice([8, 9, 13]))
        self.data = rnd_cube(rnd, self.shape)
        # non-finite samples (a NaN and an infinity per plane set): the source hash covers the source's bytes, whoever gets to
        # a shared buffer first
        for k_ in range(0, n_il, 4):
            self.data[k_, rnd.randrange(self.shape[1]), rnd.randrange(self.shape[2])] = np.float32('nan')
            self.data[min(k_ + 1, n_il - 1), rnd.randrange(self.shape[1]), rnd.randrange(self.shape[2])] = np.float32('inf')
        self.tag = 'x'.join(map(str, self.shape))

    def force_cap(self, cap):
        return cap          # NumpyConverter.run does not expose queue_size: the substituted Queue imposes the capacity

    def run(self, out, cap):
        with NumpyConverter(self.data) as c:
            c.run(out, bits_per_voxel=4, blockshape=(4, 4, -1))

    def independent_data_section(self):
        """the data section composed sequentially from numpy + zfpy alone"""
        n_il, n_xl, ns = self.shape
        P = lambda v, m: -(-v // m) * m
        bs2 = 2048 // 4
        full = np.pad(self.data, ((0, P(n_il, 4) - n_il), (0, P(n_xl, 4) - n_xl), (0, P(ns, bs2) - ns)), 'edge')
        return b''.join(zfpy.compress_numpy(full[4 * k:4 * k + 4], rate=4, write_header=False) for k in range(self.n))


class SegyScn(Scenario):
    route = 'segy'

    def __init__(self, n, rnd):
        self.n = n
        n_il = max(2, 4 * n - rnd.choice([0, 1, 2]))
        self.shape = (n_il, rnd.choice([4, 6]), rnd.choice([8, 11]))
        self.data = rnd_cube(rnd, self.shape)
        self.tag = 'x'.join(map(str, self.shape))
        self.sgy = os.path.join(TMP, f'in3d_{n}_{self.tag}.sgy')
        mk_segy(self.sgy, self.data, np.arange(10, 10 + n_il), np.arange(20, 20 + self.shape[1]))

    def force_cap(self, cap):
        return None         # the capacity reaches Queue(maxsize=...) through check_memory (mem_limit below)

    def run(self, out, cap):
        with SegyConverter(self.sgy) as c:
            inline_set_bytes = 4 * self.shape[1] * self.shape[2] * 4
            c.mem_limit = 2 * cap * inline_set_bytes + (inline_set_bytes if cap < 16 else 10 ** 12)
            c.run(out, bits_per_voxel=4)


class SegyIrregScn(Scenario):
    """irregular (unstructured) SEG-Y through the inferred-geometry route; for n = 3 the MIDDLE plane set carries no trace at
    all (inlines 5..8 absent): every plane set is still one item through both queues, in order"""
    route = 'segy-irr'

    def __init__(self, n, rnd):
        self.n = n
        n_il, n_xl = 4 * n, rnd.choice([4, 5])
        self.shape = (n_il, n_xl, rnd.choice([8, 11]))
        self.data = rnd_cube(rnd, self.shape)
        present = np.ones((n_il, n_xl), dtype=bool)
        if n == 3:
            present[4:8, :] = False
        present[min(1, n_il - 1), n_xl - 2] = False          # one more hole: segyio must see an unstructured file
        self.tag = 'x'.join(map(str, self.shape)) + ('-gap' if n == 3 else '')
        self.sgy = os.path.join(TMP, f'inirr_{n}_{self.tag}.sgy')
        mk_segy(self.sgy, self.data, np.arange(1, 1 + n_il), np.arange(20, 20 + n_xl), present=present)

    def force_cap(self, cap):
        return None

    def run(self, out, cap):
        with SegyConverter(self.sgy) as c:
            inline_set_bytes = 4 * self.shape[1] * self.shape[2] * 4
            c.mem_limit = 2 * cap * inline_set_bytes + (inline_set_bytes if cap < 16 else 10 ** 12)
            c.run(out, bits_per_voxel=4)


class Segy2dScn(Scenario):
    route = 'segy2d'

    def __init__(self, n, rnd):
        self.n = n
        nt = max(2, 16 * n - rnd.choice([0, 1, 9]))
        self.shape = (nt, rnd.choice([8, 13]))
        self.data = rnd_cube(rnd, self.shape)
        self.tag = 'x'.join(map(str, self.shape))
        self.sgy = os.path.join(TMP, f'in2d_{n}_{self.tag}.sgy')
        mk_segy_2d(self.sgy, self.data)

    def force_cap(self, cap):
        return None

    def run(self, out, cap):
        with SegyConverter(self.sgy) as c:
            inline_set_bytes = self.shape[0] * self.shape[1] * 4
            c.mem_limit = 2 * cap * inline_set_bytes + (inline_set_bytes if cap < 16 else 10 ** 12)
            c.run(out, bits_per_voxel=4)


class Segy2dB4Scn(Segy2dScn):
    """2D route with blockshape (1, 4, N): the trace-group buffer itself is queued (no per-block copies), so a producer that
    runs ahead of the compressor must not touch a buffer that is still in the queue"""
    route = 'segy2d-b4'

    def __init__(self, n, rnd):
        self.n = n
        nt = max(2, 4 * n - rnd.choice([0, 1, 2]))
        self.shape = (nt, rnd.choice([8, 13]))
        self.data = rnd_cube(rnd, self.shape)
        self.tag = 'x'.join(map(str, self.shape))
        self.sgy = os.path.join(TMP, f'in2db4_{n}_{self.tag}.sgy')
        mk_segy_2d(self.sgy, self.data)

    def run(self, out, cap):
        with SegyConverter(self.sgy) as c:
            inline_set_bytes = self.shape[0] * self.shape[1] * 4
            c.mem_limit = 2 * cap * inline_set_bytes + (inline_set_bytes if cap < 16 else 10 ** 12)
            c.run(out, bits_per_voxel=4, blockshape=(1, 4, -1))


def real_threads_bytes(scn, cap):
    """ordinary run: real queue.Queue and threading.Thread, whatever interleaving the OS chooses"""
    out = os.path.join(TMP, 'plain.sgz')
    saved = cu.Queue
    force = scn.force_cap(cap)
    if force:
        import queue
        cu.Queue = lambda maxsize=0: queue.Queue(maxsize=force)
    try:
        quiet(scn.run, out, cap)
    finally:
        cu.Queue = saved
    return open(out, 'rb').read()


def sched_text(names):
    """schedule as a string over M/C/W when only the three modelled threads occur, else the list of thread names"""
    return ''.join(LETTER[t] for t in names) if all(t in LETTER for t in names) else list(names)


def sequential_chooser(en):
    for t in ('TW', 'TC', 'TM'):
        if t in en:
            return t
    return en[0]


def write_codes(writes, ref):
    """file events of a replay as the model's event codes: 1 header, 10+k compressed block k, 2 flush, 3 anything else"""
    out = []
    for th, kind, b in writes:
        if kind == 'flush':
            out.append(2)
        elif b == ref['header']:
            out.append(1)
        elif b in ref['blocks']:
            out.append(10 + ref['blocks'].index(b))
        else:
            out.append(3)
    return out


# ===================================================================================== Coq side
def coq_progs_term(progs):
    L = genx_pipeline.coq_list
    return ('{| p_main := %s; p_cpro := %s; p_cloop := %s; p_wpro := %s; p_wloop := %s |}'
            % (L(progs['main']), L(progs['compressor_pro']), L(progs['compressor_loop']), L(progs['writer_pro']), L(progs['writer_loop'])))


def coq_observe(progs, jobs):
    """jobs: list of (n, capc, capw, schedule string) -> list of (masks, steps, main_done, mask_end, file codes)"""
    P = coq_progs_term(progs)
    terms = []
    for n, cc, cw, sch in jobs:
        lst = '[' + '; '.join(UNLETTER[c] for c in sch) + ']'
        terms.append(f'observe {lst} (init PR {n} {cc} {cw}) [] 0')
    vals = coq_eval(['SZ.Model.Pipeline'], terms, preamble=f'Close Scope Z_scope.\nOpen Scope nat_scope.\nDefinition PR : progs := {P}.')
    out = []
    for v in vals:
        p = parse_value(v)
        out.append((list(p[0]), p[1], p[2], p[3], list(p[4])))
    return out


# ===================================================================================== the check
def judge(scn, cap, sch, tail, obs, ref, expect_model=None):
    """direct oracle on one replay; returns True if a violation was recorded"""
    inp = {'route': scn.route, 'n': scn.n, 'shape': scn.tag, 'capacity': cap, 'schedule': sch if sch is not None else sched_text(obs.get('chosen', [])),
           'tail': tail, 'seed': a.seed}
    bad = []
    if obs['hang']:
        bad.append('the conversion hangs (no participant parks within 60 s)')
    if obs['deadlock']:
        bad.append(f'deadlock after {obs["steps"]} steps: no thread can move and the conversion has not returned')
    if obs['exc']:
        bad.append(f'the conversion raised {obs["exc"]}')
    if obs.get('tail_unbounded'):
        bad.append('daemon threads keep running after the call returned')
    if obs['late_writes']:
        bad.append(f'{obs["late_writes"]} write(s) by a daemon thread after run_conversion_loop returned')
    if not bad and obs['bytes'] != ref['bytes']:
        nb = len(obs['bytes']) if obs['bytes'] is not None else None
        bad.append(f'output file differs from the sequential execution ({nb} bytes vs {len(ref["bytes"])}; '
                   f'write sequence {write_codes(obs["writes"], ref)})')
    if bad:
        viol('oracle', inp, '; '.join(bad))
        return True
    return False


def reference(scn, cap):
    """the strictly sequential execution (each item travels to the file before the next is produced)"""
    obs = replay(scn, cap, None, tail='M', chooser=sequential_chooser)
    ws = [w for w in obs['writes']]
    ref = {'bytes': obs['bytes'], 'schedule': sched_text(obs.get('chosen', [])), 'obs': obs}
    wr = [b for th, k, b in ws if k == 'write' and th == 'TW']
    ref['header'] = wr[0] if wr else None
    ref['blocks'] = wr[1:]
    return ref


def run_config(scn, cap, schedules, use_model, stats):
    ref = reference(scn, cap)
    inp0 = {'route': scn.route, 'n': scn.n, 'shape': scn.tag, 'capacity': cap, 'seed': a.seed}
    ro = ref['obs']
    if ro['exc'] or ro['deadlock'] or ro['hang'] or not ro['finished']:
        viol('oracle', dict(inp0, schedule=ref['schedule']), f'the sequential schedule does not complete: exc={ro["exc"]} deadlock={ro["deadlock"]}')
        return
    plain = real_threads_bytes(scn, cap)
    if plain != ref['bytes']:
        viol('oracle', dict(inp0, schedule=ref['schedule']), 'sequential execution under the scheduler and an ordinary threaded run produce different files')
    if scn.route == 'numpy':
        ds = scn.independent_data_section()
        if ref['bytes'][8192:8192 + len(ds)] != ds or b''.join(ref['blocks']) != ds:
            viol('oracle', dict(inp0, schedule=ref['schedule']), 'data section of the sequential execution is not the concatenation of the compressed plane sets')
    if len(ref['blocks']) != scn.n:
        R.notes.append(f'{scn.route} {scn.tag}: expected {scn.n} queue items, the sequential run wrote {len(ref["blocks"])}')
    capq = cap
    if ro['caps'] and any(c != cap for c in ro['caps']):
        viol('corr', inp0, f'queues were created with capacities {ro["caps"]}, expected {cap}')
    results = []
    for sch in schedules:
        if time.time() - T_START > TIME_BUDGET:
            stats['cut'] = True
            break
        if enough():
            break
        tail = 'D' if (len(results) % 2 == 0) else 'M'
        obs = replay(scn, cap, sch, tail=tail)
        judge(scn, cap, sch, tail, obs, ref)
        results.append((sch, tail, obs))
        R.case((scn.route, scn.n, cap, sch), nontrivial=True,
               sample={'route': scn.route, 'shape': scn.tag, 'capacity': cap, 'schedule': sch, 'writes': write_codes(obs['writes'], ref)})
        R.count(f'{scn.route}/n{scn.n}/cap{cap}')
    if use_model and results:
        try:
            model = coq_observe(PROGS, [(scn.n, cap, cap, sch) for sch, _, _ in results])
        except CoqEvalError as ex:
            viol('corr', inp0, 'the Coq model could not be evaluated: ' + str(ex)[-400:])
            return
        for (sch, tail, obs), (masks, steps, done, mask_end, fcodes) in zip(results, model):
            inp = dict(inp0, schedule=sch, tail=tail)
            got_codes = write_codes(obs['writes'][:obs.get('writes_at_end', len(obs['writes']))], ref)
            diffs = []
            if obs['mismatch']:
                diffs.append(f'step {obs["mismatch"][0]}: the model schedules {obs["mismatch"][1]} but on the real code only {obs["mismatch"][2]} can move')
            if obs['masks'][:len(masks)] != masks[:len(obs['masks'])] or obs['steps'] != steps:
                diffs.append(f'enabled-thread sets differ: model {masks} ({steps} steps), real {obs["masks"]} ({obs["steps"]} steps)')
            if not diffs:
                if got_codes != fcodes:
                    diffs.append(f'file writes differ: model {fcodes}, real {got_codes}')
                if (obs.get('mask_end', 0) & ~1) != (mask_end & ~1) or (not done and (obs.get('mask_end', 0) & 1) != (mask_end & 1)):
                    diffs.append(f'threads able to move at the end: model mask {mask_end}, real {obs.get("mask_end")}')
                if bool(obs.get('main_done_at_end')) != bool(done):
                    diffs.append(f'returned: model {done}, real {obs.get("main_done_at_end")}')
            if diffs:
                viol('corr', inp, '; '.join(diffs))
            stats['model_checked'] = stats.get('model_checked', 0) + 1


def schedules_for(progs, n, cap, budget, search):
    M = Mirror(progs, n, cap, cap)
    succ = explore(M)
    cnt = path_counts(succ, M.init)
    total = cnt[M.init]
    out, seen = [], set()

    def add(s):
        if s not in seen:
            seen.add(s)
            out.append(s)
    bad = bad_terminals(M, succ, n)
    if bad:
        bad.sort(key=lambda x: len(x[0]))
        for s, why in bad[:max(10, budget // 4)]:
            add(s)
    if total <= budget:
        for s in all_paths(succ, M.init, budget):
            add(s)
        mode = 'all'
    else:
        cover = transition_cover(succ, cnt, M.init, rng)
        rng.shuffle(cover)
        for s in cover[:max(budget * 2 // 3, 1)]:
            add(s)
        k = 0
        while len(out) < budget and k < 10 * budget:
            add(sample_path(succ, cnt, M.init, rng))
            k += 1
        mode = f'cover({len(cover)})+sample'
    return out[:max(budget, len(bad[:10]))], {'states': len(succ), 'schedules_total': total, 'mode': mode, 'bad_terminals_in_model': len(bad),
                                               'bad_example': bad[0] if bad else None}


def random_search(scn, cap, tries, stats, late_begin=False, split_put=False):
    """model-free: random schedules judged by the oracle only"""
    ref = reference(scn, cap)
    if ref['obs']['exc'] or ref['obs']['deadlock'] or not ref['obs']['finished']:
        viol('oracle', {'route': scn.route, 'n': scn.n, 'shape': scn.tag, 'capacity': cap, 'schedule': ref['schedule'], 'seed': a.seed},
                    f'the sequential schedule does not complete: exc={ref["obs"]["exc"]} deadlock={ref["obs"]["deadlock"]}')
        return
    for i in range(tries):
        if time.time() - T_START > TIME_BUDGET:
            stats['cut'] = True
            break
        if enough():
            break
        r = random.Random(rng.randrange(2 ** 31))
        bias = r.choice([None, 'TM', 'TC', 'TW'])

        def chooser(en):
            if bias in en and r.random() < 0.6:
                return bias
            return r.choice(en)
        tail = 'D' if i % 2 == 0 else 'M'
        obs = replay(scn, cap, None, tail=tail, chooser=chooser, late_begin=late_begin, split_put=split_put)
        judge(scn, cap, None, tail + (', thread bodies begin after every start() call' if late_begin else '')
              + (', the return of every put() is a scheduling point' if split_put else ''), obs, ref)
        R.case((scn.route, scn.n, cap, late_begin, split_put, str(sched_text(obs.get('chosen', [])))), nontrivial=True)
        R.count(f'random{"-late-begin" if late_begin else ""}{"-split-put" if split_put else ""}/{scn.route}/n{scn.n}/cap{cap}')


def main():
    stats = {}
    if a.replay:
        rp = json.load(open(a.replay))
        inp = rp.get('input', {})
    routes = {'numpy': NumpyScn, 'segy': SegyScn, 'segy2d': Segy2dScn, 'segy2d-b4': Segy2dB4Scn, 'segy-irr': SegyIrregScn}
    scns = {}
    for n in (1, 2, 3):
        for rname, cls in routes.items():
            scns[(rname, n)] = cls(n, rng)
    if a.replay and inp.get('route'):
        # re-execute one recorded input (same seed -> same data)
        scn = scns[(inp['route'], inp['n'])]
        ref = reference(scn, inp['capacity'])
        lb = 'begin after' in str(inp.get('tail', ''))
        obs = replay(scn, inp['capacity'], inp.get('schedule') or None, tail=str(inp.get('tail', 'D'))[:1],
                     chooser=sequential_chooser, late_begin=lb, split_put='return of every put()' in str(inp.get('tail', '')))
        judge(scn, inp['capacity'], inp.get('schedule'), inp.get('tail', 'D'), obs, ref)
        R.case(('replay',), nontrivial=True)
        R.write(a.out)
        return
    use_model = PROGS is not None and not a.no_model
    mult = (1 if QUICK else 12) * (3 if a.search else 1)
    # budgets: schedules per (route, n, capacity)
    plan = []
    for n in (1, 2, 3):
        for cap in (1, 2, 16):
            for rname in routes:
                base = {1: 60, 2: 45, 3: 40}[n]
                if cap == 16:
                    base = base // 2
                if rname != 'numpy':
                    base = base // 2
                plan.append((rname, n, cap, max(6, base * mult)))
    if PROGS is not None:
        info_seen = {}
        # in --search mode look at the configurations whose MODEL has bad terminal states first
        for rname, n, cap, budget in plan:
            if time.time() - T_START > TIME_BUDGET:
                stats['cut'] = True
                break
            if enough() and NVIOL['oracle'] >= 12 and len(info_seen) >= 3:
                break
            scheds, info = schedules_for(PROGS, n, cap, budget, a.search)
            if (n, cap) not in info_seen:
                info_seen[(n, cap)] = info
                R.notes.append(f'n={n} cap={cap}: {info["states"]} states, {info["schedules_total"]} complete schedules, {info["mode"]}, '
                               f'bad terminal states in the model: {info["bad_terminals_in_model"]}'
                               + (f' e.g. {info["bad_example"]}' if info['bad_example'] else ''))
            run_config(scns[(rname, n)], cap, scheds, use_model, stats)
    # "thread start" as an event of its own: every started thread's body begins only after the calling thread is past all its
    # start() calls (the thread started last begins first), then random schedules; judged by the oracle only
    for rname in routes:
        for cap in (1, 2):
            if time.time() - T_START > TIME_BUDGET + 20:
                break
            random_search(scns[(rname, 2)], cap, 2 if QUICK else 10, stats, late_begin=True)
    # "put() has returned" as an event of its own (the consumer may deal with the item before the producer executes its next
    # line), random schedules; judged by the oracle only
    for rname in routes:
        for n_, cap in ((3, 2), (2, 16)):
            if time.time() - T_START > TIME_BUDGET + 30:
                break
            random_search(scns[(rname, n_)], cap, 4 if QUICK else 16, stats, split_put=True)
    if PROGS is None or a.search:
        # (the configurations with the most items first: most reorderings need at least three; small capacities first)
        for rname, n, cap, budget in sorted(plan, key=lambda t_: (-t_[1], t_[2])):
            if cap == 16 and n < 3:
                continue
            if enough():
                break
            random_search(scns[(rname, n)], cap, max(10, budget // 2) * (2 if PROGS is None else 1), stats)
    R.notes.append(f'replays compared with the Coq model: {stats.get("model_checked", 0)}' + ('; time budget reached, remaining configurations cut short' if stats.get('cut') else ''))
    R.write(a.out)


try:
    main()
except Exception as ex:
    import traceback
    traceback.print_exc()
    raise
