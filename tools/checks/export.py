#!/usr/bin/env python3
"""Harness for C06 (SEG-Y export round trip).

Per generated case (a SEG-Y source -> SGZ -> exported SEG-Y):
  * direct ORACLE (specification decoder tools/hz.py SpecFile, segyio, numpy only -- never the Coq model):
    first 3600 bytes identical to the source's, file size, segyio.open(exported) vs segyio.open(original): trace
    count, sample axis, format, (regular files) ilines / xlines / offsets / sorting; every trace header equal (as
    dictionaries AND as raw 240 bytes); every sample equal to the value decoded from the SGZ (SpecFile, and
    SgzReader) bit-exactly for IEEE sources and within relative 2^-20 for IBM sources (the numeric clause: an
    assumption about segyio validated here on every sample); trace order (cells of the source, in source order)
  * CORRESPONDENCE with the Coq model (Model/Export.v `demo_plan`, evaluated by tools/coqeval.py on the same
    inputs): kind of spec handed to segyio.create and the number of traces segyio accepts (segyio.create is
    wrapped to record the spec), format code, number of traces, the bytes of the header region that differ from
    the stored header, where segyio looks for trace 0, and per trace: byte offset of the header (= regenerated
    header, parsed from the raw bytes), byte offset of the samples and the grid cell they come from
  * known finding D34 (sources announcing extended textual headers): classified by the guard ext_headers == 0.
"""
import os, sys, struct
sys.path.insert(0, os.path.dirname(os.path.abspath(__file__)))
from common import *
a = parse_args()
from hz import *
from coqeval import coq_eval, parse_value, zlist, zlit
import segyio as _segyio
from click.testing import CliRunner
from segyio.create import structured as _segy_structured
from seismic_zfp.cli import cli as sz_cli

R = Result('one case = one SEG-Y source (format IEEE/IBM; 3D regular with ascending/descending/non-unit axes, irregular with a '
           'present-mask, or 2D; negative/positive start time; header content variant; binary-header content variant) x one '
           'compression setting x API or CLI, exported and compared trace by trace; non-trivial = distinct (kind, format, dims, '
           'axes, t0, mask, header variant, rate, blockshape, route) with at least 2 traces and 2 samples')
rng = random.Random(a.seed + 606)
D34 = 'D34-export-extended-text-headers'
KEYS = sorted(int(k) for k in _segyio.TraceField.enums() if int(k) > 0)
WIDTH = {k: (KEYS[i + 1] - k if i + 1 < len(KEYS) else 241 - k) for i, k in enumerate(KEYS)}
assert all(w in (2, 4) for w in WIDTH.values()) and sum(WIDTH.values()) == 240, WIDTH
TF = _segyio.TraceField
# the fields segyio can read back (all but the two unassigned words at 233 and 237)
READABLE = sorted(int(k) for k in _segyio.segy.Field(bytearray(240), kind='trace'))
# fields the generators own (geometry, sample description); never randomised
RESERVED = {int(TF.INLINE_3D), int(TF.CROSSLINE_3D), int(TF.TRACE_SAMPLE_INTERVAL), int(TF.TRACE_SAMPLE_COUNT),
            int(TF.DelayRecordingTime), int(TF.offset),
            # segyio scales the delay by this field when it derives the sample axis (D35 cases set it explicitly)
            int(TF.ScalarTraceHeader),
            # bytes 233-240 ("unassigned"): segyio writes them but always reads 0, so no reader can observe them
            233, 237}
D35 = 'D35-export-delay-scaled-by-trace-scalar'

# ---------------------------------------------------------------- segyio.create wrapper: record the spec
_created = []
_real_create = _segyio.create


def _recording_create(filename, spec):
    rec = {'structured': bool(_segy_structured(spec)), 'format': int(spec.format),
           'ns': len(np.asarray(spec.samples)), 'samples': np.asarray(spec.samples, dtype=float).copy()}
    if rec['structured']:
        rec['cap'] = len(spec.ilines) * len(spec.xlines) * len(spec.offsets)
        rec['ilines'], rec['xlines'] = [int(v) for v in spec.ilines], [int(v) for v in spec.xlines]
        rec['sorting'] = getattr(spec, 'sorting', None)
    else:
        rec['cap'] = int(spec.tracecount)
    _created.append(rec)
    return _real_create(filename, spec)


_segyio.create = _recording_create

COMP_3D = [(4, None), (1, None), (2, None), (8, None), (16, None), (0.5, None), (4, (8, 8, -1)), (2, (16, 16, -1)),
           (2, (64, 64, 4)), (8, (4, 8, -1)), (4, (4, 4, 512)), (4, (16, 16, 32)), (8, (32, 32, -1)), (4, (4, 16, -1))]
COMP_2D = [(4, None), (1, None), (2, None), (8, None), (16, None), (4, (1, 4, -1)), (4, (1, 64, -1)), (8, (1, 16, 256)),
           (2, (1, 256, -1))]
SPECIALS = [0.0, -0.0, 1.0, -1.0, 0.5, 3.0e30, -2.5e-30, 16777216.0, 1.0000001, 6.1e-5, 65504.0, -123456.789]


def gen_case(k, quick):
    """a case is a plain dict of parameters (replayable)"""
    r = random.Random((a.seed, k).__hash__() & 0x7fffffff)
    kind = ['regular', 'irregular', '2d'][k % 3] if k < 30 else r.choice(['regular', 'regular', 'irregular', '2d'])
    c = {'k': k, 'kind': kind, 'fmt': [5, 1][(k // 3) % 2] if k < 30 else r.choice([5, 1]),
         'via': 'cli' if k % 5 == 4 else 'api', 'dseed': r.randrange(2 ** 31)}
    big = (not quick) and r.random() < 0.15
    c['ns'] = r.choice([2, 3, 5, 8, 9, 16, 17, 31, 64, 65]) if not big else r.choice([257, 513, 1025])
    c['dt_us'] = r.choice([4000, 2000, 1000, 500, 3000, 250, 8000, 1001, 4004, 2002])
    c['t0'] = r.choice([0, 0, 100, -8, -200, 1500, 32, -1, 7])
    if kind == '2d':
        c['nt'] = r.choice([2, 3, 4, 5, 15, 16, 17, 21, 33, 64, 65]) if not big else r.choice([130, 257])
        c['bpv'], c['bs'] = r.choice(COMP_2D)
    else:
        c['n_il'] = r.choice([2, 3, 4, 5, 7, 8, 9, 13]) if not big else r.choice([17, 33, 65])
        c['n_xl'] = r.choice([2, 3, 4, 5, 6, 8, 9, 11, 16, 17]) if not big else r.choice([19, 32, 66])
        c['il0'], c['xl0'] = r.choice([1, 10, 1000, 77, 5]), r.choice([1, 20, 300, 2, 999])
        c['il_step'], c['xl_step'] = r.choice([1, 2, 3, 7, -1, -2, -5]), r.choice([1, 2, 4, 5, -1, -3])
        if kind == 'irregular':
            c['il_step'], c['xl_step'] = abs(c['il_step']), abs(c['xl_step'])
            c['il0'], c['xl0'] = max(c['il0'], 1), max(c['xl0'], 1)
            c['n_il'], c['n_xl'] = max(c['n_il'], 3), max(c['n_xl'], 3)
            c['mseed'] = r.randrange(2 ** 31)
        c['bpv'], c['bs'] = r.choice(COMP_3D)
    c['hv'] = r.choice(['default', 'random', 'constant', 'extreme', 'duplicate', 'default'])
    c['bin'] = r.choice(['plain', 'plain', 'fold256', 'fold4660', 'text', 'many', 'interval0'])
    c['ext'] = 0
    c['vary_delay'] = False
    c['scalar'] = r.choice([0, 0, 0, 1, -1, 0])   # ScalarTraceHeader (215); other values: the D35 cases
    if c['via'] == 'cli':
        c['hv'] = 'default' if c['hv'] == 'random' else c['hv']   # the CLI has no header_detection option
        if c['bs'] is not None and -1 in c['bs']:
            c['bs'] = None
    return c


def irregular_mask(c, attempt=0):
    r = random.Random(c['mseed'] + 7919 * attempt)
    n_il, n_xl = c['n_il'], c['n_xl']
    for _ in range(100):
        m = np.array([[r.random() < 0.7 for _ in range(n_xl)] for _ in range(n_il)])
        # first and last cell populated: the default (heuristic) header detection compares the first and the last trace
        # only, so a field that happens to agree on those two is stored as a constant (documented limitation, C04)
        m[0, 0] = m[-1, -1] = True
        # every line of the grid is hit (so the grid derived by the writer is this grid); the inlines do not all have
        # the same number of traces (otherwise segyio itself reads the source as a regular file)
        if m.any(axis=1).all() and m.any(axis=0).all() and not m.all() and len(set(m.sum(axis=1))) > 1:
            return m
    m = np.ones((n_il, n_xl), bool)
    m[0, 1] = False
    return m


def hdr_fun(c, ntr):
    hv = c['hv']
    r = random.Random(c['dseed'] + 17)
    free = [k for k in KEYS if k not in RESERVED]
    lim = lambda k: (-2 ** 15, 2 ** 15 - 1) if WIDTH[k] == 2 else (-2 ** 31, 2 ** 31 - 1)
    if hv == 'default':
        return None
    if hv == 'random':
        fields = r.sample(free, r.choice([3, 8, 20]))
        tab = {k: [r.randint(*lim(k)) for _ in range(ntr)] for k in fields}
    elif hv == 'constant':
        fields = r.sample(free, 12)
        tab = {k: [r.randint(*lim(k))] * ntr for k in fields}
    elif hv == 'extreme':
        fields = r.sample(free, 6)
        tab = {k: [lim(k)[t % 2] if t < ntr - 1 else lim(k)[1] for t in range(ntr)] for k in fields}
        tab[fields[0]] = [lim(fields[0])[1] - t for t in range(ntr)]
    else:   # duplicate: several fields carry the same varying values
        fields = r.sample([k for k in free if WIDTH[k] == 4], 4)
        base = [r.randint(-10 ** 6, 10 ** 6) for _ in range(ntr)]
        tab = {k: base for k in fields}
        # first and last differ so that the heuristic detection sees the variation
        if base[0] == base[-1]:
            base[-1] += 1
    return lambda t, *_: {k: v[t] for k, v in tab.items()}


def build_source(c, d):
    """write the source SEG-Y; returns (path, cells): cells[i] = grid cell (or line position) of source trace i"""
    g = random.Random(c['dseed'])
    sgy = os.path.join(d, f"s{c['k']}.sgy")
    if c['kind'] == '2d':
        data = rnd_cube(g, (c['nt'], c['ns']))
        ntr = c['nt']
    else:
        data = rnd_cube(g, (c['n_il'], c['n_xl'], c['ns']))
        ntr = c['n_il'] * c['n_xl']
    flat = data.reshape(-1)
    for s in SPECIALS:
        flat[g.randrange(flat.size)] = np.float32(s)
    def with_extras(base):
        if not c['vary_delay'] and not c.get('scalar'):
            return base
        def h(t, *_):
            out = dict(base(t)) if base else {}
            if c['vary_delay']:
                out[int(TF.DelayRecordingTime)] = c['t0'] + (t % 3)
            if c.get('scalar'):
                out[int(TF.ScalarTraceHeader)] = c['scalar']
            return out
        return h
    if c['kind'] == '2d':
        hf = with_extras(hdr_fun(c, ntr))
        mk_segy_2d(sgy, data, dt_us=c['dt_us'], t0=c['t0'], fmt=c['fmt'], hdr=hf)
        cells = list(range(ntr))
        present = None
    else:
        il = c['il0'] + np.arange(c['n_il']) * c['il_step']
        xl = c['xl0'] + np.arange(c['n_xl']) * c['xl_step']
        for attempt in range(50):
            present = irregular_mask(c, attempt) if c['kind'] == 'irregular' else None
            ntr = int(present.sum()) if present is not None else ntr
            hf = with_extras(hdr_fun(c, ntr))
            idx = mk_segy(sgy, data, il, xl, dt_us=c['dt_us'], t0=c['t0'], fmt=c['fmt'], present=present, hdr=hf,
                          ext_text=c['ext'])
            if present is None:
                break
            # the source must be irregular FOR SEGYIO: its geometry inference only counts traces (first inline x number
            # of inlines), so some masks are read as a regular cube with a wrong crossline axis; those are not
            # irregular sources in the sense of the property (the "original geometry" would already be wrong)
            try:
                with _segyio.open(sgy) as probe:
                    regular_for_segyio = True
            except Exception:
                regular_for_segyio = False
            if not regular_for_segyio:
                break
        else:
            raise RuntimeError('no irregular mask found')
        cells = [i * c['n_xl'] + x for i, x in idx]
    # binary / textual header content
    b = c['bin']
    if b != 'plain':
        with _segyio.open(sgy, 'r+', ignore_geometry=True) as f:
            if b == 'fold256':
                f.bin[_segyio.BinField.EnsembleFold] = 256
            elif b == 'fold4660':
                f.bin[_segyio.BinField.EnsembleFold] = 0x1234
            elif b == 'interval0':
                f.bin[_segyio.BinField.Interval] = 0       # the interval is carried by the trace headers only (valid SEG-Y)
            elif b == 'text':
                f.text[0] = ('C01 ' + ''.join(g.choice('ABCDEFGHIJKLMNOPQRSTUVWXYZ 0123456789.-') for _ in range(3100))).ljust(3200)[:3200]
            elif b == 'many':
                for fld, v in ((_segyio.BinField.JobID, 123456789), (_segyio.BinField.LineNumber, -7), (_segyio.BinField.ReelNumber, 99),
                               (_segyio.BinField.EnsembleFold, 513), (_segyio.BinField.SortingCode, 4), (_segyio.BinField.MeasurementSystem, 2),
                               (_segyio.BinField.SEGYRevision, 256), (_segyio.BinField.TraceFlag, 1), (_segyio.BinField.AuxTraces, 300)):
                    f.bin[fld] = v
    return sgy, data, cells, present


_HIST = {}


def convert_and_export(c, sgy, d):
    sgz = os.path.join(d, f"z{c['k']}.sgz")
    bs = tuple(c['bs']) if c['bs'] is not None else None      # a replayed case comes back from JSON with a list
    out = os.path.join(d, f"o{c['k']}.sgy")
    if c['via'] == 'cli':
        run = CliRunner()
        args = ['sgy2sgz', sgy, sgz, '--bits-per-voxel', str(int(c['bpv'])) if c['bpv'] >= 1 else str(-int(round(1 / c['bpv'])))]
        if bs is not None:
            args += ['--blockshape'] + [str(v) for v in bs]
        r1 = quiet(run.invoke, sz_cli, args)
        if r1.exit_code != 0:
            raise RuntimeError(f'cli sgy2sgz failed: {r1.exception!r}')
        del _created[:]
        r2 = quiet(run.invoke, sz_cli, ['sgz2sgy', sgz, out])
        if r2.exit_code != 0:
            raise RuntimeError(f'cli sgz2sgy failed: {r2.exception!r}')
    else:
        hd = 'exhaustive' if c['hv'] in ('random', 'extreme') or c['vary_delay'] else 'heuristic'
        write_segy_sgz(sgy, sgz, bpv=c['bpv'], blockshape=bs, header_detection=hd)
        if c.get('adv'):
            # the export of the RE-BLOCKED file (2-bit default layout -> 64x64x4): same traces, same headers
            sgz2 = sgz[:-4] + '_adv.sgz'
            with SgzConverter(sgz) as cv0:
                quiet(cv0.convert_to_adv_sgz, sgz2)
            sgz = sgz2
        del _created[:]
        with SgzConverter(sgz) as conv:
            # what the same object served before must not matter (D46/D47): a tracefield grid (leaves the header memo in
            # the padded mode on irregular files), a regenerated header, or an earlier export of the same file
            # the history is dealt round-robin PER KIND of file, starting with "every grid" (4), so that irregular, 2D and regular
            # files each meet every history within the first five cases of their kind
            hist = _HIST[c['kind']] = (_HIST.get(c['kind'], 3) + 1) % 5
            if hist == 1 and conv.stored_header_keys:
                conv.get_tracefield_values(conv.stored_header_keys[-1])
            elif hist == 4:
                # EVERY stored array loaded in the padded mode (a user looking at all header grids), then the export, which needs
                # them unpadded
                for k_ in list(conv.stored_header_keys):
                    conv.get_tracefield_values(k_)
            elif hist == 2:
                conv.gen_trace_header(conv.tracecount - 1)
            elif hist == 3:
                quiet(conv.convert_to_segy, out + '.first')
                os.remove(out + '.first')
            quiet(conv.convert_to_segy, out)
    return sgz, out


def parse_header(buf):
    return {k: int.from_bytes(buf[k - 1:k - 1 + WIDTH[k]], 'big', signed=True) for k in KEYS}


def ibm_close(got, want):
    got = np.asarray(got, dtype=np.float64)
    want = np.asarray(want, dtype=np.float64)
    return bool(np.all(np.abs(got - want) <= np.abs(want) * 2.0 ** -20))


def canon(c):
    return tuple(sorted((k, str(v)) for k, v in c.items() if k not in ('k',)))


def run_case(c, d, terms, pending):
    inp = dict(c)
    sgy, data, cells, present = build_source(c, d)
    sgz, out = convert_and_export(c, sgy, d)
    src, exp, zraw = open(sgy, 'rb').read(), open(out, 'rb').read(), open(sgz, 'rb').read()
    spec = SpecFile(sgz)
    ns = c['ns']
    is3d = c['kind'] != '2d'
    structured = c['kind'] == 'regular'
    ntr = len(cells)
    tsize = 240 + 4 * ns
    stored = zraw[4096:8192]
    ext_announced = int.from_bytes(stored[3504:3506], 'big', signed=True)
    in_guard = (ext_announced == 0)
    # the property's hypothesis on the delay: it is the first sample time (segyio scales it by |ScalarTraceHeader|)
    with _segyio.open(sgy, ignore_geometry=True) as g0:
        delay0, first_src = int(g0.header[0][TF.DelayRecordingTime]), float(g0.samples[0])
    delay_guard = (first_src == float(delay0)) or not in_guard
    skip109 = c['vary_delay'] or not delay_guard
    R.count('kind:' + c['kind']); R.count('fmt:%d' % c['fmt']); R.count('via:' + c['via']); R.count('hdr:' + c['hv']); R.count('bin:' + c['bin'])
    R.case(canon(c), nontrivial=(ntr >= 2 and ns >= 2),
           sample={'kind': c['kind'], 'fmt': c['fmt'], 'traces': ntr, 'ns': ns, 'bpv': c['bpv'], 'blockshape': c['bs'], 'via': c['via']})
    bad = lambda kind, detail, key=None: R.violation(kind, inp, detail, finding_key=key)

    # ------------------------------------------------ decoded values (specification decoder) per source trace
    vol = spec.volume()
    if is3d:
        dec = [vol[cell // c['n_xl'], cell % c['n_xl'], :ns] for cell in cells]
    else:
        dec = [vol[cell, :ns] for cell in cells]

    # ------------------------------------------------ ORACLE
    # (1) file header bytes and size
    if exp[:3600] != src[:3600]:
        diff = [i for i in range(3600) if exp[i] != src[i]]
        bad('oracle', f'first 3600 bytes differ from the source at {diff[:8]} ({len(diff)} bytes)')
    if in_guard:
        if len(exp) != 3600 + ntr * tsize:
            bad('oracle', f'exported size {len(exp)} != 3600 + {ntr}*{tsize}')
        if len(exp) != len(src):
            bad('oracle', f'exported size {len(exp)} != source size {len(src)}')
        kw = {} if structured else {'strict': False}
        try:
            with _segyio.open(out, **kw) as f, _segyio.open(sgy, **kw) as g, SgzReader(sgz) as rd:
                if f.tracecount != g.tracecount or f.tracecount != ntr:
                    bad('oracle', f'tracecount exported {f.tracecount} source {g.tracecount} expected {ntr}')
                if not np.array_equal(np.asarray(f.samples), np.asarray(g.samples)):
                    if delay_guard:
                        bad('oracle', f'sample axis differs: {list(f.samples)[:3]} vs {list(g.samples)[:3]}')
                    else:
                        bad('oracle', f'source delay {delay0} with ScalarTraceHeader {c.get("scalar")} (first sample {first_src}): exported '
                                      f'delay {int(f.header[0][TF.DelayRecordingTime])}, sample axis {list(f.samples)[:2]} vs {list(g.samples)[:2]}', key=D35)
                        if D35 not in R.known:
                            R.known.append(D35)
                if int(f.format) != int(g.format) or int(f.format) != c['fmt']:
                    bad('oracle', f'format exported {int(f.format)} source {int(g.format)}')
                if structured:
                    for nm in ('ilines', 'xlines', 'offsets'):
                        if not np.array_equal(np.asarray(getattr(f, nm)), np.asarray(getattr(g, nm))):
                            bad('oracle', f'{nm} differ: {list(getattr(f, nm))[:4]} vs {list(getattr(g, nm))[:4]}')
                    if f.sorting != g.sorting:
                        bad('oracle', f'sorting {f.sorting} vs {g.sorting}')
                else:
                    if (f.ilines is None) != (g.ilines is None) or f.sorting != g.sorting:
                        bad('oracle', f'unstructured geometry differs: ilines {f.ilines} vs {g.ilines}, sorting {f.sorting} vs {g.sorting}')
                n = min(f.tracecount, g.tracecount, ntr)
                hbad = sbad = obad = 0
                ft, gt = f.trace.raw[:], g.trace.raw[:]
                for i in range(n):
                    hf, hg = dict(f.header[i]), dict(g.header[i])
                    rawf, rawg = exp[3600 + i * tsize:3832 + i * tsize], src[3600 + i * tsize:3832 + i * tsize]
                    if skip109:
                        # outside the property's hypothesis (delay not constant): the delay is regenerated, all else kept
                        hf.pop(TF.DelayRecordingTime), hg.pop(TF.DelayRecordingTime)
                        rawf, rawg = rawf[:108] + rawf[110:], rawg[:108] + rawg[110:]
                    if hf != hg or rawf != rawg:
                        hbad += 1
                        if hbad == 1:
                            dd = {int(k): (v, hg[k]) for k, v in hf.items() if v != hg[k]}
                            bad('oracle', f'trace header {i} differs from the source: {dd}')
                    want = dec[i]
                    rdt = rd.get_trace(i)
                    if not bits_equal(rdt, want):
                        obad += 1
                        if obad == 1:
                            bad('oracle', f'SgzReader.get_trace({i}) is not the decoded cell {cells[i]} of the SGZ file')
                    ok = bits_equal(ft[i], want) if c['fmt'] == 5 else ibm_close(ft[i], want)
                    if not ok:
                        sbad += 1
                        if sbad == 1:
                            j = int(np.argmax(np.abs(ft[i].astype(np.float64) - want.astype(np.float64))))
                            bad('oracle', f'samples of exported trace {i} differ from the decoded SGZ values '
                                          f'({"bit-exact" if c["fmt"] == 5 else "relative 2^-20"}): sample {j} {ft[i][j]!r} vs {want[j]!r}')
                R.count('samples_checked', n * ns)
                R.count('headers_checked', n)
        except Exception as e:
            bad('oracle', f'exported file cannot be opened / compared with segyio: {e!r}')
    else:
        # outside the guard: D34.  The export must fail to read back (else the finding no longer reproduces).
        try:
            with _segyio.open(out, ignore_geometry=True) as f:
                t0_ = f.xfd.metrics()['trace0']
                same = f.tracecount == ntr and all(bits_equal(f.trace.raw[i], dec[i]) for i in range(min(ntr, 3)))
            if not same:
                bad('oracle', f'source announces {ext_announced} extended textual header(s): exported file is read from byte {t0_}, '
                              f'traces are at 3600', key=D34)
                if D34 not in R.known:
                    R.known.append(D34)
        except Exception as e:
            bad('oracle', f'source announces {ext_announced} extended textual header(s): exported file unreadable ({e!r})', key=D34)
            if D34 not in R.known:
                R.known.append(D34)

    # ------------------------------------------------ CORRESPONDENCE (deferred: one batch of Coq evaluations)
    if not a.no_model:
        mask = [bool(v) for v in present.reshape(-1)] if present is not None else []
        il = list(range(c['n_il'])) if is3d else []
        xl = list(range(c['n_xl'])) if is3d else []
        b = stored
        term = ('demo_plan %s %s [%s] %d %s %s %d (demo_stored %d %d %d %d %d %d)' % (
            'true' if is3d else 'false', 'true' if structured else 'false', '; '.join('true' if v else 'false' for v in mask),
            ns, zlist(il), zlist(xl), ntr, b[3224], b[3225], b[3226], b[3227], b[3504], b[3505]))
        # what the implementation did
        cre = _created[-1] if _created else None
        with SgzConverter(sgz) as conv:
            regen = [dict((int(k), int(v)) for k, v in conv.regenerate_trace_header(i).items()) for i in range(ntr)]
            first = int(conv.zslices[0])
            keys = sorted(regen[0]) if regen else list(READABLE)
        impl = {'created': cre, 'exp': exp, 'stored': stored, 'regen': regen, 'dec': dec, 'cells': cells, 'ns': ns, 'ntr': ntr,
                'fmt': c['fmt'], 'first': first, 'keys': keys, 'out': out, 'vol': vol, 'is3d': is3d, 'n_xl': c.get('n_xl', 1),
                'vary': c['vary_delay']}
        try:
            with _segyio.open(out, ignore_geometry=True) as f:
                impl['real_trace0'] = int(f.xfd.metrics()['trace0'])
        except Exception:
            impl['real_trace0'] = 'unreadable'
        terms.append(term)
        pending.append((inp, impl))
        # the exported bytes are needed after the scratch files are gone: everything is in `impl`
    for p in (sgy, sgz, out):
        try:
            os.remove(p)
        except OSError:
            pass


def check_corr(inp, impl, val):
    bad = lambda detail: R.violation('corr', inp, detail)
    txt = val.strip()
    if not txt.startswith('Py.Return') and not txt.startswith('Return'):
        bad(f'model export raises: {txt[:80]}')
        return
    v = parse_value(txt.split('Return', 1)[1].strip())
    (cap, fmt, ntr_m, structured_spec, (headlen, headdiff, trace0), plan) = v
    exp, ns, ntr = impl['exp'], impl['ns'], impl['ntr']
    cre = impl['created']
    if cre is None:
        bad('segyio.create was not called')
        return
    if cre['structured'] != structured_spec or cre['cap'] != cap or cre['format'] != fmt or cre['ns'] != ns:
        bad(f"spec: model (structured={structured_spec}, capacity={cap}, format={fmt}, ns={ns}) vs segyio.create "
            f"(structured={cre['structured']}, capacity={cre['cap']}, format={cre['format']}, ns={cre['ns']})")
    if cre['structured'] and cre.get('sorting') != 2:
        bad(f"spec.sorting = {cre.get('sorting')}, generated model says 2")
    tsize = 240 + 4 * ns
    n_real = (len(exp) - 3600) // tsize if len(exp) >= 3600 else -1
    if ntr_m != n_real or (len(exp) - 3600) % tsize != 0:
        bad(f'number of traces: model {ntr_m}, file has {n_real} (+{(len(exp) - 3600) % tsize} bytes)')
    if headlen != 3600:
        bad(f'model header region has {headlen} bytes')
    real_diff = [(i, exp[i]) for i in range(3600) if exp[i] != impl['stored'][i]]
    if [tuple(x) for x in headdiff] != real_diff:
        bad(f'header region vs stored header: model differs at {headdiff[:4]}, file at {real_diff[:4]}')
    # where segyio looks for trace 0 (measured with xfd.metrics() when the exported file could be opened at all)
    real_t0 = impl.get('real_trace0')
    if real_t0 == 'unreadable':
        if trace0 == 3600:
            bad('segyio cannot open the exported file although the model says trace 0 is looked for at 3600')
    elif real_t0 != trace0:
        bad(f'trace 0 offset on re-opening: model {trace0}, segyio {real_t0}')
    if impl['keys'] != READABLE:
        bad(f"regenerated header has keys {sorted(set(impl['keys']) ^ set(READABLE))} more/less than segyio can read: the header "
            f"write is not a replacement of the whole header")
    nbad = 0
    for i, (hoff, soff, cell) in enumerate(plan[:n_real if n_real > 0 else 0]):
        if nbad >= 3:
            break
        if hoff != 3600 + i * tsize or soff != hoff + 240:
            bad(f'trace {i}: model offsets ({hoff}, {soff}) are not the SEG-Y layout')
            nbad += 1
            continue
        got = parse_header(exp[hoff:hoff + 240])
        if got.pop(233) != 0 or got.pop(237) != 0:
            bad(f'trace {i}: bytes 233-240 of the exported header are not zero')
            nbad += 1
        want = impl['regen'][i] if i < len(impl['regen']) else None
        if want is None or got != want:
            dd = {k: (got[k], want.get(k)) for k in got if want is None or got[k] != want.get(k)} if want else 'missing'
            bad(f'trace {i}: header bytes at {hoff} are not the regenerated header: {dd}')
            nbad += 1
        if got[109] != impl['first']:
            bad(f"trace {i}: DelayRecordingTime {got[109]} is not int(zslices[0]) = {impl['first']}")
            nbad += 1
        # samples at soff come from the model's cell
        vol = impl['vol']
        want_s = (vol[cell // impl['n_xl'], cell % impl['n_xl'], :ns] if impl['is3d'] else vol[cell, :ns])
        raw = exp[soff:soff + 4 * ns]
        if impl['fmt'] == 5:
            ok = raw == np.asarray(want_s, dtype='>f4').tobytes()
        else:
            ok = ibm_close(ibm_to_float(raw), want_s)
        if not ok:
            bad(f'trace {i}: sample bytes at {soff} are not the decoded cell {cell} the model names')
            nbad += 1
        if i < len(impl['cells']) and cell != impl['cells'][i]:
            bad(f"trace {i}: model cell {cell}, source trace {i} is cell {impl['cells'][i]}")
            nbad += 1
    R.count('corr_cases')


def ibm_to_float(raw):
    u = np.frombuffer(raw, dtype='>u4').astype(np.uint64)
    sign = np.where((u >> 31) & 1, -1.0, 1.0)
    expo = ((u >> 24) & 0x7f).astype(np.int64) - 64
    mant = (u & 0xffffff).astype(np.float64) / float(1 << 24)
    return sign * mant * np.power(16.0, expo)


def negative_inline_cases(k0):
    """irregular sources whose INLINE numbers are negative (all of them, or changing sign without ever being 0: a trace with
    inline number 0 cannot be told from a hole, by design of the format), crossline numbers of either sign: a live grid
    position is one whose stored inline number is non-zero, whatever its sign.  Both formats, API and CLI."""
    out = []
    r = random.Random(a.seed * 131 + 66)
    for j in range(4):
        c = gen_case(4000 + j, True)
        n_il, n_xl = r.choice([3, 4, 5, 7, 9]), r.choice([3, 4, 5, 6, 9])
        il_step, xl_step = r.choice([1, 2, 3, 5]), r.choice([1, 2, 4])
        if j % 2 == 0 or il_step == 1:
            il0 = -(n_il - 1) * il_step - r.randrange(1, 40)                      # every inline number negative
        else:
            il0 = -il_step * r.randrange(1, n_il) + r.randrange(1, il_step)       # changes sign, never 0
        xl0 = r.choice([1, 20, -3 * n_xl * xl_step - 1, -xl_step * (n_xl // 2)])
        assert all(il0 + i * il_step != 0 for i in range(n_il))
        c.update(kind='irregular', via='cli' if j == 3 else 'api', k=k0 + j, fmt=[5, 1][j % 2], ext=0, vary_delay=False, scalar=0,
                 n_il=n_il, n_xl=n_xl, il0=il0, xl0=xl0, il_step=il_step, xl_step=xl_step, mseed=r.randrange(2 ** 31),
                 hv=['default', 'random', 'duplicate', 'default'][j], bin='plain')
        c.pop('nt', None)
        c['bpv'], c['bs'] = [(4, None), (8, (4, 8, -1)), (4, (8, 8, -1)), (8, None)][j]
        out.append(c)
    return out


def main():
    quick = (a.tier == 'quick') and not a.search
    d = scratch_dir()
    terms, pending = [], []
    try:
        if a.replay:
            rep = json.load(open(a.replay))
            cases = [rep['input']]
        else:
            n = 75 if quick else 420
            cases = [gen_case(k, quick) for k in range(n)]
            # the defective region (D34) and the delay regeneration (correspondence only) are always exercised
            k0 = len(cases)
            for j, kind in enumerate(['regular', 'irregular']):
                c = gen_case(1000 + j, True)
                c.update(kind=kind, ext=1 + j, via='api', k=k0 + j, bin='plain')
                if kind == 'irregular':
                    c.update(il_step=abs(c.get('il_step', 1)) or 1, xl_step=abs(c.get('xl_step', 1)) or 1,
                             n_il=max(c.get('n_il', 3), 3), n_xl=max(c.get('n_xl', 3), 3), mseed=5 + j, il0=3, xl0=4)
                    if c['bs'] is not None and (len(c['bs']) != 3 or c['bs'][0] == 1):
                        c['bpv'], c['bs'] = 4, None          # the drawn case was a 2D one: not a 3D blockshape
                if kind == 'regular':
                    c.update(n_il=c.get('n_il', 4), n_xl=c.get('n_xl', 5), il0=c.get('il0', 1), xl0=c.get('xl0', 1),
                             il_step=c.get('il_step', 1), xl_step=c.get('xl_step', 1))
                    if c['bs'] is None or len(c['bs']) != 3 or c['bs'][0] == 1:
                        c['bpv'], c['bs'] = 4, None
                cases.append(c)
            for j, kind in enumerate(['regular', '2d', 'irregular']):
                c = gen_case(2000 + j, True)
                base = {'regular': dict(n_il=4, n_xl=5, il0=1, xl0=1, il_step=1, xl_step=2),
                        'irregular': dict(n_il=4, n_xl=5, il0=1, xl0=1, il_step=1, xl_step=2, mseed=11),
                        '2d': dict(nt=9)}[kind]
                c.update(kind=kind, vary_delay=True, via='api', k=k0 + 2 + j, hv='default', bin='plain', ext=0, **base)
                c['bpv'], c['bs'] = (4, None)
                cases.append(c)
            # re-blocked files: regular and irregular (several holes) 2-bit sources, exported from the 64x64x4 file
            for j, kind in enumerate(['irregular', 'regular', 'irregular'] if not quick else ['irregular', 'regular']):
                c = gen_case(2500 + j, True)
                base = {'regular': dict(n_il=5, n_xl=7, il0=3, xl0=10, il_step=2, xl_step=3),
                        'irregular': dict(n_il=6, n_xl=7, il0=10, xl0=100, il_step=1, xl_step=2, mseed=31 + j)}[kind]
                c.update(kind=kind, via='api', k=len(cases), hv='default', bin='plain', ext=0, vary_delay=False, adv=True, scalar=0, **base)
                c['bpv'], c['bs'] = (2, None)
                cases.append(c)
            # a 2D line in the (1, 4, N) layout whose traces span SEVERAL z-blocks (the trace-range loader path of the export)
            c = gen_case(3000, True)
            c.update(kind='2d', nt=10, ns=600, bpv=16, bs=(1, 4, -1), via='api', k=len(cases), hv='default', bin='plain', ext=0,
                     vary_delay=False, dt_us=2000, t0=0)
            c.pop('scalar', None)
            cases.append(c)
        if not a.replay:
            cases += negative_inline_cases(len(cases))
        if not a.replay:
            k0 = len(cases)
            for j, (kind, scalar, t0) in enumerate([('regular', -100, -200), ('regular', -100, 0), ('2d', 1, 100), ('irregular', -1, -8),
                                                    ('2d', 10, 3), ('regular', -2, 5), ('irregular', 100, 0)]):
                c = gen_case(3000 + j, True)
                base = {'regular': dict(n_il=3, n_xl=5, il0=2, xl0=9, il_step=2, xl_step=-1),
                        'irregular': dict(n_il=4, n_xl=4, il0=1, xl0=1, il_step=3, xl_step=1, mseed=21 + j),
                        '2d': dict(nt=6)}[kind]
                c.update(kind=kind, via='api', k=k0 + j, hv='default', bin='plain', ext=0, vary_delay=False, scalar=scalar, t0=t0, **base)
                c['bpv'], c['bs'] = (8, None)
                cases.append(c)
        for c in cases:
            try:
                run_case(c, d, terms, pending)
            except Exception as e:
                import traceback
                R.violation('oracle', dict(c), 'export pipeline raised: ' + ''.join(traceback.format_exception_only(type(e), e)).strip()[:400])
        if terms:
            vals = coq_eval(['SZ.Model.Export'], terms)
            for (inp, impl), v in zip(pending, vals):
                check_corr(inp, impl, v)
        R.notes.append('numeric clause (IEEE exact, IBM within relative 2^-20) is an assumption about segyio validated on every '
                       f"exported sample: {R.distribution.get('samples_checked', 0)} samples this run")
    finally:
        shutil.rmtree(d, ignore_errors=True)
    R.write(a.out)


main()
