#!/usr/bin/env python3
"""Harness for C07c (the clauses of C07 that are not about one cold sample read): opening, preload, trace-header
regeneration, diagonal reads through the chunk LRU.

Correspondence ('corr'): Model/IOCost.v (over Gen/OpenIO.v, Gen/Reader.v, Gen/Headers.v, Model/Headers.v, Model/Caches.v)
is evaluated inside Coq (tools/coqeval.py) on the values of real files and compared with what a hz.CountingFile / call
loggers see of the implementation:
  open/preload  the (offset, length) sequence of the WHOLE session (construction + sample reads) == ev_open header preload
                events, events = the ranges the loader asked the choke point _get_compressed_bytes for, per call
  headers       the footer requests of gen_trace_header(t) == ev_hdr ox_hdr_memo table ... t
  diagonals     the keys with which get_trace consults the chunk LRU and the chunks _read_containing_chunk actually read
                == ev_diag ... capacity warm_state  (capacity 0, 1, 2, default; cold and warm caches)
Direct oracles ('oracle'; specification + counting file only, never the model):
  opening touches only (0,4096) [+ (0, 4096*nhb)]; with preload the data section is requested exactly once, at
  construction, and no sample read reaches the file afterwards; regenerating a trace header of a regular file requests
  exactly one 4-byte word per stored array, inside that array's slot; within one diagonal read no chunk is read twice and no
  byte of the data section is requested twice.
Known finding D42 (guard: the file's table has a header word that aliases another word's stored array): the unrepaired
gen_trace_header requests the shared word once per alias."""
import os, sys, struct, json, glob
sys.path.insert(0, os.path.dirname(os.path.abspath(__file__)))
from common import *
a = parse_args()
from hz import *
from coqeval import coq_eval, parse_value, CoqEvalError

R = Result('one case = (file, operation): open / open+preload+session, gen_trace_header(t), one diagonal read (direction, id, '
           'crop, sample window, LRU capacity, cache state); non-trivial = distinct case whose expected outcome is data; files: '
           'NumPy and SEG-Y conversions of several layouts / detection modes / alias structures, irregular, 2D, all fixtures')
rng = random.Random(a.seed * 104729 + 71)
quick = (a.tier == 'quick') and not a.search
use_model = not a.no_model
D42 = 'D42-header-alias-reread'
STATUS = os.path.join(os.path.dirname(os.path.abspath(__file__)), '..', '..', 'coq', 'Gen', 'STATUS.json')
HDR_FIELDS = json.load(open(STATUS))['hdr_fields'] if os.path.exists(STATUS) else []
seen_d42 = set()
pending = []          # (term, check(value) -> None | message, input description)


def zlit(v):
    return str(int(v)) if int(v) >= 0 else f'({int(v)})'


def zlist(l):
    return '[' + '; '.join(zlit(x) for x in l) + ']'


def pairs(l):
    return '[' + '; '.join(f'({zlit(o)}, {zlit(n)})' for o, n in l) + ']'


def opt(v):
    return 'None' if v is None else f'(Some {zlit(v)})'


def hdr_list(raw):
    vals = []
    for name in HDR_FIELDS:
        _, kind, off = name.split('_')
        fmt = {('u', 32): '<I', ('i', 32): '<i'}[(kind[0], int(kind[1:]))]
        vals.append(struct.unpack(fmt, raw[int(off):int(off) + 4])[0])
    return vals


def spec_table(raw):
    """the 89 x 3 int32 table at bytes 980:2048 (docs/file-specification.md): [(code, value, reference)]"""
    return [struct.unpack('<iii', raw[980 + 12 * i: 992 + 12 * i]) for i in range(89)]


def alias_words(raw):
    """header words stored through another word's array: value 0, reference to a different, stored, word"""
    t = spec_table(raw)
    stored = {c for c, v, ref in t if c != 0 and v == 0 and ref == c}
    return [c for c, v, ref in t if c != 0 and v == 0 and ref != 0 and ref != c and ref in stored]


# ------------------------------------------------------------------------------------------------ open / preload / session
def sample_calls(r, rng, n):
    calls = []
    if r.is_2d:
        for _ in range(n):
            t = rng.randrange(r.tracecount)
            calls.append(('get_trace', (t,)))
        calls.append(('read_subplane', (0, min(r.tracecount, 3), 0, min(r.n_samples, 5))))
    else:
        for _ in range(n):
            k = rng.randrange(5)
            if k == 0:
                calls.append(('read_inline', (rng.randrange(r.n_ilines),)))
            elif k == 1:
                calls.append(('read_crossline', (rng.randrange(r.n_xlines),)))
            elif k == 2:
                calls.append(('read_zslice', (rng.randrange(r.n_samples),)))
            elif k == 3:
                i0 = rng.randrange(r.n_ilines); x0 = rng.randrange(r.n_xlines); z0 = rng.randrange(r.n_samples)
                calls.append(('read_subvolume', (i0, rng.randrange(i0 + 1, r.n_ilines + 1), x0, rng.randrange(x0 + 1, r.n_xlines + 1),
                                                 z0, rng.randrange(z0 + 1, r.n_samples + 1))))
            else:
                calls.append(('get_trace', (rng.randrange(r.n_ilines * r.n_xlines) if r.structured else rng.randrange(r.tracecount),)))
    return calls


def session_check(path, label, preload, n_calls):
    raw = open(path, 'rb').read(4096)
    sp = SpecFile(path)
    ds, dlen = 4096 * sp.nhb, 4096 * sp.ndb
    legacy = getattr(sp, 'legacy_sizes', False)     # v0.0.x files do not record the size of the data section (ndb = 0 in the header)
    f = CountingFile(path)
    inp = {'file': label, 'op': 'open', 'preload': preload}
    try:
        r = quiet(SgzReader, f, preload=preload)
    except Exception as e:
        R.notes.append(f'{label}: cannot open ({type(e).__name__}: {e})')
        return
    try:
        opens = list(f.all)
        R.case(('open', label, preload), sample=inp)
        R.count('open preload' if preload else 'open')
        want = [(0, 4096)] + ([(0, 4096 * sp.nhb)] if sp.nhb != 1 else []) + ([(ds, dlen)] if preload else [])
        if opens != want and not (legacy and preload):
            R.violation('oracle', inp, f'opening requested {opens[:5]}, the property allows exactly {want}')
        # the session: sample reads, their choke-point requests logged per call
        events = []
        cur = []
        orig = r.loader._get_compressed_bytes

        def logged(offset, length_bytes):
            cur.append((int(offset), int(length_bytes)))
            return orig(offset, length_bytes)
        r.loader._get_compressed_bytes = logged
        for method, args in sample_calls(r, rng, n_calls):
            cur = []
            f.log.clear()
            try:
                quiet(getattr(r, method), *args)
            except Exception as e:
                R.notes.append(f'{label}: {method}{args} raised {type(e).__name__}')
            events.append(cur)
            inp2 = {'file': label, 'op': method, 'args': list(args), 'preload': preload}
            R.case(('session', label, preload, method, args), sample=inp2)
            again = [(o, l) for o, l in f.log if l > 0 and o < ds + dlen and ds < o + l]
            if preload and again and not legacy:
                R.violation('oracle', inp2, f'a sample read on a preloaded reader fetched from the data section again: {again[:3]}')
            if not preload:
                out = [(o, l) for o, l in f.log if l > 0 and not (ds <= o and o + l <= ds + dlen)]
                if (not sp.is2d) and sp.tracecount != sp.n_il * sp.n_xl:
                    # irregular survey: get_trace maps the ordinal through the presence mask = ONE stored footer array, read once
                    foot = ds + dlen
                    out = [(o, l) for o, l in out if not any(o == foot + k * sp.stride and l == sp.hel for k in range(sp.nha))]
                if out:
                    R.violation('oracle', inp2, f'a sample read requested bytes outside the data section: {out[:3]}')
        if preload:
            r.loader.load_compressed_volume()
            events_model = events      # (LoadVolume is proved to be silent; the harness checks the implementation here)
            hits = [(o, l) for o, l in f.all if l > 0 and o < ds + dlen and ds < o + l]
            if hits != [(ds, dlen)] and not legacy:
                R.violation('oracle', inp, f'requests overlapping the data section over the whole session: {hits[:4]}; '
                            f'the property allows exactly one, {(ds, dlen)}')
        if use_model:
            term = f'ev_open {zlist(hdr_list(raw))} {"true" if preload else "false"} [{"; ".join(pairs(e) for e in events)}]'
            # (an irregular file's get_trace also reads the presence mask from the footer: not a request of the choke point)
            got_all = [(o, l) for o, l in f.all if o < ds + max(dlen, 4096 * r.compressed_data_diskblocks) or l == 0]

            def chk(v, got_all=got_all):
                if [tuple(x) for x in v] != got_all:
                    return f'model session {v[:6]}... ({len(v)} requests), implementation {got_all[:6]}... ({len(got_all)})'
            pending.append((term, chk, dict(inp, events=len(events))))
            if not r.is_2d or True:
                cap = r._read_containing_chunk_cached.cache_info().maxsize
                term2 = f'default_chunk_cache (hdr_of_list {zlist(hdr_list(raw))})'

                def chk2(v, cap=cap):
                    if v != f'Some {cap}' and v != ('Some', cap):
                        return f'model default chunk cache {v!r}, implementation maxsize {cap}'
                pending.append((term2, chk2, {'file': label, 'op': 'default chunk cache size'}))
    finally:
        f.close()


# ------------------------------------------------------------------------------------------------ gen_trace_header
def header_check(path, label):
    raw = open(path, 'rb').read(4096)
    sp = SpecFile(path)
    foot = 4096 * sp.nhb + 4096 * sp.ndb
    aliases = alias_words(raw)
    f = CountingFile(path)
    with quiet(SgzReader, f) as r:
        regular = r.is_3d and r.structured
        T = '[' + '; '.join(f'({int(k)}, ({zlit(v[0])}, {zlit(v[1])}))' for k, v in r.hw_info.table.items()) + ']'
        n = r.tracecount
        traces = sorted({0, n - 1, rng.randrange(n), rng.randrange(n)}) + [-1, n]
        for warm in (False, True):
            if warm:
                try:
                    r.get_tracefield_values(189)
                except Exception:
                    pass
            for t in traces:
                f.log.clear()
                try:
                    r.gen_trace_header(t)
                    outcome = 'ok'
                except IndexError:
                    outcome = 'IndexErr'
                except Exception as e:
                    outcome = type(e).__name__
                got = list(f.log)
                inp = {'file': label, 'op': 'gen_trace_header', 'args': [t], 'after': 'get_tracefield_values(189)' if warm else 'open',
                       'stored_arrays': sp.nha, 'alias_words': aliases}
                R.case(('hdr', label, warm, t), nontrivial=(outcome == 'ok'), sample=inp)
                R.count('gen_trace_header ' + ('regular' if regular else 'not regular') + (' aliased' if aliases else ''))
                if regular and outcome == 'ok':
                    want = [(foot + k * sp.stride + 4 * t, 4) for k in range(sp.nha)]
                    bad_slot = [(o, l) for o, l in got if not any(foot + k * sp.stride <= o and o + l <= foot + k * sp.stride + sp.hel
                                                                  for k in range(sp.nha))]
                    if bad_slot:
                        R.violation('oracle', inp, f'footer requests outside every stored array: {bad_slot[:3]}')
                    elif sorted(got) != want:
                        if aliases and set(got) == set(want):
                            R.count('D42 witnessed')
                            if (label, 'D42') not in seen_d42:      # one report per file
                                seen_d42.add((label, 'D42'))
                                R.violation('oracle', inp, f'{len(got)} requests / {4 * len(got)} bytes for {sp.nha} stored arrays: the word '
                                            f'of a shared array is requested once per alias', finding_key=D42)
                            if D42 not in R.known:
                                R.known.append(D42)
                        else:
                            R.violation('oracle', inp, f'regenerating one trace header requested {got[:6]} ({len(got)} requests); the property '
                                        f'allows 4 bytes per stored array: {want[:6]}')
                if outcome != 'ok' and got:
                    R.violation('oracle', inp, f'a refused call ({outcome}) read {got[:3]}')
                if use_model and (regular or outcome != 'ok'):
                    term = (f'ev_hdr ox_hdr_memo {T} {r.n_header_arrays} {r.n_header_blocks} {r.compressed_data_diskblocks} '
                            f'{r.padded_header_entry_length_bytes} {r.tracecount} {"true" if r.structured else "false"} false {zlit(t)}')

                    def chk(v, got=got, outcome=outcome):
                        code, reads = v[0], [tuple(x) for x in v[1]]
                        exp = {'ok': 0, 'IndexErr': 2}.get(outcome, -1)
                        if code == 1 and outcome == 'IndexErr':
                            return None      # unstructured: the model says "arrays path"; the guard is the same one
                        if code != exp or (code == 0 and reads != got):
                            return f'model ({code}, {reads[:5]}), implementation ({outcome}, {got[:5]})'
                    pending.append((term, chk, inp))
    f.close()


# ------------------------------------------------------------------------------------------------ diagonals
def diag_cases(r, rng, n):
    n_il, n_xl = r.n_ilines, r.n_xlines
    out = []
    cds = sorted({-(n_xl - 1), n_il - 1, 0, rng.randrange(-(n_xl - 1), n_il), rng.randrange(-(n_xl - 1), n_il)})
    ads = sorted({0, n_il + n_xl - 2, n_xl - 1, min(n_xl, n_il + n_xl - 2), rng.randrange(n_il + n_xl - 1), rng.randrange(n_il + n_xl - 1)})
    allc = [(False, c) for c in cds] + [(True, c) for c in ads]
    rng.shuffle(allc)
    for anti, idn in allc[:n]:
        ln = (szutils.get_anticorrelated_diagonal_length if anti else szutils.get_correlated_diagonal_length)(idn, n_il, n_xl)
        crop = (None, None)
        if ln >= 2 and rng.random() < 0.5:
            lo = rng.randrange(ln - 1)
            crop = (lo, rng.randrange(lo + 1, ln + 1))
        win = (None, None)
        if rng.random() < 0.4:
            s0 = rng.randrange(r.n_samples)
            win = (s0, rng.randrange(s0 + 1, r.n_samples + 1))
        out.append((anti, idn, crop, win))
    # refused calls
    out.append((False, n_il, (None, None), (None, None)))
    out.append((True, n_il + n_xl - 1, (None, None), (None, None)))
    return out


def diagonal_check(path, label, n_per_reader):
    sp = SpecFile(path)
    ds, dlen = 4096 * sp.nhb, 4096 * sp.ndb
    for cap in ([None, 1, 2] if quick else [None, 1, 2, 3, 0]):
        f = CountingFile(path)
        with quiet(SgzReader, f, chunk_cache_size=cap) as r:
            if r.is_2d:
                f.close()
                return
            r.loader.clear_cache()            # the class-level loader caches are shared between readers: start each reader cold
            capacity = r._read_containing_chunk_cached.cache_info().maxsize
            consulted, fetched = [], []
            orig_cached = r._read_containing_chunk_cached
            orig_sub = r.read_subvolume
            bs = r.blockshape

            def cached(*k):
                consulted.append([int(x) for x in k])
                return orig_cached(*k)

            def sub(min_il, max_il, min_xl, max_xl, min_z, max_z, **kw):
                fetched.append([int(min_il), int(min_xl), int(min_z), int(max_z)])
                return orig_sub(min_il, max_il, min_xl, max_xl, min_z, max_z, **kw)
            r._read_containing_chunk_cached = cached
            r.read_subvolume = sub
            history = []          # every key consulted on this reader so far
            for anti, idn, crop, win in diag_cases(r, rng, n_per_reader):
                consulted.clear(); fetched.clear(); f.log.clear()
                meth = r.read_anticorrelated_diagonal if anti else r.read_correlated_diagonal
                kw = {}
                if crop[0] is not None:
                    kw.update({('min_ad_idx' if anti else 'min_cd_idx'): crop[0], ('max_ad_idx' if anti else 'max_cd_idx'): crop[1]})
                if win[0] is not None:
                    kw.update(min_sample_idx=win[0], max_sample_idx=win[1])
                try:
                    meth(idn, **kw)
                    outcome = 'ok'
                except IndexError:
                    outcome = 'IndexErr'
                except Exception as e:
                    outcome = type(e).__name__
                keys, fet, io = [list(k) for k in consulted], [list(k) for k in fetched], list(f.log)
                inp = {'file': label, 'op': 'read_anticorrelated_diagonal' if anti else 'read_correlated_diagonal', 'args': [idn],
                       'crop': list(crop), 'samples': list(win), 'chunk_cache_size': cap, 'capacity': capacity,
                       'consulted_before': len(history)}
                R.case(('diag', label, cap, anti, idn, crop, win, len(history)), nontrivial=(outcome == 'ok'), sample=inp)
                R.count(f'diagonal cap={cap}' + (' warm' if history else ' cold'))
                if outcome == 'ok' and (cap is None or capacity >= 1):
                    dup = [k for k in fet if fet.count(k) > 1]
                    if dup:
                        R.violation('oracle', inp, f'chunk {dup[0]} was read {fet.count(dup[0])} times within one diagonal read '
                                    f'({len(keys)} traces, {len(fet)} chunk reads, LRU capacity {capacity})')
                    ivs = sorted((o, o + l) for o, l in io if l > 0)
                    if any(b[0] < a_[1] for a_, b in zip(ivs, ivs[1:])):
                        R.violation('oracle', inp, 'bytes of the data section requested twice within one diagonal read')
                    if any(not (ds <= o and e <= ds + dlen) for o, e in ivs):
                        R.violation('oracle', inp, 'a diagonal read requested bytes outside the data section')
                    if not history and len(fet) != len({tuple(k) for k in keys}):
                        R.violation('oracle', inp, f'cold cache: {len(fet)} chunk reads for {len({tuple(k) for k in keys})} distinct chunks')
                if outcome != 'ok' and (keys or io):
                    R.violation('oracle', inp, f'a refused diagonal ({outcome}) consulted the cache / read the file')
                if use_model:
                    # content of the LRU before the call: most recent first, distinct, at most `capacity` keys
                    warm = []
                    for k in reversed(history):
                        if k not in warm:
                            warm.append(k)
                    warm = warm[:capacity]
                    s0 = 0 if win[0] is None else win[0]
                    s1 = r.n_samples if win[1] is None else win[1]
                    term = (f'ev_diag {"true" if anti else "false"} {r.n_ilines} {r.n_xlines} {bs[0]} {bs[1]} {bs[2]} {s0} {s1} {zlit(idn)} '
                            f'{opt(crop[0])} {opt(crop[1])} {capacity} [{"; ".join(zlist(k) for k in warm)}]')

                    def chk(v, keys=keys, fet=fet, outcome=outcome):
                        code, (mk, mf) = v[0], v[1]
                        if (code == 0) != (outcome == 'ok'):
                            return f'model outcome code {code}, implementation {outcome}'
                        if code == 0 and ([list(x) for x in mk] != keys or [list(x) for x in mf] != fet):
                            return (f'model keys {mk[:4]}.. fetches {mf[:4]}.. ({len(mk)}/{len(mf)}), implementation keys {keys[:4]}.. '
                                    f'fetches {fet[:4]}.. ({len(keys)}/{len(fet)})')
                    pending.append((term, chk, inp))
                history += keys
        f.close()


# ------------------------------------------------------------------------------------------------ block-exact oracles
def _block_geometry(sp):
    """(ds, nbx, nbz) of a 3D file whose compressed blocks are one 4 KiB disk block each (specification: block (bi, bx, bz) is
    disk block (bi * nbx + bx) * nbz + bz of the data section); None if the layout is not of that kind"""
    if sp.is2d or sp.bs[0] * sp.bs[1] * sp.bs[2] * sp.rate != 8 * 4096:
        return None
    nbi, nbx, nbz = (sp.shape_pad[k] // sp.bs[k] for k in range(3))
    if nbi * nbx * nbz != sp.ndb:
        return None
    return 4096 * sp.nhb, nbx, nbz


def inline_group_check(d):
    """default layout, both backends: read_inline(i) fetches exactly the disk blocks of inline group i // 4 (one contiguous
    range of nbx * nbz blocks), every byte once, no byte of a neighbouring group or beyond the data section. The number of disk
    blocks of one group is chosen so that it is NOT a multiple of ceil(n / 20) (20 = request parallelism of the remote backend):
    any splitting of the group into equal parts has a ragged last part."""
    ragged = [n for n in range(21, 61) if n % (-(-n // 20)) != 0]
    for rep in range(2 if quick else 4):
        bpv = rng.choice([4, 8, 16])
        zb = 2048 // bpv
        nbz = rng.choice([1, 1, 1, 3])
        nbx = rng.choice([n for n in ragged if n % nbz == 0]) // nbz
        n_il, n_xl = rng.choice([5, 6, 7, 8, 9]), 4 * nbx - rng.randrange(4)
        ns = zb * (nbz - 1) + rng.choice([3, 7, min(zb, 40)])
        p = os.path.join(d, f'ilg{rep}.sgz')
        write_numpy_sgz(p, rnd_cube(rng, (n_il, n_xl, ns)), bpv=bpv, blockshape=(4, 4, -1))
        sp = SpecFile(p)
        geo = _block_geometry(sp)
        label = f'numpy {(n_il, n_xl, ns)} bpv={bpv} bs={tuple(sp.bs)}'
        if geo is None or (geo[1], geo[2]) != (nbx, nbz) or tuple(sp.bs[:2]) != (4, 4):
            R.notes.append(f'{label}: not the expected default layout, inline-group oracle skipped')
            continue
        ds, _, _ = geo
        size = 4096 * nbx * nbz
        for backend in ('blob', 'file'):
            f = CountingBlob(p) if backend == 'blob' else CountingFile(p)
            try:
                with quiet(SgzReader, f) as r:
                    for i in sorted({0, n_il - 1, rng.randrange(n_il)}):
                        r.loader.clear_cache()
                        f.log.clear()
                        inp = {'file': label, 'op': 'read_inline', 'args': [i], 'backend': backend, 'group_disk_blocks': nbx * nbz}
                        R.case(('ilgroup', label, backend, i), sample=inp)
                        R.count(f'inline group, {backend} backend')
                        try:
                            quiet(r.read_inline, i)
                        except Exception as e:
                            R.violation('oracle', inp, f'raised {type(e).__name__}: {e}')
                            continue
                        lo = ds + size * (i // 4)
                        ivs = sorted((o, o + l) for o, l in f.log if l > 0)
                        outside = [(o, e - o) for o, e in ivs if o < lo or e > lo + size]
                        if outside:
                            R.violation('oracle', inp, f'requests {outside[:3]} leave the disk blocks of inline group {i // 4} '
                                        f'= bytes [{lo}, {lo + size}) (data section ends at {ds + 4096 * sp.ndb})')
                        elif any(b[0] < a_[1] for a_, b in zip(ivs, ivs[1:])):
                            R.violation('oracle', inp, 'bytes of the inline group requested twice within one read')
                        elif sum(e - o for o, e in ivs) != size:
                            R.violation('oracle', inp, f'{sum(e - o for o, e in ivs)} bytes fetched, the inline group has {size}')
            finally:
                f.close()
        os.remove(p)


def diagonal_window_check(d):
    """diagonal reads with a sample window on files whose traces span several z-blocks: every byte fetched lies in a disk block
    (bi, bx, bz) with (bi, bx) the block column of a trace of the (cropped) diagonal and bz a z-block the window intersects.
    All four kinds: correlated with negative / non-negative id, anticorrelated in the upper / lower half."""
    configs = [(16, (4, 4, -1)), (32, (4, 4, -1)), (8, (8, 8, 64)), (4, (16, 16, 32)), (2, (16, 16, 64))]
    for rep, (bpv, bs) in enumerate(rng.sample(configs, 3 if quick else 5)):
        bsr = szutils.define_blockshape_3d(bpv, bs)[1]
        n_il, n_xl = rng.choice([5, 7, bsr[0] + 2]), rng.choice([6, 9, bsr[1] + 1])
        ns = bsr[2] * rng.choice([2, 3]) + rng.choice([1, 5, bsr[2] // 2])
        p = os.path.join(d, f'dgw{rep}.sgz')
        write_numpy_sgz(p, rnd_cube(rng, (n_il, n_xl, ns)), bpv=bpv, blockshape=bs)
        sp = SpecFile(p)
        geo = _block_geometry(sp)
        label = f'numpy {(n_il, n_xl, ns)} bpv={bpv} bs={tuple(sp.bs)}'
        if geo is None:
            R.notes.append(f'{label}: blocks are not single disk blocks, diagonal-window oracle skipped')
            continue
        ds, nbx, nbz = geo
        b0, b1, b2 = sp.bs
        kinds = [(False, rng.randrange(-(n_xl - 1), 0)), (False, rng.randrange(0, n_il)),
                 (True, rng.randrange(0, n_xl)), (True, rng.randrange(n_xl, n_il + n_xl - 1)), (True, n_xl)]
        for anti, idn in kinds:
            # traces of the full diagonal, from the definition: correlated id c: (il, xl) with il - xl = c; anticorrelated id a:
            # il + xl = a; both in order of increasing inline
            cells = [(il, il - idn) for il in range(n_il) if 0 <= il - idn < n_xl] if not anti else \
                    [(il, idn - il) for il in range(n_il) if 0 <= idn - il < n_xl]
            ln = len(cells)
            zk = rng.randrange(nbz)
            z_lo, z_hi = b2 * zk, min(ns, b2 * (zk + 1))
            s0 = rng.randrange(z_lo, z_hi)
            s1 = rng.randrange(s0 + 1, z_hi + 1)                       # a window inside ONE z-block
            crops = [(None, None)]
            if ln >= 2:
                lo = rng.randrange(ln - 1)
                crops.append((lo, rng.randrange(lo + 1, ln + 1)))
            for crop in crops:
                for backend in (('file', 'blob') if crop[0] is None else ('file',)):
                    f = CountingFile(p) if backend == 'file' else CountingBlob(p)
                    try:
                        with quiet(SgzReader, f) as r:            # a fresh reader, cold loader caches
                            r.loader.clear_cache()
                            f.log.clear()
                            kw = dict(min_sample_idx=s0, max_sample_idx=s1)
                            if crop[0] is not None:
                                kw.update({('min_ad_idx' if anti else 'min_cd_idx'): crop[0], ('max_ad_idx' if anti else 'max_cd_idx'): crop[1]})
                            name = 'read_anticorrelated_diagonal' if anti else 'read_correlated_diagonal'
                            inp = {'file': label, 'op': name, 'args': [idn], 'crop': list(crop), 'samples': [s0, s1], 'backend': backend,
                                   'z_blocks_per_trace': nbz}
                            R.case(('diagwin', label, anti, idn, crop, s0, s1, backend), sample=inp)
                            R.count('diagonal with sample window, ' + ('anticorrelated ' + ('lower' if idn >= n_xl else 'upper') if anti
                                                                       else 'correlated'))
                            try:
                                out = quiet(getattr(r, name), idn, **kw)
                            except Exception as e:
                                R.violation('oracle', inp, f'raised {type(e).__name__}: {e}')
                                continue
                            sel = cells if crop[0] is None else cells[crop[0]:crop[1]]
                            if tuple(out.shape) != (len(sel), s1 - s0):
                                R.violation('oracle', inp, f'result shape {tuple(out.shape)}, expected {(len(sel), s1 - s0)}')
                            allowed = {((il // b0) * nbx + xl // b1) * nbz + bz for il, xl in sel for bz in range(s0 // b2, (s1 - 1) // b2 + 1)}
                            got = set()
                            for o, l in f.log:
                                if l > 0:
                                    got.update(range((o - ds) // 4096, (o + l - 1 - ds) // 4096 + 1))
                            extra = sorted(got - allowed)
                            if extra:
                                R.violation('oracle', inp, f'{len(got)} disk blocks fetched, {len(extra)} of them hold no requested sample '
                                            f'(e.g. data blocks {extra[:4]}); the window lies in z-block {zk} of {nbz}: allowed '
                                            f'{sorted(allowed)[:6]} ({len(allowed)} blocks)')
                            ivs = sorted((o, o + l) for o, l in f.log if l > 0)
                            if any(b[0] < a_[1] for a_, b in zip(ivs, ivs[1:])):
                                R.violation('oracle', inp, 'bytes of the data section requested twice within one diagonal read')
                    finally:
                        f.close()
        os.remove(p)


# ------------------------------------------------------------------------------------------------ files
d = scratch_dir()
try:
    files = []        # (path, label, kind)
    layouts = [(4, (4, 4, -1)), (8, (4, 4, -1)), (2, (64, 64, 4)), (8, (8, 8, 64)), (4, (16, 16, 32)), (16, (4, 4, -1)), (1, (16, 16, 128))]
    if quick:
        layouts = layouts[:3] + rng.sample(layouts[3:], 1)
    for bpv, bs in layouts:
        bsr = szutils.define_blockshape_3d(bpv, bs)[1]
        shape = (rng.choice([5, 9, bsr[0] + 1, 2 * bsr[0] + 3]), rng.choice([6, 10, bsr[1] + 2, 2 * bsr[1] + 1]), rng.choice([7, 33, bsr[2] + 1]))
        shape = tuple(min(s, 140) for s in shape)
        p = os.path.join(d, f'np{len(files)}.sgz')
        write_numpy_sgz(p, rnd_cube(rng, shape), bpv=bpv, blockshape=bs)
        files.append((p, f'numpy {shape} bpv={bpv} bs={bsr}', '3d'))
    # SEG-Y conversions: detection modes x alias structure
    def hdr_alias(t, i, x):
        return {segyio.TraceField.TRACE_SEQUENCE_LINE: t + 1, segyio.TraceField.TRACE_SEQUENCE_FILE: t + 1, segyio.TraceField.CDP: t + 1,
                segyio.TraceField.SourceX: 7 * x - i, segyio.TraceField.GroupX: 7 * x - i}
    def hdr_plain(t, i, x):
        return {segyio.TraceField.TRACE_SEQUENCE_FILE: t + 1, segyio.TraceField.SourceX: 3 * x + 100 * i, segyio.TraceField.offset: -5 * t}
    modes = ['heuristic', 'thorough', 'exhaustive', 'strip']
    for k, (hfun, tag) in enumerate(((hdr_plain, 'no alias'), (hdr_alias, 'aliased words'))):
        for mode in (modes if not quick else (['heuristic', rng.choice(modes[1:])] if k == 0 else ['heuristic'])):
            n_il, n_xl, ns = rng.choice([(5, 6, 40), (9, 10, 70), (4, 131, 20), (13, 3, 33)])
            sgy = os.path.join(d, f's{len(files)}.sgy'); p = os.path.join(d, f's{len(files)}.sgz')
            mk_segy(sgy, rnd_cube(rng, (n_il, n_xl, ns)), range(1, 1 + n_il), range(20, 20 + n_xl), hdr=hfun)
            write_segy_sgz(sgy, p, bpv=rng.choice([2, 4, 8]), header_detection=mode)
            os.remove(sgy)
            files.append((p, f'segy {n_il}x{n_xl}x{ns} {mode} ({tag})', '3d-hdr'))
    # irregular and 2D
    n_il, n_xl, ns = 6, 7, 30
    present = np.ones((n_il, n_xl), dtype=bool); present[1, 2] = present[4, 5] = present[5, 0] = False
    sgy = os.path.join(d, 'irr.sgy'); p = os.path.join(d, 'irr.sgz')
    mk_segy(sgy, rnd_cube(rng, (n_il, n_xl, ns)), range(1, 1 + n_il), range(20, 20 + n_xl), present=present)
    write_segy_sgz(sgy, p, bpv=4)
    files.append((p, 'segy irregular 6x7x30 (3 holes)', 'irr'))
    sgy = os.path.join(d, 'l2.sgy'); p = os.path.join(d, 'l2.sgz')
    mk_segy_2d(sgy, rnd_cube(rng, (21, 40)))
    write_segy_sgz(sgy, p, bpv=4)
    files.append((p, 'segy 2D 21x40', '2d'))
    fixtures = sorted(glob.glob(os.path.join(REPO, 'test_data', '*.sgz'))) + \
        [os.path.join(REPO, 'test_data', 'padding', n) for n in (['padding_7x6.sgz', 'padding_5x5.sgz'] if quick else
                                                                 sorted(os.listdir(os.path.join(REPO, 'test_data', 'padding'))))
         if n.endswith('.sgz')]
    for fx in fixtures:
        files.append((fx, 'fixture ' + os.path.basename(fx), 'fixture'))

    for path, label, kind in files:
        try:
            session_check(path, label, False, 4 if quick else 10)
            session_check(path, label, True, 4 if quick else 10)
            header_check(path, label)
            diagonal_check(path, label, 3 if quick else 8)
        except CoqEvalError:
            raise
        except Exception as e:
            if kind == 'fixture':
                R.notes.append(f'{label} skipped: {type(e).__name__}: {e}')
            else:
                raise
    inline_group_check(d)
    diagonal_window_check(d)
    if use_model and pending:
        vals = coq_eval(['SZ.Gen.Reader', 'SZ.Gen.OpenIO', 'SZ.Model.IOCost'], [t for t, _, _ in pending])
        for (term, chk, inp), v in zip(pending, vals):
            R.count('model evaluations')
            try:
                msg = chk(parse_value(v))
            except Exception as e:
                msg = f'cannot interpret the model value {v[:200]!r}: {type(e).__name__}: {e}'
            if msg:
                R.violation('corr', inp, msg)
finally:
    shutil.rmtree(d, ignore_errors=True)
R.write(a.out)
