#!/usr/bin/env python3
"""Harness for C20 (source-data hash).

correspondence ('corr'): conversion_utils.hashlib is wrapped in-process so that every hash_object.update() argument of a
    real conversion is recorded (shape + contents).  The recorded sequence is compared with the update plan of the Coq model
    (Model/Hash.v np_plan / sf_plan / s2_plan over the GENERATED Gen/Hash.v, evaluated inside Coq through coqeval) on the same
    shape and blockshape: number of updates, the (crosslines, samples) / (traces, samples) extent of each, and the source
    plane / first trace each one holds.  Also checked: exactly one sha1 object per conversion, and the bytes stored at
    960..979 are the SHA-1 of the concatenated update arguments (the streaming assumption of the model).
direct oracle ('oracle'; numpy + hashlib + segyio only, never the model): get_source_data_hash() ==
    hashlib.sha1(source float32 bytes).hexdigest() for the NumPy route, the SEG-Y route with the segyio reader, with
    reduce_iops=True, with a conversion window, complete unstructured (irregular-route) files, IEEE and IBM sample formats, all four header_detection modes, and 2D files; all bit rates / blockshapes of
    the layout table; one fixed source under every setting gives one hash; a single-sample perturbation changes the hash;
    SgzConverter.convert_to_adv_sgz leaves bytes 960..979 unchanged.
"""
import os, sys, json, time
sys.path.insert(0, os.path.dirname(os.path.abspath(__file__)))
from common import *
a = parse_args()
from hz import *
import hashlib as real_hashlib
import seismic_zfp.conversion_utils as cu
from coqeval import coq_eval, parse_value, CoqEvalError

quick = (a.tier == 'quick') and not a.search
BUDGET = 110 if quick else 700
R = Result('one case = one conversion (route x shape x bits_per_voxel x blockshape [x reader, sample format, window]) whose '
           'update sequence is compared with the Coq model and whose stored hash is compared with hashlib.sha1 of the source; '
           'or one perturbation pair; or one re-blocking.  non-trivial = distinct (route, shape, setting) with at least two '
           'plane sets / trace groups or a partial last one.  Shapes are drawn so that every residue mod 4 and the residues '
           '-1, 0, +1 (and small ones) mod each blockshape entry occur on every axis; 2D trace counts below, equal to, above '
           'and not a multiple of the group size')
rng = random.Random(a.seed + 2020)
T0 = time.time()


# ------------------------------------------------------------------ recording hashlib
class RecHash:
    def __init__(self, name, real):
        self.name, self.real, self.ups = name, real, []

    def update(self, x):
        arr = np.array(x, copy=True)
        self.ups.append(arr)
        self.real.update(x)

    def digest(self):
        return self.real.digest()

    def hexdigest(self):
        return self.real.hexdigest()


class HashlibShim:
    def __init__(self):
        self.recs = []

    def new(self, name, *args, **kw):
        r = RecHash(name, real_hashlib.new(name, *args, **kw))
        self.recs.append(r)
        return r

    def __getattr__(self, n):
        return getattr(real_hashlib, n)


SHIM = HashlibShim()
cu.hashlib = SHIM

LAYOUTS_3D = [
    (4, (4, 4, -1)), (8, (4, 4, -1)), (2, (4, 4, -1)), (1, (4, 4, -1)), (16, (4, 4, -1)), (0.5, (4, 4, -1)),
    (2, (64, 64, 4)), (4, (32, 64, 4)), (8, (32, 32, 4)), (0.5, (128, 128, 4)),
    (8, (8, 8, 64)), (4, (16, 16, 32)), (16, (8, 8, 32)), (1, (16, 16, 128)), (8, (4, 8, 128)), (4, (8, 4, 256)),
    (32, (4, 4, -1)), (0.25, (4, 4, -1)), (2, (8, 8, 256)),
]
# 2D: rates below 1 crash zfpy (D13) and are not used
LAYOUTS_2D = [(4, (1, 16, -1)), (8, (1, 4, -1)), (2, (1, 64, 256)), (16, (1, 16, 128)), (1, (1, 4, -1)), (4, (1, 256, 32)),
              (2, (1, 16, -1)), (8, (1, 8, -1))]


def axis_values(b, small_cap=None):
    """sizes >= 2 hitting every residue mod 4 and the interesting residues mod b"""
    vals = {2, 3, 4, 5, 6, 7, 9}
    if b > 4:
        vals |= {b - 2, b - 1, b, b + 1, b + 2, b + 3, 2 * b - 1, 2 * b, 2 * b + 1, 2 * b + 3}
    else:
        vals |= {8, 10, 11, 12, 13}
    vals = sorted(v for v in vals if v >= 2 and (small_cap is None or v <= small_cap))
    return vals


def data_of(seed, shape):
    g = np.random.RandomState(seed)
    x = g.standard_normal(shape).astype(np.float32)
    x *= np.float32(10.0) ** g.randint(-2, 4)
    return x


def plant_special(x, seed):
    """the hash is that of the source's float32 BIT PATTERNS: non-finite samples, signed zeros and denormals included (an
    IEEE SEG-Y or a NumPy array may hold any of them; what the codec makes of them is not this property's business)"""
    g = np.random.RandomState(seed ^ 0x5bd1e995)
    flat = x.reshape(-1)
    specials = np.array([np.nan, np.inf, -np.inf, -0.0, 1e-42, -1e-45], dtype=np.float32)
    pos = g.choice(flat.size, size=min(flat.size, len(specials)), replace=False)
    flat[pos] = specials[:len(pos)]
    return x


# ------------------------------------------------------------------ running one conversion
D = scratch_dir()


class SkipCase(Exception):
    pass


def convert(case, data):
    """runs the real conversion; returns (sgz path, recorder, source array as the converter sees it)"""
    route = case['route']
    p = os.path.join(D, 'out.sgz')
    n0 = len(SHIM.recs)
    bs = tuple(case['bs'])
    if route == 'numpy':
        write_numpy_sgz(p, data, bpv=case['bpv'], blockshape=bs)
        src = data
    else:
        sgy = os.path.join(D, 'in.sgy')
        idx = None
        if route == '2d':
            mk_segy_2d(sgy, data, fmt=case.get('fmt', 5))
        else:
            n_il, n_xl, _ = data.shape
            present = None
            if route == 'irregular':
                present = np.ones((n_il, n_xl), dtype=bool)
                for (hi_, hx_) in case.get('holes', []):
                    present[hi_, hx_] = False
            idx = mk_segy(sgy, data, list(range(10, 10 + 2 * n_il, 2)), list(range(300, 300 + 3 * n_xl, 3)),
                          fmt=case.get('fmt', 5), present=present)
        if route == 'irregular' and present is not None and not present.all():
            # known finding D27 (C08): segyio's count-only geometry inference takes some irregular surveys for regular
            # cubes; the converter then never enters the irregular route.  Such a file is not an irregular source for
            # this check (it is classified with segyio itself, as the converter does).
            try:
                with segyio.open(sgy) as probe:
                    taken_as_regular = True
            except Exception:
                taken_as_regular = False
            if taken_as_regular:
                os.remove(sgy)
                raise SkipCase('irregular survey taken as regular by segyio (D27, property C08)')
        # what segyio says the samples are (for IBM-format files the conversion to float32 is segyio's)
        with segyio.open(sgy, ignore_geometry=(route in ('2d', 'irregular'))) as f:
            raw = np.ascontiguousarray(f.trace.raw[:], dtype=np.float32)
        if route == 'irregular':
            src = np.zeros(data.shape, dtype=np.float32)      # the grid with absent traces left at zero
            for t, (i_, x_) in enumerate(idx):
                src[i_, x_] = raw[t]
        else:
            src = raw.reshape(data.shape)
        w = case.get('window')
        write_segy_sgz(sgy, p, bpv=case['bpv'], blockshape=bs, reduce_iops=(route == 'segy_rio'), window=w,
                       header_detection=case.get('hd', 'heuristic'))
        if w:
            src = np.ascontiguousarray(src[w[0]:w[1], w[2]:w[3], :])
        os.remove(sgy)
    recs = SHIM.recs[n0:]
    return p, recs, src


def stored_hash(p):
    with SgzReader(p) as r:
        hx = r.get_source_data_hash()
    raw = open(p, 'rb').read(1024)[960:980]
    # the reported hash is the same whichever way the reader was given the file: a blob client, an open file handle
    for how, handle in (('blob client', CountingBlob(p)), ('file handle', open(p, 'rb'))):
        try:
            with SgzReader(handle) as r2:
                h2 = r2.get_source_data_hash()
        finally:
            handle.close()
        if h2 != hx:
            R.violation('oracle', {'path': os.path.basename(p), 'reader given': how}, f'get_source_data_hash() through a {how} is {h2}, through the path {hx}')
    return hx, raw


def resolved_bs(case):
    f = szutils.define_blockshape_2d if case['route'] == '2d' else szutils.define_blockshape_3d
    return [int(v) for v in f(case['bpv'], tuple(case['bs']))[1]]


PENDING = []     # (case, model term, recorded summary, source) awaiting the model's plan


def model_term(case, shape, bs):
    if case['route'] == '2d':
        return f's2_plan {shape[0]} {shape[1]} {bs[0]} {bs[1]} {bs[2]}'
    dims = f'{shape[0]} {shape[1]} {shape[2]} {bs[0]} {bs[1]} {bs[2]}'
    if case['route'] == 'numpy':
        return f'np_plan {dims}'
    w = case.get('window') or [0, 0, 0, 0]
    # (irregular files go through the same producer loop; only the buffer fill differs)
    # (a conversion window that is not the whole file makes the producer fall back from the reduced-I/O reader to segyio)
    return f'sf_plan {dims} {w[0]} {w[2]} {"Minimal" if case["route"] == "segy_rio" and not case.get("window") else "Segyio"}'


def run_case(case, keep=False):
    """one conversion: oracle now, correspondence queued.  Returns the stored hash (hex) or None"""
    shape = tuple(case['shape'])
    data = data_of(case['seed'], shape)
    if case.get('special'):
        data = plant_special(data, case['seed'])
    if case.get('perturb'):
        pos, = [tuple(case['perturb'])]
        old = data[pos]
        new = np.nextafter(old, np.float32(np.inf)) if np.isfinite(old) else np.float32(1.0)
        data[pos] = new
    try:
        p, recs, src = convert(case, data)
    except SkipCase as e:
        R.count('skipped: ' + str(e))
        return None
    except Exception as e:
        R.violation('oracle', case, f'conversion raised {type(e).__name__}: {e}')
        return None
    hx, raw = stored_hash(p)
    want = real_hashlib.sha1(np.ascontiguousarray(src, dtype=np.float32).tobytes())
    bs = resolved_bs(case)
    eff_shape = src.shape
    if case['route'] == '2d':
        groups = -(-eff_shape[0] // bs[1])
        nontrivial = groups >= 2 or eff_shape[0] % bs[1] != 0
        R.count('2d traces %s group size' % ('<' if eff_shape[0] < bs[1] else '= k*' if eff_shape[0] % bs[1] == 0 else '> and not multiple of'))
    else:
        sets = -(-eff_shape[0] // bs[0])
        nontrivial = sets >= 2 or eff_shape[0] % bs[0] != 0
        R.count('3d inlines %s blockshape[0]' % ('<' if eff_shape[0] < bs[0] else '= k*' if eff_shape[0] % bs[0] == 0 else '> and not multiple of'))
        for ax in range(3):
            R.count(f'axis{ax} mod 4 = {eff_shape[ax] % 4}')
    R.count('route ' + case['route'] + (' ibm' if case.get('fmt') == 1 else '') + (' window' if case.get('window') else ''))
    if case.get('hd'):
        R.count('header_detection ' + case['hd'])
    R.count(f'setting bpv={case["bpv"]} bs={tuple(bs)}')
    R.case((case['route'], eff_shape, case['bpv'], tuple(bs), case.get('fmt', 5), tuple(case.get('window') or ())), nontrivial,
           sample={'case': case, 'hash': hx})
    # ---- direct oracle
    if case.get('holes'):
        # irregular file with absent traces: outside the theorems (and arguably outside the property: "cubes"); the
        # producer hashes the zero-filled grid.  Recorded, never a violation.
        R.count('irregular with holes: hash ' + ('== sha1(zero-filled grid)' if hx == want.hexdigest() else 'is something else'))
    elif hx != want.hexdigest() or raw != want.digest():
        R.violation('oracle', case, f'get_source_data_hash()={hx} bytes960..979={raw.hex()} but sha1(source float32 bytes)={want.hexdigest()}')
    # ---- plumbing part of the correspondence
    if len(recs) != 1 or recs[0].name.lower() not in ('sha1', 'sha-1'):
        R.violation('corr', case, f'expected one sha1 object per conversion, recorded {[r.name for r in recs]}')
    else:
        cat = real_hashlib.sha1(b''.join(u.astype(np.float32, copy=False).tobytes() if u.dtype == np.float32 else u.tobytes()
                                         for u in recs[0].ups)).digest()
        if cat != raw:
            R.violation('corr', case, 'stored bytes 960..979 are not the SHA-1 of the concatenated update arguments')
        if any(u.dtype != np.float32 for u in recs[0].ups):
            R.violation('corr', case, f'update argument dtypes {sorted({str(u.dtype) for u in recs[0].ups})}, model assumes float32')
        # (--no-model concerns the extracted OCaml driver; this model is evaluated by coqc)
        PENDING.append((case, model_term(case, eff_shape, bs), recs[0].ups, src))
    return hx


def check_pending():
    """evaluate the model's plans in Coq and compare with the recorded updates"""
    if not PENDING:
        return
    terms = sorted({t for _, t, _, _ in PENDING})
    try:
        vals = coq_eval(['SZ.Model.Hash'], terms)
    except CoqEvalError as e:
        R.violation('corr', {'terms': len(terms)}, 'model could not be evaluated (Gen/Hash.v or Model/Hash.v no longer compiles): ' + str(e)[-600:])
        R.notes.append('correspondence skipped: model does not compile')
        return
    plan_of = {t: parse_value(v) for t, v in zip(terms, vals)}
    for case, term, ups, src in PENDING:
        plan = plan_of[term]
        w = case.get('window') or [0, 0, 0, 0]
        if case['route'] == '2d':
            got = [(int(u.shape[0]), int(u.shape[1])) if u.ndim == 2 else tuple(u.shape) for u in ups]
            exp = [(int(r), int(z)) for (_, r, z) in plan]
            if got != exp:
                R.violation('corr', case, f'update extents differ: implementation {got[:6]}.. ({len(got)}) model {exp[:6]}.. ({len(exp)})')
                continue
            for (first, r, z), u in zip(plan, ups):
                idx = np.minimum(np.arange(first, first + r), src.shape[0] - 1)
                zz = np.minimum(np.arange(z), src.shape[1] - 1)
                if not np.array_equal(src[np.ix_(idx, zz)].view(np.uint32), u.view(np.uint32)):
                    R.violation('corr', case, f'update of group starting at trace {first}: contents differ from the traces the model names')
                    break
        else:
            got = [tuple(int(v) for v in u.shape) for u in ups]
            exp = [(int(x), int(z)) for (_, x, z) in plan]
            if got != exp:
                R.violation('corr', case, f'update extents differ: implementation {got[:6]}.. ({len(got)}) model {exp[:6]}.. ({len(exp)})')
                continue
            for (line, x, z), u in zip(plan, ups):
                li = min(max(line - w[0], 0), src.shape[0] - 1)
                xx = np.minimum(np.arange(x), src.shape[1] - 1)
                zz = np.minimum(np.arange(z), src.shape[2] - 1)
                if not np.array_equal(src[li][np.ix_(xx, zz)].view(np.uint32), u.view(np.uint32)):
                    R.violation('corr', case, f'update for source plane {line}: contents differ from the plane the model names')
                    break
    R.count('updates compared with the model', sum(len(u) for _, _, u, _ in PENDING))
    PENDING.clear()


def time_left():
    return BUDGET - (time.time() - T0)


# ------------------------------------------------------------------ case lists
def cases_3d():
    out = []
    k = 0
    layouts = LAYOUTS_3D
    for li, (bpv, bs) in enumerate(layouts):
        b = [int(v) for v in szutils.define_blockshape_3d(bpv, bs)[1]]
        A0, A1 = axis_values(b[0]), axis_values(b[1])
        A2 = axis_values(b[2], small_cap=(13 if b[2] > 64 else None))
        n_np = 8 if quick else 40
        for j in range(n_np):
            shape = [A0[(k * 5 + j * 3 + li) % len(A0)], A1[(k * 7 + j * 5 + 2 * li) % len(A1)], A2[(k * 3 + j) % len(A2)]]
            k += 1
            out.append(dict(route='numpy', shape=shape, bpv=bpv, bs=list(bs), seed=rng.randrange(2 ** 31)))
        # SEG-Y: keep the trace count moderate (file creation through segyio is the slow part)
        n_sg = 3 if quick else 12
        cap = 2500 if quick else 9000
        for j in range(n_sg):
            for tries in range(50):
                shape = [A0[(k * 5 + j + tries) % len(A0)], A1[(k * 3 + 2 * j + 3 * tries) % len(A1)], A2[(k + j) % len(A2)]]
                if shape[0] * shape[1] <= cap:
                    break
            else:
                shape = [5, 7, 6]
            k += 1
            sd = rng.randrange(2 ** 31)
            fmt = 1 if (k % 5 == 0) else 5
            # 'thorough' rewrites header bytes 64.. and 980.. before the hash is patched in; 'strip' writes no footer
            hd = ('heuristic', 'thorough', 'exhaustive', 'strip')[k % 4]
            for route in ('segy', 'segy_rio'):
                out.append(dict(route=route, shape=shape, bpv=bpv, bs=list(bs), seed=sd, fmt=fmt, hd=hd))
    # conversion windows (segyio reader; every bound non-zero, see D6): the source is the window
    for j in range(4 if quick else 30):
        bpv, bs = LAYOUTS_3D[(3 * j) % 6]
        n_il, n_xl, n_s = rng.randrange(7, 14), rng.randrange(7, 14), rng.randrange(2, 9)
        i0, x0 = rng.randrange(1, 4), rng.randrange(1, 4)
        i1, x1 = rng.randrange(i0 + 2, n_il + 1), rng.randrange(x0 + 2, n_xl + 1)
        out.append(dict(route='segy', shape=[n_il, n_xl, n_s], bpv=bpv, bs=list(bs), seed=rng.randrange(2 ** 31), window=[i0, i1, x0, x1]))
        if j % 2 == 0:
            # an inline-only window (every crossline kept), through both readers: the reduced-I/O reader must fall back or be
            # right; and a window starting at ordinal 0
            sd = rng.randrange(2 ** 31)
            for route in ('segy_rio', 'segy'):
                out.append(dict(route=route, shape=[n_il, n_xl, n_s], bpv=bpv, bs=list(bs), seed=sd, window=[i0, i1, 0, n_xl]))
            out.append(dict(route='segy_rio', shape=[n_il, n_xl, n_s], bpv=bpv, bs=list(bs), seed=sd, window=[0, i1 - 1, 0, x1]))
    # sources holding NaN, +-Inf, -0.0 and denormals (IEEE SEG-Y through both readers, NumPy arrays)
    for j in range(3 if quick else 12):
        bpv, bs = LAYOUTS_3D[(5 * j + 1) % 6]
        shape = [rng.randrange(4, 10), rng.randrange(4, 10), rng.randrange(5, 12)]
        out.append(dict(route=('numpy', 'segy', 'segy_rio')[j % 3], shape=shape, bpv=bpv, bs=list(bs), seed=rng.randrange(2 ** 31), special=1))
    # irregular (unstructured) SEG-Y: complete grids must satisfy the oracle; grids with absent traces are only recorded
    for j in range(4 if quick else 16):
        bpv, bs = LAYOUTS_3D[(2 * j) % 6]
        n_il, n_xl, n_s = rng.randrange(4, 11), rng.randrange(4, 11), rng.randrange(2, 9)
        holes = []
        if j % 2 == 1:
            holes = sorted({(rng.randrange(1, n_il - 1), rng.randrange(1, n_xl - 1)) for _ in range(3)} | {(0, 0)})
            holes = [list(h) for h in holes]
        out.append(dict(route='irregular', shape=[n_il, n_xl, n_s], bpv=bpv, bs=list(bs), seed=rng.randrange(2 ** 31), holes=holes))
    return out


def cases_2d():
    out = []
    k = 0
    for li, (bpv, bs) in enumerate(LAYOUTS_2D):
        b = [int(v) for v in szutils.define_blockshape_2d(bpv, bs)[1]]
        A1 = axis_values(b[1])
        A2 = axis_values(b[2], small_cap=(13 if b[2] > 64 else None))
        for j in range(4 if quick else 30):
            shape = [A1[(k * 5 + j * 3 + li) % len(A1)], A2[(k * 3 + j) % len(A2)]]
            k += 1
            out.append(dict(route='2d', shape=shape, bpv=bpv, bs=list(bs), seed=rng.randrange(2 ** 31), fmt=(1 if k % 6 == 0 else 5)))
    for j in range(1 if quick else 4):
        out.append(dict(route='2d', shape=[rng.randrange(5, 40), rng.randrange(5, 30)], bpv=8, bs=[1, 16, -1], seed=rng.randrange(2 ** 31), special=1))
    # the D3 witnesses
    for nt in (5, 16, 17, 21, 32, 33):
        out.append(dict(route='2d', shape=[nt, 40], bpv=4, bs=[1, 16, -1], seed=rng.randrange(2 ** 31)))
    return out


def run_invariance():
    """one source under every setting and route: one hash"""
    for shape, route_sets in (([9, 10, 6], [('numpy', LAYOUTS_3D), ('segy', LAYOUTS_3D[:6] if quick else LAYOUTS_3D),
                                            ('segy_rio', LAYOUTS_3D[6:10] if quick else LAYOUTS_3D)]),
                              ([21, 7], [('2d', LAYOUTS_2D)]),
                              # an irregular survey with absent traces in its first, third and fifth group of 4 inlines
                              # (whatever the hash of such a source is defined to be, it is one value for all blockshapes)
                              ([19, 6, 5], [('irregular', [(4, (4, 4, -1)), (8, (8, 8, 64)), (4, (16, 16, 32)), (8, (4, 8, 128)), (4, (8, 4, 256)), (16, (4, 4, -1))])])):
        sd = rng.randrange(2 ** 31)
        seen = {}
        for route, layouts in route_sets:
            for bpv, bs in layouts:
                if time_left() < 15:
                    R.notes.append('invariance sweep cut short by the time budget')
                    break
                c = dict(route=route, shape=shape, bpv=bpv, bs=list(bs), seed=sd)
                if route == 'irregular':
                    c['holes'] = [[0, 0], [2, 3], [9, 1], [10, 4], [13, 2], [17, 3], [18, 5]]
                h = run_case(c)
                if h is not None:
                    seen.setdefault(h, []).append((route, bpv, bs))
        R.count('invariance sweep settings', sum(len(v) for v in seen.values()))
        if len(seen) > 1:
            R.violation('oracle', {'shape': shape, 'seed': sd}, 'one source, different hashes under different settings: '
                        + json.dumps({h: v[:3] for h, v in seen.items()}, default=str)[:600])


def run_perturbations():
    n = 10 if quick else 100
    specs = []
    for j in range(n):
        kind = j % 4
        if kind == 3:
            bpv, bs = LAYOUTS_2D[j % len(LAYOUTS_2D)]
            b = [int(v) for v in szutils.define_blockshape_2d(bpv, bs)[1]]
            shape = [b[1] + rng.randrange(1, 6), rng.randrange(2, 9)]
            route = '2d'
        else:
            bpv, bs = LAYOUTS_3D[(j * 5) % len(LAYOUTS_3D)]
            b = [int(v) for v in szutils.define_blockshape_3d(bpv, bs)[1]]
            shape = [min(b[0], 16) + rng.randrange(1, 4), rng.randrange(2, 8), rng.randrange(2, 8)]
            route = ('numpy', 'segy', 'segy_rio')[kind]
        where = j % 5
        if where == 0:
            pos = [0] * len(shape)
        elif where == 1:
            pos = [v - 1 for v in shape]                       # last sample of the last trace (in the partial last set)
        elif where == 2:
            pos = [shape[0] - 1] + [0] * (len(shape) - 1)
        else:
            pos = [rng.randrange(v) for v in shape]
        specs.append(dict(route=route, shape=shape, bpv=bpv, bs=list(bs), seed=rng.randrange(2 ** 31)))
        specs[-1]['_pos'] = pos
    for c in specs:
        if time_left() < 10:
            R.notes.append('perturbation list cut short by the time budget')
            break
        pos = c.pop('_pos')
        h0 = run_case(dict(c))
        h1 = run_case(dict(c, perturb=pos))
        R.count('perturbation pairs')
        if h0 is not None and h1 is not None and h0 == h1:
            R.violation('oracle', dict(c, perturb=pos), f'hash {h0} unchanged although sample {pos} was changed by one ulp')


def run_reblock():
    shapes = [(6, 5, 3), (64, 64, 8), (65, 3, 9), (3, 70, 5), (61, 62, 5), (130, 67, 13), (9, 9, 1030), (2, 2, 2)]
    if not quick:
        shapes += [(rng.randrange(2, 140), rng.randrange(2, 140), rng.randrange(2, 20)) for _ in range(30)]
    for j, shape in enumerate(shapes):
        if time_left() < 5:
            R.notes.append('re-blocking list cut short by the time budget')
            break
        route = 'segy' if (j % 4 == 1 and shape[0] * shape[1] <= 5000) else 'numpy'
        c = dict(route=route, shape=list(shape), bpv=2, bs=[4, 4, -1], seed=rng.randrange(2 ** 31))
        h = run_case(c)
        if h is None:
            continue
        p = os.path.join(D, 'out.sgz')
        q = os.path.join(D, 'adv.sgz')
        R.case(('reblock', shape, route), True)
        R.count('re-blockings')
        try:
            with SgzConverter(p) as cv:
                quiet(cv.convert_to_adv_sgz, q)
        except Exception as e:
            # the re-blocker's own defects (D8) are C12's business; C20 only needs runs that finish
            R.notes.append(f're-blocker raised {type(e).__name__} for shape {shape} (not a C20 matter)')
            continue
        b1, b2 = open(p, 'rb').read(1024)[960:980], open(q, 'rb').read(1024)[960:980]
        with SgzReader(q) as r:
            hq = r.get_source_data_hash()
        if b1 != b2 or hq != h:
            R.violation('oracle', dict(c, reblock=True), f'hash before re-blocking {h}, after {hq}')
        os.remove(q)


def main():
    if a.replay:
        v = json.load(open(a.replay))
        c = v.get('input') or {}
        if 'route' in c:
            if c.get('reblock'):
                R.notes.append('replay of a re-blocking case: rerunning the conversion part')
            c = {k: c[k] for k in c if k != 'reblock'}
            if c.get('perturb'):
                h0 = run_case({k: c[k] for k in c if k != 'perturb'})
                h1 = run_case(c)
                if h0 == h1:
                    R.violation('oracle', c, f'hash {h0} unchanged by the perturbation')
            else:
                run_case(c)
            check_pending()
        R.write(a.out)
        return
    lst = cases_3d() + cases_2d()
    done = 0
    for c in lst:
        if time_left() < 45:
            R.notes.append(f'case list cut short by the time budget after {done} of {len(lst)} cases')
            break
        run_case(c)
        done += 1
        if len(PENDING) >= 250:
            check_pending()
    run_invariance()
    run_perturbations()
    run_reblock()
    check_pending()
    if any(k.startswith('irregular with holes') for k in R.distribution):
        R.notes.append('irregular SEG-Y with absent traces: the stored hash is the SHA-1 of the zero-filled inline/crossline grid '
                       '(recorded only; the theorems and the oracle cover complete grids and 2D sections)')
    R.write(a.out)


try:
    main()
finally:
    shutil.rmtree(D, ignore_errors=True)
