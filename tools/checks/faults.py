#!/usr/bin/env python3
"""Harness for C17 (I/O failures are reported, never turned into samples).

For files of every layout (default 4x4xN, z-slice 64x64x4, 8x8xN, 2D fast and general path, SEG-Y with footer arrays,
irregular SEG-Y with a mask) and every read method:
  * local backend: a fault-injecting file object (hz.CountingFile); for EVERY position k of the sequence of range reads the
    call issues x {exception, short read, empty read}, plus random pairs of faults, plus faults in the constructor;
  * remote backend: a fake blob client (20 workers) whose range reads COMPLETE in an order chosen by the harness
    (random permutations), with and without faults.
direct oracle (no model): the call raises, or returns bitwise the true data; a retry on the same reader after the fault
  has gone returns the true data (no poisoned state).
failure atomicity (both backends): on a fresh reader, after the faulted call has ended, a sequence of OTHER fault-free
  calls on the same reader / handle -- first the calls whose range read starts exactly where the failed read would have
  ended (found from the recorded read plans of the base calls shifted by one item / 4-unit / block along each axis and of
  every stored header array), then the failed call again, then calls with unrelated byte ranges -- must each return the
  true data (a failed read leaves nothing behind in the reader, the loader caches or the file handle's position).
remote backend with preload (SgzReader(<blob client>, preload=True)), every file plus one with a data section of ~10 MiB (a
  preload split into ranges by size or per worker then issues several requests): the constructor's requests complete
  lowest-range-first / highest-range-first / in random orders; a reader that is returned must serve EVERY read call with
  what the local reader returns (whole volume also against the specification decoder SpecFile); exc / short / empty on
  the k-th request to arrive during construction, for every k: the constructor raises, or no later call returns
  different data.
time warp (both backends; crossline, z-slice default and 64x64x4 layout, sub-volume by chunk range and by unshuffled
  blocks, preloading constructor): while these cases run, every waiting primitive that takes a timeout
  (concurrent.futures.wait / as_completed / Future.result, queue get / put, Event / Condition / Semaphore / Barrier
  waits, Thread.join; classes patched in place, plus every binding inside seismic_zfp modules) gives up after 0.2 s at
  most, and ONE range read of the call is a straggler: held 0.6 s, then it fails (exc / short / empty) -> the call must
  raise, or it succeeds -> the call must return the true data. Code that waits without timeouts is not affected (the
  number of timeouts shortened is reported in the notes; 0 on the unchanged library).
correspondence: the model's verdict (Model/Faults.v predict_raises_file / predict_raises_blob evaluated inside Coq on
  the recorded read plan, file length and fault assignment) must equal "the implementation raised".
"""
import os, sys, threading, itertools, queue
import concurrent.futures, concurrent.futures._base
sys.path.insert(0, os.path.dirname(os.path.abspath(__file__)))
from common import *
a = parse_args()
from hz import *
from coqeval import coq_eval, parse_value, zlit

R = Result('one case = (file layout, backend, read method + arguments, fault assignment or completion order); non-trivial = a '
           'case with at least one injected fault on a range read the call really issues, or a non-identity completion '
           'order; every position of every read plan x {exception, short, empty}, random pairs, constructor faults, '
           'random permutations of the blob completions; after a faulted call, fault-free follow-up calls on the same '
           'reader (byte range contiguous with the failed read, the same call, unrelated ranges); preloading blob readers '
           'under fixed and random completion orders and a fault on every constructor request; straggler requests '
           '(slow, then failing or succeeding) with all library timeouts shortened')
rng = random.Random(a.seed * 104729 + 17)
QUICK = a.tier != 'thorough'
d = scratch_dir()
KINDS = ('exc', 'short', 'empty')
# follow-up calls after a failed call: how many contiguous / unrelated ones, and the share of failed reads WITHOUT a
# contiguous candidate that still get an (unrelated, same) follow-up sequence
N_CONTIG, N_OTHER = (2, 1) if QUICK and not a.search else (3, 2)
P_NO_CONTIG = 1.0 if not QUICK else 0.5 if a.search else 0.25
P_BLOB_FOLLOW = 1.0 if a.search else 0.5       # quick tier: share of the blob fault cases that get a follow-up sequence
REAL_SLEEP = time.sleep                        # the harness's own delays never go through a warped primitive
WARP_S, STRAGGLER_S = 0.2, 0.6                 # time warp: every positive timeout becomes <= WARP_S; a straggler is held STRAGGLER_S


# ------------------------------------------------------------------------------------------------ files
def build_files():
    F = []
    c = rnd_cube(rng, (9, 10, 20))
    p = os.path.join(d, 'np_default.sgz'); write_numpy_sgz(p, c, bpv=8); F.append(('np_default', p, '3d'))
    c = rnd_cube(rng, (70, 9, 9))
    p = os.path.join(d, 'np_zslice.sgz'); write_numpy_sgz(p, c, bpv=2, blockshape=(64, 64, 4)); F.append(('np_zslice', p, '3d'))
    c = rnd_cube(rng, (9, 10, 20))
    p = os.path.join(d, 'np_88.sgz'); write_numpy_sgz(p, c, bpv=4, blockshape=(8, 8, -1)); F.append(('np_88', p, '3d'))
    c = rnd_cube(rng, (5, 6, 20))
    s = os.path.join(d, 'reg.sgy'); mk_segy(s, c, 10 + 2 * np.arange(5), 100 + 3 * np.arange(6))
    p = os.path.join(d, 'segy_reg.sgz'); write_segy_sgz(s, p, bpv=4); F.append(('segy_reg', p, '3d'))
    c = rnd_cube(rng, (5, 6, 20))
    present = np.ones((5, 6), dtype=bool); present[0, 0] = present[2, 3] = present[4, 5] = False
    s = os.path.join(d, 'irr.sgy'); mk_segy(s, c, 10 + np.arange(5), 100 + np.arange(6), present=present)
    p = os.path.join(d, 'segy_irr.sgz'); write_segy_sgz(s, p, bpv=4); F.append(('segy_irr', p, '3d'))
    c2 = rnd_cube(rng, (21, 30))
    s = os.path.join(d, 'l2d.sgy'); mk_segy_2d(s, c2)
    p = os.path.join(d, '2d_16.sgz'); write_segy_sgz(s, p, bpv=4); F.append(('2d_16', p, '2d'))
    p = os.path.join(d, '2d_4.sgz'); write_segy_sgz(s, p, bpv=4, blockshape=(1, 4, -1)); F.append(('2d_4', p, '2d'))
    if not QUICK:
        c = rnd_cube(rng, (13, 17, 40))
        p = os.path.join(d, 'np_default_b.sgz'); write_numpy_sgz(p, c, bpv=4); F.append(('np_default_b', p, '3d'))
        c = rnd_cube(rng, (70, 70, 6))
        p = os.path.join(d, 'np_zslice_b.sgz'); write_numpy_sgz(p, c, bpv=2, blockshape=(64, 64, 4)); F.append(('np_zslice_b', p, '3d'))
        s = os.path.join(d, 'reg.sgy')
        p = os.path.join(d, 'segy_thorough.sgz'); write_segy_sgz(s, p, bpv=4, header_detection='thorough'); F.append(('segy_thorough', p, '3d'))
    return F


def canon(v):
    if isinstance(v, np.ndarray):
        return ('nd', v.dtype.str, v.shape, np.ascontiguousarray(v).tobytes())
    if isinstance(v, dict):
        return ('dict', tuple(sorted((int(k), canon(x)) for k, x in v.items())))
    if isinstance(v, (list, tuple)):
        return ('seq', tuple(canon(x) for x in v))
    if isinstance(v, (bytes, bytearray)):
        return ('bytes', bytes(v))
    if isinstance(v, (np.integer, int)):
        return ('int', int(v))
    if isinstance(v, (np.floating, float)):
        return ('float', float(v).hex())
    if isinstance(v, str) or v is None:
        return ('s', v)
    return ('repr', repr(v))


def calls_for(path, kind):
    r = SgzReader(path)
    C = []
    if kind == '3d':
        ni, nx, ns, tc = r.n_ilines, r.n_xlines, r.n_samples, r.tracecount
        C += [('read_inline', (ni // 2,)), ('read_inline', (ni - 1,)), ('read_crossline', (nx - 1,)), ('read_crossline', (1,)),
              ('read_zslice', (ns // 2,)), ('read_zslice', (ns - 1,)), ('read_volume', ()),
              ('read_subvolume', (1, min(ni, 6), 2, min(nx, 7), 3, min(ns, 9))),
              ('get_trace', (tc // 2,)), ('get_trace', (tc - 1, 2, min(ns, 7))),
              ('read_correlated_diagonal', (0,)), ('read_anticorrelated_diagonal', (nx - 1,)),
              ('read_correlated_diagonal', (1, 1, 3, 2, min(ns, 9)))]
    else:
        tc, ns = r.tracecount, r.n_samples
        C += [('get_trace', (0,)), ('get_trace', (tc - 1,)), ('read_subplane', (1, tc - 2, 2, ns - 1)), ('read_subplane', (0, tc, 0, ns))]
    if r.stored_header_keys:
        k0 = int(r.stored_header_keys[0]); k1 = int(r.stored_header_keys[-1])
        C += [('gen_trace_header', (0,)), ('gen_trace_header', (tc - 1,)), ('gen_trace_header_all', (tc // 2,)),
              ('get_tracefield_values', (k0,)), ('get_tracefield_values', (k1,)), ('read_variant_headers', ()),
              ('get_tracefield_1d', (k1,))]
    else:
        C += [('gen_trace_header', (0,))]
    r.close()
    return C


def neighbour_calls(path, kind, base):
    """the base calls shifted by one item / one 4-unit / one block along each axis, and every stored header array: the
    follow-up candidates for the failure-atomicity class (which of them have a byte range that abuts a failed read is
    read off the recorded read plans, never assumed)"""
    r = SgzReader(path)
    bs = [abs(int(b)) for b in r.blockshape]
    tc, ns = r.tracecount, r.n_samples
    out = []

    def shifts(v, lo, hi, steps):
        return [v + sg * s for s in sorted(set(steps)) for sg in (-1, 1) if s > 0 and lo <= v + sg * s < hi]

    for name, args in base:
        if kind == '3d':
            ni, nx = r.n_ilines, r.n_xlines
            if name == 'read_inline':
                out += [(name, (v,)) for v in shifts(args[0], 0, ni, (1, 4, bs[0]))]
            elif name == 'read_crossline':
                out += [(name, (v,)) for v in shifts(args[0], 0, nx, (1, 4, bs[1]))]
            elif name == 'read_zslice':
                out += [(name, (v,)) for v in shifts(args[0], 0, ns, (1, 4, bs[2]))]
            elif name == 'get_trace':
                out += [(name, (v,) + tuple(args[1:])) for v in shifts(args[0], 0, tc, (1, 4, bs[1], nx, 4 * nx))]
            elif name == 'read_subvolume':
                i0, i1, x0, x1, z0, z1 = args
                for s in (4, bs[0]):
                    if i1 + s <= ni:
                        out.append((name, (i0 + s, i1 + s, x0, x1, z0, z1)))
                for s in (4, bs[1]):
                    if x1 + s <= nx:
                        out.append((name, (i0, i1, x0 + s, x1 + s, z0, z1)))
                for s in (4, bs[2]):
                    if z1 + s <= ns:
                        out.append((name, (i0, i1, x0, x1, z0 + s, z1 + s)))
        else:
            if name == 'get_trace':
                out += [(name, (v,) + tuple(args[1:])) for v in shifts(args[0], 0, tc, (1, 4, bs[1]))]
            elif name == 'read_subplane':
                t0, t1, z0, z1 = args
                for s in (1, 4, bs[1]):
                    if t1 + s <= tc:
                        out.append((name, (t0 + s, t1 + s, z0, z1)))
                for s in (4, bs[2]):
                    if z1 + s <= ns:
                        out.append((name, (t0, t1, z0 + s, z1 + s)))
        if name == 'gen_trace_header':
            out += [(name, (v,)) for v in shifts(args[0], 0, tc, (1,))]
    for k in r.stored_header_keys:
        out.append(('get_tracefield_values', (int(k),)))
    r.close()
    seen = set(base)
    res = []
    for c in out:
        if c not in seen:
            seen.add(c)
            res.append(c)
    return res


class Pool:
    """fault-free result and read plan of every candidate follow-up call of one file on one backend"""
    def __init__(self, path, kind, opener, plan_of):
        self.base = calls_for(path, kind)
        self.entries = []                     # (name, args, want, plan)
        for name, args in self.base + neighbour_calls(path, kind, self.base):
            h = opener(path)
            r = SgzReader(h)
            n0 = len(plan_of(h))
            try:
                want = canon(do_call(r, name, args))
            except Exception:
                # base calls: reported by the main loop; shifted calls: not a statement about I/O failures
                r.close()
                continue
            self.entries.append((name, args, want, list(plan_of(h)[n0:])))
            r.close()

    def followers(self, name, args, failed, n_contig, n_other):
        """([calls whose read plan has a range read starting where the failed read (off, length) would have ended --
        first range read of the call preferred], [calls with no such read]); never the failed call itself"""
        end = failed[0] + failed[1]
        first, later, other = [], [], []
        for e in self.entries:
            if (e[0], e[1]) == (name, args) or not e[3]:
                continue
            if e[3][0][0] == end:
                first.append(e)
            elif any(o == end for o, _ in e[3]):
                later.append(e)
            elif all(o + l <= failed[0] or failed[0] + failed[1] <= o for o, l in e[3]):
                other.append(e)
        rng.shuffle(first); rng.shuffle(later); rng.shuffle(other)
        return (first + later)[:n_contig], other[:n_other]


def raises_fault_free(fresh, calls, exc_type):
    r = fresh()
    try:
        for name, args in calls[:-1]:
            try:
                do_call(r, name, tuple(args))
            except Exception:
                pass
        try:
            do_call(r, calls[-1][0], tuple(calls[-1][1]))
        except Exception as e:
            return type(e) is exc_type
        return False
    finally:
        r.close()


def follow_ups(r, label, backend, info, failed, contig, other, same, fresh):
    """the faulted call on reader r has just ended (it raised, or returned: checked by the caller) and the fault script is
    empty now: every later call on r must return the true data -- first the calls whose byte range is contiguous with the
    failed read, then the failed call itself, then unrelated calls (failure atomicity: a failed read leaves no trace in
    the reader, the loader's caches or the file handle)"""
    seq = [(e, 'contiguous') for e in contig] + [(same, 'same')] + [(e, 'unrelated') for e in other]
    if not contig:
        seq = [(e, 'unrelated') for e in other] + [(same, 'same')]
    done = []
    for (name, args, want, plan), rel in seq:
        inp = dict(info, after_failed_call=True, failed_read=list(failed), follow_up=[name, list(args)], relation=rel,
                   follow_up_first_read=list(plan[0]) if plan else None, calls_since_failure=list(done))
        try:
            got = canon(do_call(r, name, args))
            if got != want:
                R.violation('oracle', inp,
                            f'after a call that failed in the range read [{failed[0]}, {failed[0] + failed[1]}), a fault-free '
                            f'{name}{tuple(args)} on the same reader ({rel}'
                            + (f': its range read starts at byte {failed[0] + failed[1]}, where the failed one would have ended' if rel == 'contiguous' else '')
                            + ') returned data that differs from the true data without raising')
        except Exception as e:
            # some call sequences raise with no I/O fault anywhere (a header array cached in one padding mode and then
            # asked for in the other): not a statement about I/O failures if the same calls raise the same way on a
            # fault-free reader, with the failed call either never made or made successfully
            if any(raises_fault_free(fresh, pre + done + [[name, list(args)]], type(e))
                   for pre in ([], [[same[0], list(same[1])]])):
                R.count(f'{backend}_followup_raises_fault_free_too')
            else:
                R.violation('oracle', inp, f'after a failed call, a fault-free {name}{tuple(args)} on the same reader ({rel}) '
                                           f'raised {type(e).__name__}: {e}')
        done.append([name, list(args)])
        R.count(f'{backend}_followup_{rel}')
    sample = None
    if contig and backend not in FOLLOWUP_SAMPLED:
        FOLLOWUP_SAMPLED.add(backend)
        sample = dict(info, failed_read=list(failed), follow_ups=[[e[0], list(e[1]), rel] for e, rel in seq])
    R.case((backend + '-followup', label, info['call'], tuple(info['args']), tuple(map(tuple, info['fault'])),
            tuple((e[0], e[1]) for e, _ in seq)), sample=sample)


FOLLOWUP_SAMPLED = set()


def do_call(r, name, args):
    if name == 'gen_trace_header_all':
        return r.gen_trace_header(args[0], load_all_headers=True)
    if name == 'read_variant_headers':
        r.read_variant_headers()
        return dict(r.variant_headers)
    return getattr(r, name)(*args)


def open_summary(r):
    """what a successful constructor determined (for faults inside the constructor)"""
    return canon([r.n_ilines if r.is_3d else 0, r.n_xlines if r.is_3d else 0, r.n_samples, r.tracecount, list(r.blockshape),
                  float(r.rate), bytes(r.file_text_header), bytes(r.file_binary_header), r.get_source_data_hash(),
                  r.compressed_data_diskblocks, [int(k) for k in r.stored_header_keys]])


def zanswer(kind, length):
    if kind == 'exc':
        return 'ZFail'
    if kind == 'empty':
        return 'ZShort 0'
    return f'ZShort {max(0, length - 1 - (length // 3))}'


MODEL_CASES = []      # (term, expected impl_raised, info)


def model_case(backend, L, fa, plan, impl_raised, info):
    """fa: list of (position, kind)"""
    fl = '[' + '; '.join(f'({k}, {zanswer(kind, plan[k][1])})' for k, kind in fa if k < len(plan)) + ']'
    pl = '[' + '; '.join(f'({o}, {l})' for o, l in plan) + ']'
    MODEL_CASES.append((f'predict_raises_{backend} {L} {fl} {pl}', impl_raised, info))


# ------------------------------------------------------------------------------------------------ local backend
def run_local(label, path, kind):
    L = os.path.getsize(path)
    # constructor: faults on each of its range reads
    f0 = CountingFile(path)
    r0 = SgzReader(f0)
    n_open = f0.n
    open_plan = list(f0.all)
    want_open = open_summary(r0)
    r0.close()
    for pre in (False, True):
        fp = CountingFile(path)
        rp = SgzReader(fp, preload=pre)
        plan_p = list(fp.all)
        rp.close()
        for k in range(len(plan_p)):
            for fk in KINDS:
                f = CountingFile(path, faults={k: fk})
                info = {'file': label, 'backend': 'file', 'call': 'SgzReader' + ('(preload)' if pre else ''), 'fault': [[k, fk]]}
                raised = True
                try:
                    r = SgzReader(f, preload=pre)
                    raised = False
                    if open_summary(r) != want_open:
                        R.violation('oracle', info, 'constructor returned a reader with different header values under an I/O fault')
                    elif pre and not bits_equal(r.read_volume() if kind == '3d' else r.get_trace(0), SgzReader(path).read_volume() if kind == '3d' else SgzReader(path).get_trace(0)):
                        R.violation('oracle', info, 'preloaded reader returns different samples after a faulty preload')
                except Exception as e:
                    pass
                R.case(('open', label, pre, k, fk), sample=info if k == 0 and fk == 'short' else None)
                R.count('constructor_fault')
                model_case('file', L, [(k, fk)], plan_p, raised, info)
    # read methods
    pool = Pool(path, kind, CountingFile, lambda h: h.all)
    for name, args in pool.base:
        f = CountingFile(path)
        r = SgzReader(f)
        n0 = f.n
        try:
            want = canon(do_call(r, name, args))
        except Exception as e:
            R.violation('oracle', {'file': label, 'backend': 'file', 'call': name, 'args': list(args)},
                        f'fault-free call raised {type(e).__name__}: {e}')
            continue
        plan = f.all[n0:]
        r.close()
        K = len(plan)
        info0 = {'file': label, 'backend': 'file', 'call': name, 'args': list(args), 'reads': K}
        R.count('plan_len_' + ('0' if K == 0 else '1' if K == 1 else '2-9' if K < 10 else '10+'))
        model_case('file', L, [], plan, False, dict(info0, fault=[]))
        positions = list(range(K))
        if QUICK and K > 24:
            positions = sorted(set(list(range(6)) + list(range(K - 6, K)) + rng.sample(range(K), 12)))
        assignments = [[(k, fk)] for k in positions for fk in KINDS]
        n_pairs = min(12 if QUICK else 40, K * (K - 1) // 2)
        for _ in range(n_pairs):
            k1, k2 = sorted(rng.sample(range(K), 2))
            assignments.append([(k1, rng.choice(KINDS)), (k2, rng.choice(KINDS))])
        for fa in assignments:
            f = CountingFile(path)
            r = SgzReader(f)
            base = f.n
            f.faults = {base + k: fk for k, fk in fa}
            info = dict(info0, fault=[[k, fk] for k, fk in fa])
            raised = False
            try:
                got = canon(do_call(r, name, args))
                if got != want:
                    R.violation('oracle', info, 'the call returned data that differs from the true data instead of raising')
            except Exception as e:
                raised = True
            model_case('file', L, fa, plan, raised, info)
            # the fault has gone: the same reader must now deliver the true data
            f.faults = {}
            try:
                again = canon(do_call(r, name, args))
                if again != want:
                    R.violation('oracle', dict(info, retry=True), 'after a failed call the same reader returns different data (poisoned state)')
            except Exception as e:
                R.violation('oracle', dict(info, retry=True), f'after a failed call the same reader keeps raising {type(e).__name__}: {e}')
            r.close()
            R.case(('file', label, name, args, tuple(fa)), sample=info if len(R.samples) < 3 else None)
            R.count('local_fault' if len(fa) == 1 else 'local_pair')
            # failure atomicity: a fresh reader, the same faulted call, then OTHER fault-free calls on that reader
            failed = plan[fa[0][0]]
            contig, other = pool.followers(name, args, failed, N_CONTIG, N_OTHER)
            if not contig and rng.random() >= P_NO_CONTIG:
                continue
            f = CountingFile(path)
            r = SgzReader(f)
            f.faults = {f.n + k: fk for k, fk in fa}
            try:
                do_call(r, name, args)
            except Exception:
                pass
            f.faults = {}
            follow_ups(r, label, 'file', info, failed, contig, other, (name, args, want, plan),
                       lambda: SgzReader(CountingFile(path)))
            r.close()


# ------------------------------------------------------------------------------------------------ blob backend
class FakeBlob:
    """stand-in for azure BlobClient: download_blob(offset, length).readall(); completions are released one at a time in
    an order drawn from `order_rng` among the requests in flight (controlled=True; any object with a choice(list) method:
    a random.Random, or Pick(-1) = the highest range in flight completes first), faults keyed by (offset, length);
    `slow` {(offset, length): seconds} holds a request that long before it completes or fails (a straggler);
    `by_ordinal` {k: (seconds, fault kind or None)} does both for the k-th request to ARRIVE, whatever its range"""
    def __init__(self, path, order_rng=None, faults=None, slow=None, by_ordinal=None):
        self.blob_name = path
        self.data = open(path, 'rb').read()
        self.cv = threading.Condition()
        self.pending = []
        self.turn = None
        self.order = []            # completion order
        self.arrivals = []
        self.faults = dict(faults or {})
        self.order_rng = order_rng
        self.max_inflight = 0
        self.slow = dict(slow or {})
        self.by_ordinal = dict(by_ordinal or {})
        self.n_req = 0

    def download_blob(self, offset=None, length=None):
        if length is None:          # Azure API: no length = to the end of the blob; book-kept as the range it denotes
            offset = offset or 0
            length = max(0, len(self.data) - offset)
        return _Download(self, offset, length)

    def close(self):
        pass

    def _serve(self, off, length):
        with self.cv:
            k = self.n_req
            self.n_req += 1
            hold, kind_k = self.by_ordinal.pop(k, (0, None))
            hold = max(hold, self.slow.pop((off, length), 0))
        if self.order_rng is not None:
            me = object()
            with self.cv:
                self.pending.append((off, length, me))
                self.arrivals.append((off, length))
                self.cv.notify_all()
                while self.turn is not me:
                    if self.turn is None:
                        n = len(self.pending)
                        self.cv.wait(timeout=0.002)
                        if self.turn is None and len(self.pending) == n:
                            self.max_inflight = max(self.max_inflight, n)
                            choice = self.order_rng.choice(sorted(self.pending, key=lambda t: (t[0], t[1])))
                            self.turn = choice[2]
                            self.cv.notify_all()
                    else:
                        self.cv.wait(timeout=0.05)
                self.pending = [t for t in self.pending if t[2] is not me]
                self.order.append((off, length))
                self.turn = None
                self.cv.notify_all()
        else:
            with self.cv:
                self.order.append((off, length))
        kind = kind_k
        with self.cv:
            if kind is None and (off, length) in self.faults:
                kind = self.faults.pop((off, length))
        if hold:
            REAL_SLEEP(hold)
        if kind == 'exc':
            raise ConnectionError('injected blob failure')
        data = self.data[off:] if length is None else self.data[off:off + length]     # length=None: to the end of the blob (Azure API)
        if kind == 'short':
            data = data[:max(0, len(data) - 1 - (len(data) // 3))]
        elif kind == 'empty':
            data = b''
        return data


class Pick:
    """completion policy for the controlled FakeBlob: always the i-th of the requests in flight sorted by (offset, length)"""
    def __init__(self, i):
        self.i = i

    def choice(self, xs):
        return xs[self.i]


class SlowCountingFile(CountingFile):
    """hz.CountingFile whose read number k is held `slow[k]` seconds before it completes or fails (a straggler)"""
    def __init__(self, path, faults=None, slow=None):
        CountingFile.__init__(self, path, faults=faults)
        self.slow = dict(slow or {})

    def read(self, length=-1):
        hold = self.slow.get(self.n, 0)
        if hold:
            REAL_SLEEP(hold)
        return CountingFile.read(self, length)


class _Download:
    def __init__(self, blob, off, length):
        self.blob, self.off, self.length = blob, off, length

    def readall(self):
        return self.blob._serve(self.off, self.length)


def run_blob(label, path, kind):
    L = os.path.getsize(path)
    pool = Pool(path, kind, FakeBlob, lambda h: h.order)
    for name, args in pool.base:
        b = FakeBlob(path)
        r = SgzReader(b)
        assert r.local is False and r.loader.n_workers == 20
        n0 = len(b.order)
        try:
            want = canon(do_call(r, name, args))
        except Exception as e:
            R.violation('oracle', {'file': label, 'backend': 'blob', 'call': name, 'args': list(args)},
                        f'fault-free call on the blob backend raised {type(e).__name__}: {e}')
            continue
        plan = b.order[n0:]
        K = len(plan)
        info0 = {'file': label, 'backend': 'blob', 'call': name, 'args': list(args), 'reads': K}
        # (a) completion orders, no fault
        for t in range(2 if QUICK else 6):
            orng = random.Random(rng.randrange(2 ** 30))
            b = FakeBlob(path, order_rng=orng)
            r = SgzReader(b)
            n0 = len(b.order)
            info = dict(info0, order_seed=t)
            try:
                got = canon(do_call(r, name, args))
                if got != want:
                    R.violation('oracle', dict(info, completion_order=b.order[n0:]), 'result depends on the completion order of the range reads')
            except Exception as e:
                R.violation('oracle', dict(info, completion_order=b.order[n0:]), f'fault-free call raised {type(e).__name__}: {e}')
            comp = b.order[n0:]
            if sorted(comp) != sorted(plan):
                R.violation('corr', info, f'set of range reads differs between runs: {sorted(comp)[:4]} vs {sorted(plan)[:4]}')
            R.case(('blob-order', label, name, args, tuple(comp)), nontrivial=(comp != sorted(comp) or b.max_inflight > 1), sample=None)
            R.count('blob_order')
            R.count('blob_max_inflight_%d' % min(b.max_inflight, 20))
        model_case('blob', L, [], plan, False, dict(info0, fault=[]))
        # (b) faults at every position (uncontrolled timing), and with a controlled order for a sample of them
        positions = list(range(K))
        if K > (8 if QUICK else 40):
            positions = sorted(set(list(range(3)) + list(range(K - 3, K)) + rng.sample(range(K), 4 if QUICK else 20)))
        # positions are positions in the sequential listing `plan`; ranges inside one call are distinct
        distinct = len(set(plan)) == len(plan)
        for k in positions:
            for fk in KINDS:
                controlled = (rng.random() < (0.25 if QUICK else 0.5))
                b = FakeBlob(path, order_rng=random.Random(rng.randrange(2 ** 30)) if controlled else None)
                r = SgzReader(b)
                b.faults = {plan[k]: fk}
                info = dict(info0, fault=[[k, fk]], range=list(plan[k]), controlled=controlled)
                raised = False
                try:
                    got = canon(do_call(r, name, args))
                    if got != want:
                        R.violation('oracle', info, 'the call returned data that differs from the true data instead of raising')
                except Exception as e:
                    raised = True
                if distinct:
                    model_case('blob', L, [(k, fk)], plan, raised, info)
                b.faults = {}
                try:
                    again = canon(do_call(r, name, args))
                    if again != want:
                        R.violation('oracle', dict(info, retry=True), 'after a failed call the same reader returns different data')
                except Exception as e:
                    R.violation('oracle', dict(info, retry=True), f'after a failed call the same reader keeps raising {type(e).__name__}')
                R.case(('blob', label, name, args, k, fk), sample=info if len(R.samples) < 6 else None)
                R.count('blob_fault')
                # failure atomicity on the blob backend: a fresh reader, the faulted call, then other fault-free calls
                contig, other = pool.followers(name, args, plan[k], N_CONTIG, N_OTHER)
                if rng.random() >= (1.0 if not QUICK else P_BLOB_FOLLOW if contig else P_BLOB_FOLLOW * P_NO_CONTIG):
                    continue
                b = FakeBlob(path)
                r = SgzReader(b)
                b.faults = {plan[k]: fk}
                try:
                    do_call(r, name, args)
                except Exception:
                    pass
                b.faults = {}
                follow_ups(r, label, 'blob', dict(info0, fault=[[k, fk]]), plan[k], contig, other, (name, args, want, plan),
                           lambda: SgzReader(FakeBlob(path)))
    # constructor on the blob backend
    b = FakeBlob(path)
    r = SgzReader(b)
    plan_o = list(b.order)
    want_open = open_summary(r)
    for k in range(len(plan_o)):
        for fk in KINDS:
            b = FakeBlob(path)
            # the two constructor reads have the same offset: key the fault on the k-th request
            seen = {'n': 0}
            orig = b._serve

            def serve(off, length, _k=k, _fk=fk, _seen=seen, _orig=orig, _b=b):
                i = _seen['n']; _seen['n'] += 1
                if i == _k:
                    _b.faults[(off, length)] = _fk
                return _orig(off, length)
            b._serve = serve
            info = {'file': label, 'backend': 'blob', 'call': 'SgzReader', 'fault': [[k, fk]]}
            raised = True
            try:
                r = SgzReader(b)
                raised = False
                if open_summary(r) != want_open:
                    R.violation('oracle', info, 'constructor returned a reader with different header values under an I/O fault')
            except Exception:
                pass
            model_case('blob', L, [(k, fk)], plan_o, raised, info)
            R.case(('blob-open', label, k, fk))
            R.count('constructor_fault')


def local_sequence(path, calls, preload=False):
    """outcome of the calls made one after the other on ONE local reader opened from the plain path: the reference for a
    reader that serves the same calls from a preloaded copy (('value', canon) | ('raise', exception type) per call)"""
    r = SgzReader(path, preload=preload)
    out = []
    for name, args in calls:
        try:
            out.append(('value', canon(do_call(r, name, args))))
        except Exception as e:
            out.append(('raise', type(e)))
    r.close()
    return out


def spec_volume(path, kind):
    """(call, canon of the true samples) from the specification decoder (no reader, no loader)"""
    sp = SpecFile(path)
    if kind == '3d':
        return ('read_volume', ()), canon(np.ascontiguousarray(sp.volume()[:sp.n_il, :sp.n_xl, :sp.n_s]))
    return ('read_subplane', (0, sp.tracecount, 0, sp.n_s)), canon(np.ascontiguousarray(sp.volume()[:sp.tracecount, :sp.n_s]))


def check_calls(r, calls, ref, spec, info, faulty):
    """every call on reader r against the reference sequence (and the whole volume against the specification decoder);
    faulty: an injected fault preceded, so a call may also raise -- but it may never return different data"""
    for (name, args), (tag, val) in zip(calls, ref):
        inp = dict(info, then_call=[name, list(args)])
        try:
            got = canon(do_call(r, name, args))
        except Exception as e:
            if not faulty and not (tag == 'raise' and val is type(e)):
                R.violation('oracle', inp, f'no request failed, but {name}{tuple(args)} on the preloaded blob reader raised '
                                           f'{type(e).__name__}: {e}')
            continue
        if tag == 'value' and got != val:
            R.violation('oracle', inp, f'{name}{tuple(args)} on the preloaded blob reader returned data that differs from what '
                                       'the local reader returns' + (' (after a faulty request during the preload)' if faulty else
                                                                     ' (no request failed: the result depends on the completion order)'))
        elif (name, args) == spec[0] and got != spec[1]:
            R.violation('oracle', inp, f'{name}{tuple(args)} on the preloaded blob reader differs from the volume decoded from the '
                                       'file by the specification')
        R.count('blob_preload_calls_checked')


def run_blob_preload(label, path, kind, calls):
    """SgzReader(<blob client>, preload=True): whatever requests the constructor issues, in whatever order they complete, a
    reader that is returned serves every read call with the true data; a request that fails during construction makes the
    constructor raise (or, at the very least, no later call return different data)"""
    L = os.path.getsize(path)
    ref = local_sequence(path, calls)
    spec = spec_volume(path, kind)
    if spec[0] in calls and ref[calls.index(spec[0])] != ('value', spec[1]):
        # the reference itself: the local reader against the specification decoder
        R.violation('oracle', {'file': label, 'backend': 'file', 'call': spec[0][0]},
                    'the local reader returns a volume that differs from the one decoded from the file by the specification')
    b = FakeBlob(path)
    try:
        r = SgzReader(b, preload=True)
    except Exception as e:
        R.violation('oracle', {'file': label, 'backend': 'blob', 'call': 'SgzReader(preload)'},
                    f'fault-free preloading constructor raised {type(e).__name__}: {e}')
        return
    plan_c = list(b.order)
    base = {'file': label, 'backend': 'blob', 'call': 'SgzReader(preload)', 'constructor_requests': len(plan_c)}
    check_calls(r, calls, ref, spec, dict(base, completion='as issued'), False)
    # (a) completion orders of the constructor's requests (and of the later header requests)
    policies = [('lowest range in flight first', lambda: Pick(0)), ('highest range in flight first', lambda: Pick(-1))]
    for t in range(2 if QUICK else 8):
        sd = rng.randrange(2 ** 30)
        policies.append((f'random({sd})', lambda sd=sd: random.Random(sd)))
    for pname, mk in policies:
        b = FakeBlob(path, order_rng=mk())
        info = dict(base, completion=pname)
        try:
            r = SgzReader(b, preload=True)
        except Exception as e:
            R.violation('oracle', dict(info, completion_order=b.order[:12]), f'fault-free preloading constructor raised {type(e).__name__}: {e}')
            continue
        comp = list(b.order)
        info['constructor_completion_order'] = comp[:12]
        if sorted(comp) != sorted(plan_c):
            R.count('blob_preload_request_set_varies')
        check_calls(r, calls, ref, spec, info, False)
        R.case(('blob-preload-order', label, pname, tuple(comp)), nontrivial=(comp != plan_c or b.max_inflight > 1))
        R.count('blob_preload_order')
        R.count('blob_preload_max_inflight_%d' % min(b.max_inflight, 20))
    # (b) a fault on ANY request issued during construction (the k-th to arrive), free-running and with a drawn order
    distinct = len(set(plan_c)) == len(plan_c)
    for k in range(len(plan_c)):
        for fk in KINDS:
            controlled = rng.random() < 0.5
            b = FakeBlob(path, order_rng=random.Random(rng.randrange(2 ** 30)) if controlled else None, by_ordinal={k: (0, fk)})
            info = dict(base, fault=[[k, fk]], controlled=controlled)
            raised = True
            try:
                r = SgzReader(b, preload=True)
                raised = False
            except Exception:
                pass
            if not raised:
                check_calls(r, calls, ref, spec, info, True)
            if distinct:
                model_case('blob', L, [(k, fk)], plan_c, raised, info)
            R.case(('blob-preload-open', label, k, fk, controlled), sample=info if k == len(plan_c) - 1 and fk == 'short' else None)
            R.count('blob_preload_constructor_fault')


# ------------------------------------------------------------------------------------------------ time warp
class TimeWarp:
    """While active, every waiting primitive that takes a timeout gives up after at most WARP_S seconds: a library that
    waits for its range reads with a timeout (concurrent.futures.wait / as_completed / Future.result / Executor.map,
    queue get / put, Event / Condition / Semaphore / Barrier waits, Thread.join) then sees the timeout EXPIRE while a
    straggler request (held STRAGGLER_S > WARP_S) is still outstanding. Timeouts of None, zero or below WARP_S are left
    alone, so code without timeouts runs unchanged. Patched: the classes themselves (every importer sees it), the functions
    in concurrent.futures and concurrent.futures._base, and every binding of those functions inside seismic_zfp modules."""
    hits = []                      # names of the primitives whose timeout was shortened

    @staticmethod
    def _wrap(orig, pos, label):
        def warped(*args, **kw):
            t = kw['timeout'] if 'timeout' in kw else args[pos] if len(args) > pos else None
            if isinstance(t, (int, float)) and not isinstance(t, bool) and t > WARP_S:
                TimeWarp.hits.append(label)
                if 'timeout' in kw:
                    kw['timeout'] = WARP_S
                else:
                    args = args[:pos] + (WARP_S,) + args[pos + 1:]
            return orig(*args, **kw)
        warped.__name__ = getattr(orig, '__name__', label)
        warped.__wrapped__ = orig
        return warped

    def __enter__(self):
        fb = concurrent.futures._base
        targets = [(fb.Future, 'result', 1), (fb.Future, 'exception', 1),
                   (queue.Queue, 'get', 2), (queue.Queue, 'put', 3),
                   (threading.Event, 'wait', 1), (threading.Condition, 'wait', 1), (threading.Condition, 'wait_for', 2),
                   (threading.Semaphore, 'acquire', 2), (threading.Barrier, 'wait', 1), (threading.Thread, 'join', 1),
                   (fb, 'wait', 1), (fb, 'as_completed', 1), (concurrent.futures, 'wait', 1), (concurrent.futures, 'as_completed', 1)]
        self.undo = []
        replaced = {}
        for owner, attr, pos in targets:
            orig = owner.__dict__[attr] if isinstance(owner, type) else getattr(owner, attr)
            w = replaced.get(id(orig)) or self._wrap(orig, pos, f'{getattr(owner, "__name__", owner)}.{attr}')
            replaced[id(orig)] = w
            self.undo.append((owner, attr, orig))
            setattr(owner, attr, w)
        orig_sq = queue.SimpleQueue
        try:
            class WarpedSimpleQueue(orig_sq):              # a C type: its method cannot be replaced, the name can
                def get(self_, block=True, timeout=None):
                    if isinstance(timeout, (int, float)) and timeout > WARP_S:
                        TimeWarp.hits.append('SimpleQueue.get')
                        timeout = WARP_S
                    return orig_sq.get(self_, block, timeout)
            replaced[id(orig_sq)] = WarpedSimpleQueue
            self.undo.append((queue, 'SimpleQueue', orig_sq))
        except TypeError:
            orig_sq = None
        # names bound inside the library by `from ... import wait, as_completed, SimpleQueue`
        for mname, mod in list(sys.modules.items()):
            if mod is not None and (mname == 'seismic_zfp' or mname.startswith('seismic_zfp.')):
                for attr, val in list(vars(mod).items()):
                    if id(val) in replaced and not isinstance(val, type(sys)):
                        self.undo.append((mod, attr, val))
                        setattr(mod, attr, replaced[id(val)])
        if orig_sq is not None:
            queue.SimpleQueue = replaced[id(orig_sq)]
        return self

    def __exit__(self, *exc):
        for owner, attr, orig in reversed(self.undo):
            setattr(owner, attr, orig)
        return False


def timewarp_cases(files):
    """(label, path, kind, backend, call, args, want, plan, straggler position, what the straggler does in the end)"""
    names = ('read_crossline', 'read_zslice', 'read_subvolume') if QUICK else None
    labels = ('np_default', 'np_zslice') if QUICK else None
    cases = []
    for label, path, kind in files:
        if labels is not None and label not in labels:
            continue
        probe = ('read_volume', ()) if kind == '3d' else ('get_trace', (0,))
        want_probe = canon(do_call(SgzReader(path), *probe))
        seen = set()
        for name, args in calls_for(path, kind):
            if name in seen or (names is not None and name not in names):
                continue
            for backend in ('file', 'blob'):
                h = CountingFile(path) if backend == 'file' else FakeBlob(path)
                r = SgzReader(h)
                log = h.all if backend == 'file' else h.order
                n0 = len(log)
                try:
                    want = canon(do_call(r, name, args))
                except Exception:
                    continue
                plan = list(log[n0:])
                r.close()
                if len(plan) < 2:
                    continue             # not a fan-out / loop of range reads
                seen.add(name)
                cases += straggler_cases(label, path, kind, backend, name, args, want, plan)
        for backend in ('file', 'blob'):
            h = CountingFile(path) if backend == 'file' else FakeBlob(path)
            SgzReader(h, preload=True).close()
            plan = list(h.all if backend == 'file' else h.order)
            cases += straggler_cases(label, path, kind, backend, 'SgzReader(preload)', probe, want_probe, plan)
    return cases


def straggler_cases(label, path, kind, backend, name, args, want, plan):
    K = len(plan)
    by_range = sorted(range(K), key=lambda k: plan[k])
    spots = {'lowest range': by_range[0], 'highest range': by_range[-1], 'random': rng.randrange(K)}
    out = []
    for then in (None,) + KINDS:
        for spot in (list(spots) if not QUICK or a.search else [rng.choice(list(spots))]):
            out.append((label, path, kind, backend, name, args, want, plan, spots[spot], spot, then))
    return out


def run_timewarp_case(c):
    label, path, kind, backend, name, args, want, plan, k, spot, then = c
    info = {'file': label, 'backend': backend, 'call': name, 'args': list(args), 'reads': len(plan),
            'straggler': [k, list(plan[k]), spot], 'held_s': STRAGGLER_S, 'straggler_then': then or 'succeeds',
            'timeouts_capped_at_s': WARP_S}
    raised, got = None, None
    try:
        if name == 'SgzReader(preload)':
            if backend == 'file':
                h = SlowCountingFile(path, faults={k: then} if then else None, slow={k: STRAGGLER_S})
            else:
                h = FakeBlob(path, by_ordinal={k: (STRAGGLER_S, then)})
            r = SgzReader(h, preload=True)
            got = canon(do_call(r, *args))          # args = the probe call
        else:
            if backend == 'file':
                h = SlowCountingFile(path)
                r = SgzReader(h)
                h.slow = {h.n + k: STRAGGLER_S}
                h.faults = {h.n + k: then} if then else {}
            else:
                h = FakeBlob(path)
                r = SgzReader(h)
                h.slow = {plan[k]: STRAGGLER_S}
                h.faults = {plan[k]: then} if then else {}
            got = canon(do_call(r, name, args))
    except Exception as e:
        raised = e
    info['timeouts_shortened_so_far'] = sorted(set(TimeWarp.hits))
    if then is None:
        if raised is not None:
            R.violation('oracle', info, f'no range read failed (one was only slow: it completed after {STRAGGLER_S} s) but the call '
                                        f'raised {type(raised).__name__}: {raised}')
        elif got != want:
            R.violation('oracle', info, 'no range read failed (one was only slow) but the call returned data that differs from the '
                                        'true data: the result depends on the timing of the range reads')
    elif raised is None:
        R.violation('oracle', info, f'a range read failed ({then}) after being outstanding for {STRAGGLER_S} s, longer than any '
                                    'timeout the library waits with, and the call did not raise: it returned '
                                    + ('data that differs from the true data' if got != want else 'a value'))
    R.case(('timewarp', label, backend, name, tuple(args), k, then),
           sample=info if then == 'exc' and spot == 'highest range' and name == 'read_crossline' else None)
    R.count('timewarp_slow_only' if then is None else 'timewarp_slow_then_fault')


def run_timewarp(files):
    cases = timewarp_cases(files)
    with TimeWarp():
        with concurrent.futures.ThreadPoolExecutor(max_workers=12) as ex:
            list(ex.map(run_timewarp_case, cases))
    R.count('timewarp_timeouts_shortened', len(TimeWarp.hits))
    R.notes.append(f'time warp: {len(cases)} straggler cases, {len(TimeWarp.hits)} library timeouts shortened to {WARP_S} s '
                   f'({sorted(set(TimeWarp.hits))})')


# ------------------------------------------------------------------------------------------------ stragglers across calls
def cross_call_cases(files):
    """two consecutive fan-out calls of the same kind on ONE blob reader: call A has one failing range read and one that is
    merely slow (it completes AFTER A has raised unless A waits for it); call B has no fault at all, but one slow read, so
    that B is still assembling when A's straggler lands.  A must raise, B must return the true data: whatever a failed
    call leaves running must not reach the buffers of a later call."""
    cases = []
    for label, path, kind in files:
        if kind != '3d':
            continue
        r0 = SgzReader(path)
        n_xl, n_s = r0.n_xlines, r0.n_samples
        r0.close()
        pairs = [('read_crossline', (0,), (n_xl - 1,)), ('read_zslice', (0,), (n_s - 1,)),
                 ('read_crossline', (n_xl - 1,), (min(5, n_xl - 1),)), ('read_zslice', (n_s - 1,), (min(5, n_s - 1),))]
        for name, args_a, args_b in (pairs[:2] if QUICK and not a.search else pairs):
            plans, want_b = [], None
            for args in (args_a, args_b):
                h = FakeBlob(path)
                r = SgzReader(h)
                n0 = len(h.order)
                want_b = canon(do_call(r, name, args))
                plans.append(list(h.order[n0:]))
                r.close()
            if len(plans[0]) < 2 or len(plans[1]) < 2 or set(plans[0]) & set(plans[1]):
                continue            # not fan-outs, or the two calls share a range (same group of lines)
            cases.append((label, path, name, args_a, args_b, plans[0], plans[1], want_b))
    return cases


def run_cross_call_case(c):
    label, path, name, args_a, args_b, plan_a, plan_b, want_b = c
    lo_a, hi_a = min(plan_a), max(plan_a)
    info = {'file': label, 'backend': 'blob', 'call_A': [name, list(args_a)], 'call_B': [name, list(args_b)],
            'A_fails_at': list(lo_a), 'A_straggler': [list(hi_a), 0.3], 'B_slow_read': [list(min(plan_b)), 0.8]}
    h = FakeBlob(path)
    r = SgzReader(h)
    h.faults = {lo_a: 'exc'}
    h.slow = {hi_a: 0.3, min(plan_b): 0.8}
    try:
        do_call(r, name, args_a)
        R.violation('oracle', info, 'call A: a range read failed with an exception and the call returned a value')
    except Exception:
        pass
    try:
        got = canon(do_call(r, name, args_b))
        if got != want_b:
            R.violation('oracle', info, 'call B had no failing range read but returned data that differs from the true data: a range '
                                        'read left over from the failed call A reached B\'s buffer')
    except Exception as e:
        R.violation('oracle', info, f'call B had no failing range read but raised {type(e).__name__}: {e}')
    REAL_SLEEP(0.35)
    R.case(('cross-call', label, name, tuple(args_a), tuple(args_b)), sample=info if name == 'read_crossline' else None)
    R.count('cross_call_stragglers')


def run_cross_call(files):
    cases = cross_call_cases(files)
    with concurrent.futures.ThreadPoolExecutor(max_workers=8) as ex:
        list(ex.map(run_cross_call_case, cases))
    R.notes.append(f'stragglers across calls: {len(cases)} (failing call A with a slow read, fault-free call B) pairs on one blob reader')


# ------------------------------------------------------------------------------------------------ the same under python -O
OPT_CHILD = r"""
import sys, os, json
sys.path.insert(0, %r)
from hz import *
path = sys.argv[1]
out = []


class ShortFile:
    def __init__(self, p, k, kind):
        self.f = open(p, 'rb'); self.n = 0; self.k = k; self.kind = kind; self.name = p
    def seek(self, *a): return self.f.seek(*a)
    def tell(self): return self.f.tell()
    def read(self, n=-1):
        b = self.f.read(n); self.n += 1
        if self.n - 1 == self.k:
            return b[:len(b) // 2] if self.kind == 'short' else b''
        return b
    def readinto(self, buf):
        b = self.read(len(buf)); buf[:len(b)] = b; return len(b)
    def close(self): self.f.close()


class ShortBlob:
    def __init__(self, p, k, kind):
        self.data = open(p, 'rb').read(); self.n = 0; self.k = k; self.kind = kind; self.blob_name = p
    def download_blob(self, offset=None, length=None):
        me = self
        class D:
            def readall(s):
                b = me.data[offset:] if length is None else me.data[offset:offset + length]; me.n += 1
                if me.n - 1 == me.k:
                    return b[:len(b) // 2] if me.kind == 'short' else b''
                return b
        return D()
    def close(self): pass


def canon(v):
    return v.tobytes() if hasattr(v, 'tobytes') else repr(sorted((int(a), int(b)) for a, b in dict(v).items()))


with SgzReader(path) as r0:
    calls = [('read_inline', (1,)), ('read_crossline', (2,)), ('get_trace', (3,)), ('gen_trace_header', (1,)), ('get_tracefield_1d', (189,)), ('read_volume', ())]
    want = {c: canon(getattr(r0, c[0])(*c[1])) for c in calls}
for backend, H in (('file', ShortFile), ('blob', ShortBlob)):
    for c in calls:
        for kind in ('short', 'empty'):
            for k in range(0, 40):
                h = H(path, k, kind)
                try:
                    r = SgzReader(h)
                    got = canon(getattr(r, c[0])(*c[1]))
                    res = 'same' if got == want[c] else 'DIFFERENT'
                except Exception as e:
                    res = 'raised'
                reached = h.n > k
                if not reached:
                    break
                if res != 'raised':
                    out.append({'backend': backend, 'call': [c[0], list(c[1])], 'fault': kind, 'range_read': k, 'result': res})
print('OPTRESULT ' + json.dumps({'optimize': sys.flags.optimize, 'bad': out[:20], 'n_bad': len(out)}))
""" % os.path.join(os.path.dirname(os.path.abspath(__file__)), '..')


def run_optimized(files):
    """python -O strips assert statements: a length check (or any other guard of this property) written as an assert is gone
    there.  A small fault sweep (every range read of six calls short / empty, both backends) in a child interpreter with -O."""
    import subprocess
    label, path, kind = [f for f in files if f[2] == '3d'][0]
    p = subprocess.run([sys.executable, '-O', '-c', OPT_CHILD, path], stdout=subprocess.PIPE, stderr=subprocess.PIPE, text=True,
                       env=dict(os.environ, PYTHONHASHSEED='0'), timeout=600)
    line = [l for l in p.stdout.splitlines() if l.startswith('OPTRESULT ')]
    if p.returncode != 0 or not line:
        R.notes.append('python -O child did not finish: ' + (p.stderr or '')[-300:])
        return
    res = json.loads(line[0][len('OPTRESULT '):])
    R.count('python -O fault sweep')
    R.case(('python -O', label), nontrivial=True, sample={'file': label, 'interpreter': 'python -O', 'optimize_flag': res['optimize']})
    for b in res['bad'][:6]:
        R.violation('oracle', dict(b, file=label, interpreter='python -O (assert statements stripped)'),
                    'a short / empty range read did not make the call raise under python -O: the call '
                    + ('returned data that differs from the true data' if b['result'] == 'DIFFERENT' else 'returned a value'))


# ------------------------------------------------------------------------------------------------ generated fan-out terms
def run_slots(label, path):
    """the range reads and destination slots that Gen/Faults.v records for the three I/O fan-outs, evaluated in Coq for
    this file's parameters: the reads must be the ones the implementation issues, the slots must satisfy tasks_okb"""
    r = SgzReader(path)
    if r.is_2d:
        return
    ds = r.data_start_bytes
    bs, P = r.blockshape, r.shape_pad
    bpd = tuple(p // b for p, b in zip(P, bs))
    jobs = []
    if bs[0] == 4 and bs[1] == 4:
        x = r.n_xlines - 1
        cb, ub, bb = r.chunk_bytes, r.unit_bytes, r.block_bytes
        jobs.append(('read_crossline', (x,),
                     f'map (fun j => xl_set_read {cb} {P[1]} {4 * (x // 4)} j) (zrange 0 (xl_set_ntasks {P[0]}))',
                     f'tasks_okb (Z.to_nat (xl_set_buflen {cb} {P[0]})) (xl_tasks {cb} {P[0]} {P[1]} {4 * (x // 4)})'))
        z = r.n_samples // 2
        jobs.append(('read_zslice', (z,),
                     f'map (fun k => zslice_set_read {bb} {bs[2]} {cb} {ub} {z // bs[2]} {z} k) (zrange 0 (zslice_set_ntasks {bpd[0]} {bpd[1]}))',
                     f'tasks_okb (Z.to_nat (zslice_set_buflen {bpd[0]} {bpd[1]} {ub})) (zslice_tasks {bb} {bs[2]} {cb} {ub} {z // bs[2]} {z} {bpd[0]} {bpd[1]})'))
    elif bs[2] == 4:
        z = r.n_samples // 2
        bb = r.block_bytes
        r1, r2 = int(4 * 4 * bs[1] * r.rate), int(P[1] * 4 * 4 * r.rate)
        zf = z // bs[2]
        tasks = f'(map (fun b => ztask (zslice_set_adv_read {bb} {bpd[1]} {bpd[2]} {zf} b) (zslice_set_adv_moves {bb} {bpd[1]} {bs[0]} {r1} {r2} b)) ' \
                f'(zrange 0 (zslice_set_adv_ntasks {bpd[0]} {bpd[1]})))'
        jobs.append(('read_zslice', (z,),
                     f'map (fun b => zslice_set_adv_read {bb} {bpd[1]} {bpd[2]} {zf} b) (zrange 0 (zslice_set_adv_ntasks {bpd[0]} {bpd[1]}))',
                     f'tasks_okb (Z.to_nat (zslice_set_adv_buflen {bb} {bpd[0]} {bpd[1]})) {tasks}'))
    r.close()
    for name, args, t_reads, t_ok in jobs:
        f = CountingFile(path)
        rr = SgzReader(f)
        n0 = f.n
        do_call(rr, name, args)
        plan = [(o - ds, l) for o, l in f.all[n0:]]
        rr.close()
        try:
            v_reads, v_ok = coq_eval(['SZ.Lib.Py', 'SZ.Gen.Faults', 'SZ.Model.Faults', 'SZ.Proofs.Faults'], [t_reads, t_ok])
        except Exception as e:
            R.violation('corr', {'file': label, 'call': name}, f'generated fan-out terms could not be evaluated: {str(e)[-500:]}')
            continue
        model_reads = [tuple(x) for x in parse_value(v_reads)]
        R.case(('slots', label, name, args), sample={'file': label, 'call': name, 'generated_reads': model_reads[:3]})
        R.count('generated_fanout_terms')
        if model_reads != plan:
            R.violation('corr', {'file': label, 'call': name, 'args': list(args)},
                        f'generated read ranges {model_reads[:4]} differ from the implementation {plan[:4]}')
        if v_ok.strip() != 'true':
            R.violation('corr', {'file': label, 'call': name, 'args': list(args)},
                        'tasks_okb is false for the generated slots of this file: slices overlap or leave the buffer')


# ------------------------------------------------------------------------------------------------ main
try:
    files = build_files()
    if not a.no_model:
        for label, path, kind in files:
            run_slots(label, path)
    for label, path, kind in files:
        run_local(label, path, kind)
    for label, path, kind in files:
        if QUICK and label in ('np_88', '2d_16'):
            continue
        run_blob(label, path, kind)
    for label, path, kind in files:
        run_blob_preload(label, path, kind, calls_for(path, kind))
    # a data section of several MiB: a preload that is split into ranges (by size or per worker) issues several requests
    big = os.path.join(d, 'np_big.sgz')
    write_numpy_sgz(big, rnd_cube(rng, (100, 130, 300)), bpv=16)
    run_blob_preload('np_big', big, '3d', [('read_volume', ()), ('read_inline', (57,)), ('read_crossline', (129,)), ('read_zslice', (150,)),
                                             ('read_subvolume', (40, 90, 3, 127, 100, 299)), ('get_trace', (7777,))])
    run_timewarp(files)
    run_cross_call(files)
    run_optimized(files)
    # ---- the model on the same inputs
    if not a.no_model and MODEL_CASES:
        # group cases by (backend, L, plan) to keep terms short
        terms = [t for t, _, _ in MODEL_CASES]
        try:
            vals = coq_eval(['SZ.Model.Faults'], terms, shard=300)
        except Exception as e:
            R.violation('corr', {'what': 'model evaluation'}, f'the model could not be evaluated: {str(e)[-800:]}')
            vals = []
        for (t, impl_raised, info), v in zip(MODEL_CASES, vals):
            pred = (v.strip() == 'true')
            R.count('model_cases')
            if pred != impl_raised:
                R.violation('corr', info, f'model predicts {"an error" if pred else "a value"}, implementation {"raised" if impl_raised else "returned a value"}')
    R.notes.append(f'{len(MODEL_CASES)} (plan, fault assignment) cases evaluated by Model/Faults.v inside Coq')
finally:
    shutil.rmtree(d, ignore_errors=True)
R.write(a.out)
for v in R.violations[:10]:
    print('VIOLATION', v['kind'], v['input'], v['detail'][:200])
print(f'faults: {R.evaluations} cases, {len(R.violations)} violations, {round(time.time() - R.t0, 1)} s')
