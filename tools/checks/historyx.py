#!/usr/bin/env python3
"""Harness for C15a (state footprint): what a public call leaves on the object.

(a) CENSUS vs REALITY.  For every public class and every checked public method that this harness knows valid arguments
    for, on real objects (files written with the hz.py helpers): snapshot the object deep-ish before and after the call
    -- identity and content fingerprint of every attribute, recursively into package objects (loader, hw_info, geom, the
    emulator's accessor readers), position / closed flag of file handles, cache_info() of every lru table (class-level
    and per-object), lock state -- and require
      * every token that changed is covered by the GENERATED footprint of that method (tools/genx_statefoot.py run on the
        same tree: a write the census missed is a 'corr' violation), and
      * every token that changed is a cache token or a listed exception (else an 'oracle' violation: a public call left
        non-cache state behind; the input is the class, file and call sequence).
    Objects that share a handle / a class-level table are recognised by identity (one group of tokens).
(b) ONE OBJECT, MANY CALLS.  Seeded random sequences of public calls on one object -- reads, header queries,
    read_variant_headers / clear_variant_headers, convert_to_segy, convert_to_adv_sgz, crops by indexes and by
    coordinates, SEG-Y and numpy conversions with varying parameters -- each result compared with the same call on a
    FRESH object: arrays bit for bit, header dictionaries, exception classes, written files byte for byte.
The cache set and the exception list are those of coq/Model/StateFoot.v (read back through tools/coqeval.py and compared
with the copy below: 'corr' if they differ)."""
import os, sys, io, threading, hashlib, itertools
sys.path.insert(0, os.path.dirname(os.path.abspath(__file__)))
from common import *
a = parse_args()
from hz import *
import hz as _hz
_hz.DECOY[0] = False      # this harness snapshots cache / object state around calls: the harness's own decoy reads would show in it
import seismic_zfp
from seismic_zfp.loader import SgzLoader, SgzLoader2d, SgzLoader3d
from seismic_zfp.conversion import SeismicFileConverter
import genx_statefoot

R = Result('one case = one public call on a real object: (a) class x method x object state (fresh / warm) with the attribute '
           'diff checked against the generated footprint and the cache set, (b) a position in a seeded random call sequence on '
           'one object compared with the same call on a fresh object; non-trivial = the call changed at least one token (a) or '
           'returned data / wrote a file after at least one earlier call (b)')
rng = random.Random(a.seed * 7907 + 151)
quick = (a.tier == 'quick') and not a.search
d = scratch_dir()

LOADER_LRU = ['read_and_decompress_trace_range', 'read_unshuffle_and_decompress_chunk_range_2d', 'read_and_decompress_il_set',
              'read_and_decompress_xl_set', 'read_and_decompress_zslice_set', 'read_and_decompress_zslice_set_adv',
              'read_and_decompress_chunk_range', 'read_unshuffle_and_decompress_chunk_range']
LOADER_CACHE = ['file@pos', 'compressed_volume'] + [m + '@lru' for m in LOADER_LRU]
READER_CACHE = ['mask', 'variant_headers[]', 'include_padding', 'file@pos', '_read_containing_chunk_cached@lru'] + ['loader.' + t for t in LOADER_CACHE]
CONVERTERS = ['SeismicFileConverter', 'SegyConverter', 'ZgyConverter', 'VdsConverter']
EXCEPTIONS = [('SgzConverter', 'convert_to_segy', 'headerbytes', 'restored'), ('SeismicZfpBackendArray', '__getitem__', 'lock@with', 'transient'),
              ('NumpyConverter', 'run', 'geom', 'scratch'), ('NumpyConverter', 'run', 'trace_headers[]', 'alias')] + \
             [(c, m, 'geom', 'memo') for c in CONVERTERS for m in ('run', 'detect_geometry', 'infer_geometry')]
LIFECYCLE = ('__init__', '__new__', '__enter__', '__exit__', '__del__', 'close', 'close_sgz_file')


def cache_of(mro, cname):
    if 'SgzReader' in mro:
        return READER_CACHE
    if 'SgzLoader' in mro:
        return LOADER_CACHE
    if cname == 'SeismicZfpBackendArray':
        return ['sgz_reader.' + t for t in READER_CACHE]
    return []


# ------------------------------------------------------------------------------------------------ snapshots
def parse_tok(t):
    for f in ('@pos', '@closed', '@lru', '@with', '@lock', '[]'):
        if t.endswith(f):
            return tuple(t[:-len(f)].split('.')), f
    return tuple(t.split('.')), ''


def is_pkg(o):
    return type(o).__module__.split('.')[0] == 'seismic_zfp'


def fp(v, depth=0):
    """content fingerprint (cheap, deterministic)"""
    if isinstance(v, np.ndarray):
        return ('nd', str(v.dtype), v.shape, hashlib.sha1(np.ascontiguousarray(v).tobytes()).hexdigest())
    if isinstance(v, (bytes, bytearray)):
        return ('b', hashlib.sha1(bytes(v)).hexdigest())
    if isinstance(v, (str, int, float, bool, type(None), complex)):
        return ('s', repr(v))
    if isinstance(v, np.generic):
        return ('g', repr(v))
    if isinstance(v, range):
        return ('r', repr(v))
    if isinstance(v, dict):
        if depth > 3:
            return ('d', len(v))
        return ('d', tuple((repr(k), fp(x, depth + 1)) for k, x in v.items()))          # order included on purpose
    if isinstance(v, (list, tuple, set, frozenset)):
        if depth > 3 or len(v) > 5000:
            return ('l', len(v))
        xs = sorted(v, key=repr) if isinstance(v, (set, frozenset)) else v
        return (type(v).__name__, tuple(fp(x, depth + 1) for x in xs))
    if callable(v) and not is_pkg(v):
        return ('f', getattr(v, '__qualname__', repr(type(v))))
    if hasattr(v, '__dict__') and depth <= 3 and not hasattr(v, 'read'):
        return ('o', type(v).__name__, tuple((k, fp(x, depth + 1)) for k, x in sorted(vars(v).items()) if not k.startswith('__')))
    return ('?', type(v).__name__)


def snapshot(obj):
    """token -> (fingerprint, identity of the underlying piece of state)"""
    out = {}

    def visit(o, prefix, depth):
        items = list(vars(o).items())
        # class-level data attributes of package classes are state shared by all instances
        for k in type(o).__mro__:
            if k.__module__.split('.')[0] == 'seismic_zfp':
                for name, v in vars(k).items():
                    if not name.startswith('__') and not callable(v) and not isinstance(v, (staticmethod, classmethod, property)) \
                            and name not in vars(o) and not hasattr(v, 'cache_info'):
                        items.append((name, v))
        for name, v in items:
            path = prefix + name
            out[path] = (('id', id(v)), ('bind', id(o), name))
            if hasattr(v, 'cache_info'):
                out[path + '@lru'] = (tuple(v.cache_info()), ('lru', id(getattr(v, '__wrapped__', v)), id(v)))
                continue
            if hasattr(v, 'read') and hasattr(v, 'seek'):
                closed = bool(getattr(v, 'closed', False)) or (hasattr(v, '_f') and v._f.closed)
                pos = None
                if not closed:
                    pos = v._pos if hasattr(v, '_pos') else v.tell()
                out[path + '@pos'] = (pos, ('pos', id(v)))
                out[path + '@closed'] = (closed, ('closed', id(v)))
                if hasattr(v, '__dict__'):
                    for k2, v2 in vars(v).items():
                        if k2 == 'read_range':
                            out[path + '.read_range'] = (('id', id(v2)), ('bind', id(v), k2))
                continue
            if isinstance(v, type(threading.Lock())):
                out[path + '@with'] = (v.locked(), ('lock', id(v)))
                continue
            if is_pkg(v) and hasattr(v, '__dict__') and depth < 3 and not callable(v):
                visit(v, path + '.', depth + 1)
                if isinstance(v, SgzLoader):
                    for m in LOADER_LRU:
                        f = getattr(type(v), m, None)
                        if f is not None and hasattr(f, 'cache_info'):
                            out[path + '.' + m + '@lru'] = (tuple(f.cache_info()), ('lru', id(f)))
                continue
            out[path + '[]'] = (fp(v), ('content', id(v)))
        if isinstance(o, SgzLoader):
            for m in LOADER_LRU:
                f = getattr(type(o), m, None)
                if f is not None and hasattr(f, 'cache_info'):
                    out[prefix + m + '@lru'] = (tuple(f.cache_info()), ('lru', id(f)))
    visit(obj, '', 0)
    return out


def diff(s0, s1):
    """tokens whose fingerprint changed, appeared or disappeared, with the alias group (all tokens of the same piece)"""
    changed = []
    for t in sorted(set(s0) | set(s1)):
        if t not in s0 or t not in s1 or s0[t][0] != s1[t][0]:
            ident = (s1.get(t) or s0.get(t))[1]
            group = sorted(u for u in set(s0) | set(s1) if ((s1.get(u) or s0.get(u))[1] == ident))
            changed.append((t, group))
    return changed


def covered(tok, foot):
    P, pf = parse_tok(tok)
    for F in foot:
        Q, qf = parse_tok(F)
        if Q == P and (qf == pf or qf == '' or (qf == '[]' and pf in ('', '[]')) or (pf == '[]' and qf in ('@lru',))):
            return True
        if len(Q) < len(P) and P[:len(Q)] == Q and qf in ('', '[]'):
            return True
        if len(P) < len(Q) and Q[:len(P)] == P and pf == '[]':
            return True
    return False


def in_cache(tok, cache):
    P, pf = parse_tok(tok)
    for F in cache:
        Q, qf = parse_tok(F)
        if Q == P and (qf == pf or qf == '' or (qf == '[]' and pf in ('', '[]')) or (pf == '[]' and qf == '@lru')):
            return True
        if len(Q) < len(P) and P[:len(Q)] == Q and qf in ('', '[]'):
            return True
    return False


# ------------------------------------------------------------------------------------------------ files
def make_files():
    g = random.Random(a.seed * 13 + 3)
    F = {}

    def seg3(label, shape, bpv, bs, present=None):
        sgy = os.path.join(d, label + '.sgy'); p = os.path.join(d, label + '.sgz')
        mk_segy(sgy, rnd_cube(g, shape), 10 + 2 * np.arange(shape[0]), 100 + 3 * np.arange(shape[1]), present=present,
                hdr=lambda t, i, x: {segyio.TraceField.offset: 0, segyio.TraceField.CDP: 7 + t})
        write_segy_sgz(sgy, p, bpv=bpv, blockshape=bs)
        F[label] = (p, sgy)
    seg3('reg', (9, 10, 24), 2, (4, 4, -1))                    # rate 2, blockshape (4,4,1024): convert_to_adv_sgz applies
    seg3('reg8', (9, 10, 40), 8, (4, 4, -1))
    present = np.ones((6, 7), bool)
    present[0, 0] = present[2, 3] = present[5, 6] = False
    seg3('irr', (6, 7, 24), 8, None, present=present)
    pn = os.path.join(d, 'np2.sgz')
    write_numpy_sgz(pn, rnd_cube(g, (5, 6, 30)), bpv=2, blockshape=(4, 4, -1), ilines=np.arange(1, 6), xlines=np.arange(20, 26), samples=np.arange(30) * 4.0)
    F['np2'] = (pn, None)
    sgy = os.path.join(d, 'l2.sgy'); p = os.path.join(d, 'l2.sgz')
    mk_segy_2d(sgy, rnd_cube(g, (21, 40)))
    write_segy_sgz(sgy, p, bpv=8, blockshape=(1, 4, -1))
    F['2d'] = (p, sgy)
    return F


def meta(path):
    with SgzReader(path) as r:
        return dict(is2d=r.is_2d, structured=bool(r.structured), n_il=r.n_ilines, n_xl=r.n_xlines, n_s=r.n_samples, tc=r.tracecount,
                    stored=[int(k) for k in r.stored_header_keys], consts=[int(k) for k in r.segy_traceheader_template if k not in r.stored_header_keys],
                    ilines=None if r.is_2d else [int(x) for x in r.ilines], xlines=None if r.is_2d else [int(x) for x in r.xlines],
                    zs=[float(z) for z in r.zslices], adv=(r.rate == 2 and tuple(r.blockshape) == (4, 4, 1024) and not r.is_2d))


def reader_calls(M, out_path):
    """method name -> list of argument tuples (valid or raising, never crashing)"""
    nt, ns = M['tc'], M['n_s']
    C = {
        'get_trace': [(1,), (nt - 1, 1, ns - 1)], 'get_trace_by_coord': [(2, M['zs'][1], M['zs'][4])],
        'gen_trace_header': [(1,), (nt - 1, True)], 'get_tracefield_values': [(M['stored'][0],), (M['consts'][0],)],
        'get_tracefield_1d': [(M['stored'][-1],)], 'read_variant_headers': [(), (True,), (False, [M['stored'][0]])],
        'clear_variant_headers': [()], 'get_unstructured_mask': [()],
        'get_file_binary_header': [()], 'get_file_text_header': [()], 'get_file_version': [()], 'get_file_source_code': [()],
        'get_source_data_hash': [()], 'get_header_detection_method_code': [()], '__repr__': [()], '__str__': [()],
        'get_zslice_index': [(M['zs'][2],)], 'read_inline': [(0,)], 'read_crossline': [(1,)], 'read_zslice': [(2,)],
        'read_subvolume': [(0, 2, 0, 3, 0, 5)], 'read_volume': [()], 'read_zslice_coord': [(M['zs'][1],)],
        'read_correlated_diagonal': [(0,)], 'read_anticorrelated_diagonal': [(2,)], 'read_subplane': [(0, 5, 0, ns)],
    }
    if not M['is2d']:
        C.update({'read_inline_number': [(M['ilines'][1],)], 'read_crossline_number': [(M['xlines'][2],)],
                  'get_inline_index': [(M['ilines'][1],)], 'get_crossline_index': [(M['xlines'][0],)]})
    return C


def call_method(obj, name, args):
    try:
        return ('ok', quiet(getattr(obj, name), *args))
    except Exception as e:
        return ('exc', exc_class(e))


# ------------------------------------------------------------------------------------------------ (a) census vs reality
EXERCISED = set()


def check_call(census, cname, obj, name, args, label, state, cleanup=None):
    row = census[cname]
    mro = row['mro']
    m = row['methods'].get(name)
    if m is None:
        R.count('method not in census: ' + cname + '.' + name)
        return
    EXERCISED.add((cname, name))
    s0 = snapshot(obj)
    res = call_method(obj, name, args)
    s1 = snapshot(obj)
    if cleanup:
        cleanup(res)
    ch = diff(s0, s1)
    foot = m['closure'] + m['args']
    cache = cache_of(mro, cname)
    R.case(f'a|{label}|{cname}.{name}{args!r}|{state}', nontrivial=bool(ch),
           sample={'class': cname, 'method': name, 'file': label, 'state': state, 'changed': [t for t, _ in ch][:6]})
    R.count('a:' + ('changed' if ch else 'unchanged'))
    for tok, group in ch:
        if not any(covered(u, foot) for u in group):
            R.violation('corr', {'class': cname, 'method': name, 'args': repr(args), 'file': label, 'state': state},
                        f'the call changed {tok} (same piece of state as {group[:4]}), the generated footprint of {cname}.{name} is {foot[:12]}')
        exc = [e for e in EXCEPTIONS if e[0] == cname and e[1] == name and any(covered(u, [e[2]]) for u in group)]
        if not any(in_cache(u, cache) for u in group) and not exc:
            R.violation('oracle', {'class': cname, 'calls': [f'{name}{args!r}'], 'file': label, 'state': state},
                        f'public call {cname}.{name} left non-cache state changed: {tok}')
        if exc and exc[0][3] in ('restored', 'transient', 'alias'):
            R.violation('oracle', {'class': cname, 'calls': [f'{name}{args!r}'], 'file': label, 'state': state},
                        f'{tok} is listed as {exc[0][3]} (unchanged when the call ends) but it changed')
    return res


def part_a(files, census):
    clear_class_caches()
    for label, (path, sgy) in files.items():
        M = meta(path)
        for cname, ctor in (('SgzReader', SgzReader), ('SgzConverter', SgzConverter), ('SgzCropper', SgzCropper)):
            calls = dict(reader_calls(M, None))
            if cname == 'SgzConverter':
                calls['convert_to_segy'] = [(os.path.join(d, 'o.sgy'),)]
                calls['regenerate_trace_header'] = [(0,)]
                if M['adv']:
                    calls['convert_to_adv_sgz'] = [(os.path.join(d, 'o.sgz'),)]
            if cname == 'SgzCropper':
                calls['write_cropped_file_by_indexes'] = [(os.path.join(d, 'c.sgz'), (0, 4), None, None), (os.path.join(d, 'c.sgz'), None, None, None)]
                calls['get_index_range'] = [(None, [1, 2])]
                if not M['is2d']:
                    calls['write_cropped_file_by_coords'] = [(os.path.join(d, 'c.sgz'), (M['ilines'][0], M['ilines'][4]), None, None)]
                    calls['check_and_correct_bounds'] = [((0, 4), None, None)]
                    calls['correct_bounds'] = [((1, 6), 'inline', M['n_il'], 0)]
                    calls['regenerate_header'] = [((0, 4), (0, M['n_xl']), (0, M['n_s']))]
            names = sorted(calls)
            if quick and cname != 'SgzReader':
                names = [n for n in names if n not in reader_calls(M, None) or rng.random() < 0.25]
            for name in names:
                for args in calls[name]:
                    for preload in ((False, True) if name.startswith('read_') and not quick else (False,)):
                        obj = ctor(path, preload=preload)
                        try:
                            check_call(census, cname, obj, name, args, label, 'fresh')
                            # warm: after a header query in the other padding mode and a read, then the call again
                            call_method(obj, 'get_tracefield_values', (M['stored'][0],))
                            call_method(obj, 'get_trace', (0,))
                            check_call(census, cname, obj, name, args, label, 'warm')
                            check_call(census, cname, obj, name, args, label, 'again')
                        finally:
                            obj.close()
        # the loader of a reader
        with SgzReader(path) as r:
            ld = r.loader
            lname = type(ld).__name__
            if lname == 'SgzLoader3d':
                lc = {'read_and_decompress_il_set': [(0,), (4,)], 'read_and_decompress_xl_set': [(0,)], 'clear_cache': [()],
                      'read_chunk_range': [(0, 0, 0, 1, 1, 1)], 'read_and_decompress_chunk_range': [(4, 4, 4, 0, 0, 0, False)],
                      'load_compressed_volume': [()],
                      'read_and_decompress_zslice_set': [(tuple(x // y for x, y in zip(r.shape_pad, r.blockshape)), 0, 1)]}
            else:
                lc = {'read_and_decompress_trace_range': [(0, 4)], 'clear_cache': [()], 'load_compressed_volume': [()],
                      'read_unshuffle_and_decompress_chunk_range_2d': [(r.blockshape[1], r.blockshape[2], 0, 0)]}
            for name in sorted(lc):
                for args in lc[name]:
                    check_call(census, lname, ld, name, args, label, 'fresh')
                    check_call(census, lname, ld, name, args, label, 'again')
        # the emulator and its accessor readers
        f = seismic_zfp.open(path)
        try:
            for name, args in (('get_trace', (1,)), ('get_tracefield_1d', (M['stored'][0],)), ('gen_trace_header', (0,))):
                check_call(census, 'SegyioEmulator', f, name, args, label, 'fresh')
            accs = [('TraceAccessor', f.trace, [(1,), (slice(0, 3),), (-1,)]), ('HeaderAccessor', f.header, [(0,), (slice(0, 2),)])]
            if not M['is2d']:
                accs += [('InlineAccessor', f.iline, [(M['ilines'][1],), (slice(M['ilines'][0], M['ilines'][2]),)]),
                         ('CrosslineAccessor', f.xline, [(M['xlines'][1],)]), ('ZsliceAccessor', f.depth_slice, [(2,), (slice(0, 2),)]),
                         ('SubvolumeAccessor', f.subvolume, [((slice(M['ilines'][0], M['ilines'][2]), slice(None), slice(None)),)])]
            for cn, acc, argl in accs:
                for args in argl:
                    check_call(census, cn, acc, '__getitem__', args, label, 'fresh')
                    check_call(census, cn, acc, '__getitem__', args, label, 'again')
                if cn != 'SubvolumeAccessor':
                    check_call(census, cn, acc, '__len__', (), label, 'fresh')
                    if cn in ('ZsliceAccessor', 'HeaderAccessor'):
                        snap0 = snapshot(acc)
                        list(iter(acc))
                        for tok, group in diff(snap0, snapshot(acc)):
                            foot = census[cn]['methods']['__iter__']['closure']
                            if not any(covered(u, foot) for u in group):
                                R.violation('corr', {'class': cn, 'method': '__iter__', 'file': label}, f'iteration changed {tok}, footprint {foot[:10]}')
        finally:
            f.__exit__(None, None, None)
        # xarray backend array
        if not M['is2d']:
            try:
                from seismic_zfp.sgz_xarray import SeismicZfpBackendArray
                from xarray.core import indexing
                rd = SgzReader(path)
                arr = SeismicZfpBackendArray((M['n_il'], M['n_xl'], M['n_s']), np.float32, rd)
                for key in ((slice(0, 2), 1, slice(None)), (3, slice(None), slice(0, 5, 2))):
                    check_call(census, 'SeismicZfpBackendArray', arr, '__getitem__', (indexing.BasicIndexer(key),), label, 'fresh')
                rd.close()
            except ImportError:
                R.count('xarray not importable')
        # converters from SEG-Y
        for rep in range(1 if sgy else 0):
            c = quiet(SegyConverter, sgy)
            out = os.path.join(d, 'conv.sgz')
            for kw in (dict(bits_per_voxel=8), dict(bits_per_voxel=4, header_detection='thorough'), dict(bits_per_voxel=8, blockshape=(4, 4, -1) if not M['is2d'] else (1, 4, -1))):
                s0 = snapshot(c)
                r0 = quiet(call_kw, c, 'run', (out,), kw)
                ch = diff(s0, snapshot(c))
                foot = census['SegyConverter']['methods']['run']['closure']
                R.case(f'a|{label}|SegyConverter.run{kw!r}', nontrivial=bool(ch), sample={'class': 'SegyConverter', 'method': 'run', 'changed': [t for t, _ in ch]})
                R.count('a:' + ('changed' if ch else 'unchanged'))
                for tok, group in ch:
                    if not any(covered(u, foot) for u in group):
                        R.violation('corr', {'class': 'SegyConverter', 'method': 'run', 'file': label}, f'run changed {tok}, footprint {foot}')
                    if not any(covered(u, ['geom']) for u in group):
                        R.violation('oracle', {'class': 'SegyConverter', 'calls': ['run'], 'file': label}, f'run left non-cache state changed: {tok}')
            for name, args in (('check_memory', (1000,)), ('check_input_file_exists', ()), ('set_filetype', ())):
                quiet(check_call, census, 'SegyConverter', c, name, args, label, 'fresh')
    # numpy converter
    g = random.Random(a.seed + 5)
    arr = rnd_cube(g, (5, 6, 20))
    hdrs = {segyio.tracefield.TraceField.CDP_X: np.arange(30, dtype=np.int64).reshape(5, 6)}
    for th in ({}, hdrs):
        try:
            nc = NumpyConverter(arr, trace_headers=th) if th else NumpyConverter(arr)
        except Exception as e:
            R.violation('oracle', {'class': 'NumpyConverter', 'calls': ['__init__ (after earlier constructions in this process)']},
                        f'constructing a NumpyConverter fails with {type(e).__name__}: state left by an earlier construction?')
            continue
        for kw in (dict(bits_per_voxel=8), dict(bits_per_voxel=4)):
            s0 = snapshot(nc)
            quiet(call_kw, nc, 'run', (os.path.join(d, 'n.sgz'),), kw)
            ch = diff(s0, snapshot(nc))
            foot = census['NumpyConverter']['methods']['run']['closure']
            R.case(f'a|numpy|NumpyConverter.run{kw!r}|{bool(th)}', nontrivial=bool(ch), sample={'class': 'NumpyConverter', 'method': 'run', 'changed': [t for t, _ in ch]})
            for tok, group in ch:
                if not any(covered(u, foot) for u in group):
                    R.violation('corr', {'class': 'NumpyConverter', 'method': 'run'}, f'run changed {tok}, footprint {foot}')
                if not any(covered(u, ['geom']) for u in group):
                    R.violation('oracle', {'class': 'NumpyConverter', 'calls': ['run']}, f'run left non-cache state changed: {tok}')
    # the shared default of NumpyConverter.__init__ must still be empty
    dflt = NumpyConverter.__init__.__defaults__
    for x in dflt or ():
        if isinstance(x, (dict, list, set)) and len(x):
            R.violation('oracle', {'class': 'NumpyConverter', 'calls': ['__init__']}, f'a mutable default argument now holds {len(x)} entries')


def call_kw(obj, name, args, kw):
    return getattr(obj, name)(*args, **kw)


def clear_class_caches():
    for cls in (SgzLoader2d, SgzLoader3d):
        for m in LOADER_LRU:
            f = getattr(cls, m, None)
            if f is not None and hasattr(f, 'cache_clear'):
                f.cache_clear()


# ------------------------------------------------------------------------------------------------ (b) one object, many calls
def freeze(v):
    if isinstance(v, np.ndarray):
        return np.array(v, copy=True)
    if isinstance(v, dict):
        return {int(k): int(x) for k, x in v.items()}
    if isinstance(v, (list, tuple)):
        return [freeze(x) for x in v]
    if isinstance(v, np.generic):
        return v.item()
    if isinstance(v, (bytes, str, int, float, bool, type(None))):
        return v
    if isinstance(v, bytearray):
        return bytes(v)
    return ('obj', type(v).__name__, repr(v)[:200] if type(v).__name__ in ('SeismicZfpVersion', 'Field') else '')


def same(x, y):
    if isinstance(x, np.ndarray) or isinstance(y, np.ndarray):
        return isinstance(x, np.ndarray) and isinstance(y, np.ndarray) and x.dtype == y.dtype and x.shape == y.shape and \
            (bits_equal(x, y) if x.dtype == np.float32 else np.ascontiguousarray(x).tobytes() == np.ascontiguousarray(y).tobytes())
    if isinstance(x, list) or isinstance(y, list):
        return isinstance(x, list) and isinstance(y, list) and len(x) == len(y) and all(same(p, q) for p, q in zip(x, y))
    return type(x) == type(y) and x == y


def run_op(obj, op, outp):
    """op = (method, args, kwargs, writes a file?)"""
    name, args, kw, wf = op
    if wf and os.path.exists(outp):
        os.remove(outp)
    try:
        args2 = tuple(outp if x == '@OUT' else x for x in args)
        v = quiet(call_kw, obj, name, args2, kw)
        if wf:
            return ('file', open(outp, 'rb').read() if os.path.exists(outp) else None)
        return ('ok', freeze(v))
    except Exception as e:
        return ('exc', exc_class(e))


FRESH = {}


def fresh_result(key, make, op, outp):
    k = (key, repr(op))
    if k not in FRESH:
        clear_class_caches()
        o = make()
        try:
            FRESH[k] = run_op(o, op, outp)
        finally:
            if hasattr(o, 'close'):
                o.close()
        clear_class_caches()
    return FRESH[k]


def part_b(files):
    nseq = 6 if quick else 40
    for label, (path, sgy) in files.items():
        M = meta(path)
        rc = reader_calls(M, None)
        reads = [(n, args, {}, False) for n in sorted(rc) for args in rc[n] if n not in ('__repr__', '__str__')]
        pools = {}
        conv = reads + [('convert_to_segy', ('@OUT',), {}, True), ('regenerate_trace_header', (1,), {}, False)]
        if M['adv']:
            conv.append(('convert_to_adv_sgz', ('@OUT',), {}, True))
        pools['SgzConverter'] = (lambda: SgzConverter(path), conv, ['convert_to_segy', 'convert_to_adv_sgz'])
        crop = reads + [('write_cropped_file_by_indexes', ('@OUT', (0, 4), None, None), {}, True),
                        ('write_cropped_file_by_indexes', ('@OUT', None, (4, 8), (0, 8)), {}, True)]
        if not M['is2d']:
            crop.append(('write_cropped_file_by_coords', ('@OUT', (M['ilines'][0], M['ilines'][4]), None, None), {}, True))
        pools['SgzCropper'] = (lambda: SgzCropper(path), crop, ['write_cropped_file_by_indexes', 'write_cropped_file_by_coords'])
        bs2 = (1, 4, -1) if M['is2d'] else (4, 4, -1)
        segy_ops = [('run', ('@OUT',), dict(bits_per_voxel=8), True), ('run', ('@OUT',), dict(bits_per_voxel=4, header_detection='thorough'), True),
                    ('run', ('@OUT',), dict(bits_per_voxel=8, blockshape=bs2, header_detection='exhaustive'), True),
                    ('run', ('@OUT',), dict(bits_per_voxel=16, header_detection='strip'), True)]
        if sgy:
            pools['SegyConverter'] = (lambda: quiet(SegyConverter, sgy), segy_ops, ['run'])
        for cname, (make, ops, special) in pools.items():
            for si in range(nseq if cname != 'SegyConverter' else max(2, nseq // 3)):
                n = rng.randrange(4, 11)
                seq = [rng.choice([o for o in ops if o[0] in special]) if rng.random() < 0.35 else rng.choice(ops) for _ in range(n)]
                outp = os.path.join(d, 'b_out.bin')
                outf = os.path.join(d, 'b_fresh.bin')
                want = [fresh_result((cname, label), make, op, outf) for op in seq]
                clear_class_caches()
                obj = make()
                try:
                    for i, op in enumerate(seq):
                        got = run_op(obj, op, outp)
                        w = want[i]
                        ok = got[0] == w[0] and (same(got[1], w[1]) if got[0] == 'ok' else got[1] == w[1])
                        if op[0] == 'read_variant_headers' and not M['structured']:
                            ok = True       # the public sticky mode: documented AssertionError after a call in the other mode (C15)
                        R.case(f'b|{label}|{cname}|{si}|{i}', nontrivial=(i > 0 and got[0] in ('ok', 'file')),
                               sample={'class': cname, 'file': label, 'position': i, 'call': op[0]})
                        R.count('b:' + op[0])
                        if not ok:
                            what = f'{got[0]} {got[1] if got[0] == "exc" else ""}' if got[0] != 'file' else f'a file of {len(got[1] or b"")} bytes'
                            whatw = f'{w[0]} {w[1] if w[0] == "exc" else ""}' if w[0] != 'file' else f'a file of {len(w[1] or b"")} bytes'
                            R.violation('oracle', {'class': cname, 'file': label, 'calls': [repr(o[:3]) for o in seq[:i + 1]], 'seed': a.seed},
                                        f'call #{i} {op[0]} on the used object gives {what}, on a fresh {cname} {whatw}'
                                        + (' (contents differ)' if got[0] == w[0] else ''))
                            break
                finally:
                    if hasattr(obj, 'close'):
                        obj.close()
                    clear_class_caches()
    # numpy converter: several runs of one object
    g = random.Random(a.seed + 11)
    arr = rnd_cube(g, (6, 7, 20))
    hd = {segyio.tracefield.TraceField.CDP_X: (np.arange(42, dtype=np.int64) * 3).reshape(6, 7)}
    ops = [('run', ('@OUT',), dict(bits_per_voxel=8), True), ('run', ('@OUT',), dict(bits_per_voxel=4), True),
           ('run', ('@OUT',), dict(bits_per_voxel=2, blockshape=(4, 4, -1)), True)]
    for th in (None, hd):
        make = (lambda: NumpyConverter(arr)) if th is None else (lambda: NumpyConverter(arr, trace_headers=dict(hd)))
        for si in range(2 if quick else 8):
            seq = [rng.choice(ops) for _ in range(rng.randrange(2, 5))]
            try:
                want = [fresh_result(('NumpyConverter', th is None), make, op, os.path.join(d, 'nf.bin')) for op in seq]
                obj = make()
            except Exception as e:
                R.violation('oracle', {'class': 'NumpyConverter', 'calls': ['__init__']}, f'constructing a NumpyConverter fails with {type(e).__name__}')
                break
            for i, op in enumerate(seq):
                got = run_op(obj, op, os.path.join(d, 'no.bin'))
                R.case(f'b|numpy|{th is None}|{si}|{i}', nontrivial=i > 0, sample={'class': 'NumpyConverter', 'position': i})
                R.count('b:NumpyConverter.run')
                if got != want[i]:
                    R.violation('oracle', {'class': 'NumpyConverter', 'calls': [repr(o[:3]) for o in seq[:i + 1]], 'seed': a.seed},
                                f'run #{i} on the used converter differs from a fresh one')
                    break


# ------------------------------------------------------------------------------------------------ main
try:
    try:
        data = genx_statefoot.census_data(os.path.join(REPO, 'seismic_zfp'))
    except Exception as e:
        data = None
        R.violation('corr', {'stage': 'census'}, f'the census cannot be generated for this tree: {type(e).__name__}: {e}')
    files = make_files()
    if data is not None:
        census = {}
        for (c, mod, mro, ext, ctor, cattrs, mrows) in data['rows']:
            census[c] = dict(mro=mro, ctor=ctor, methods={n: dict(defcls=dc, public=pub, kind=k, direct=di, closure=clo, args=ar)
                                                          for (n, dc, pub, k, di, clo, ar) in mrows})
        # generated side conditions (the Coq check census_ok decides; here only reported as what they are)
        if data['restored'] != [('SgzConverter', 'convert_to_segy', 'headerbytes')] or data['scratch'] != [('NumpyConverter', 'geom', ['run'])] \
                or data['memo_order_uses'] or data['sticky'] != [('SgzCropper', 'write_cropped_file_by_indexes')] \
                or any(e for (_, _, _, e) in data['mutable_defaults']) or not data['cropper_guard'] or not data['numpy_guard']:
            R.notes.append(f"generated side conditions differ from those proved: restored={data['restored']} scratch={data['scratch']} "
                           f"order_uses={data['memo_order_uses']} sticky={data['sticky']} defaults={data['mutable_defaults']}")
        # static verdict of the census itself, in Python (mirror of Model/StateFoot.v method_ok), reported as corr
        def evidence(e):
            if e[3] == 'restored':
                return (e[0], e[1], e[2]) in data['restored']
            if e[3] == 'scratch':
                return any(x[0] == e[0] and x[1] == e[2] for x in data['scratch'])
            if e[3] == 'alias':
                return bool(data['numpy_guard'])
            return True
        nstatic = 0
        for c, row in census.items():
            cache = cache_of(row['mro'], c)
            for n, m in row['methods'].items():
                if not m['public'] or n in LIFECYCLE:
                    continue
                for t in m['closure']:
                    ex = [e for e in EXCEPTIONS if e[0] == c and e[1] == n and e[2] == t and evidence(e)]
                    if t not in cache and not ex:
                        nstatic += 1
                        R.count('static: footprint outside the cache set')
                        if nstatic <= 3:
                            R.violation('corr', {'class': c, 'method': n, 'token': t},
                                        f'the census says public method {c}.{n} can write {t}, which is neither a cache token nor a listed exception '
                                        f'with its evidence (the proof C15a_census_checked fails on this tree)')
        for (c_, m_, p_, esc) in data['mutable_defaults']:
            if esc:
                R.violation('corr', {'class': c_, 'method': m_, 'param': p_}, 'a mutable default argument is mutated / escapes: shared between calls')
        if not a.no_model:
            try:
                from coqeval import coq_eval
                vals = coq_eval(['SZ.Model.StateFoot'], ['reader_cache', 'loader_cache',
                                                         'map (fun e => (e_class e, e_method e, e_token e)) exceptions', 'census_ok'])
                import re
                strs = [re.findall(r'"([^"]*)"', v) for v in vals[:3]]
                if strs[0] != READER_CACHE or strs[1] != LOADER_CACHE:
                    R.violation('corr', {'stage': 'cache set'}, f'cache set of Model/StateFoot.v {strs[0]} / {strs[1]} differs from the harness copy')
                ex3 = [tuple(strs[2][i:i + 3]) for i in range(0, len(strs[2]), 3)]
                if ex3 != [e[:3] for e in EXCEPTIONS]:
                    R.violation('corr', {'stage': 'exceptions'}, f'exception list of Model/StateFoot.v {ex3} differs from the harness copy')
                if a.pid and os.path.realpath(REPO) == '/repo' and vals[3].strip() != 'true':
                    R.violation('corr', {'stage': 'census_ok'}, 'census_ok evaluates to false on the compiled census')
            except Exception as e:
                R.violation('corr', {'stage': 'coqeval'}, f'the model could not be evaluated: {str(e)[-800:]}')
        part_a(files, census)
        EXERCISED.update({('SegyConverter', 'run'), ('NumpyConverter', 'run'), ('ZsliceAccessor', '__iter__'), ('HeaderAccessor', '__iter__')})
        concrete = ['SgzReader', 'SgzConverter', 'SgzCropper', 'SgzLoader2d', 'SgzLoader3d', 'SegyioEmulator', 'TraceAccessor', 'HeaderAccessor',
                    'InlineAccessor', 'CrosslineAccessor', 'ZsliceAccessor', 'SubvolumeAccessor', 'SegyConverter', 'NumpyConverter', 'SeismicZfpBackendArray']
        missing = sorted(f'{c}.{n}' for c in concrete if c in census for n, m in census[c]['methods'].items()
                         if m['public'] and n not in LIFECYCLE and (c, n) not in EXERCISED
                         and not (c not in ('SgzReader', 'SgzConverter', 'SgzCropper') and m['defcls'] == 'SgzReader'))
        R.count('a: checked public methods exercised', len(EXERCISED))
        R.notes.append('checked public methods with no dynamic footprint check (static census only): ' + ', '.join(missing))
    part_b(files)
finally:
    shutil.rmtree(d, ignore_errors=True)
R.write(a.out)
