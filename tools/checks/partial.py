#!/usr/bin/env python3
"""Harness for C18 (partial files: an interrupted conversion or copy never reads back as data).

For every route (NumPy default / z-slice layout, SEG-Y heuristic / thorough / exhaustive / strip, SEG-Y with reduce_iops=True,
irregular SEG-Y, 2D, and an all-constant 2D 'thorough' file) the conversion is run with the output handles wrapped, so that
the sequence of file-changing events (handle, offset, bytes) is recorded in program order: writes (at the position left by
any seek, through any handle, append mode included), and truncates (one that extends the file is an event appending zero
bytes; one that shortens it is an atomic event), so that a replayed prefix is the real file contents at that point.
Crash states:
  * every prefix of the event sequence, with cuts inside each event (0, 1, every 512 bytes, len-1; denser inside the
    in-place patches: every row of the table patch and the bytes inside the value field of every row that changes);
  * the histories in which the hash patch (second handle, unbuffered) reaches the file BEFORE some of the footer arrays
    (main handle, buffered): hash moved in front of each footer event;
  * every truncation length of the finished file at the same cut points.
  * the output path already holds a complete, valid SGZ file of an EARLIER conversion of other data / other settings
    (per route one longer, one of equal length -- the same writer on other data of the same shape -- and one shorter,
    from the pool of all routes' outputs, their twins, a 16-bit exhaustive and a 2-bit strip file): the writer runs onto
    that path with the library's REAL open (mode, opener, flags as the library passes them); what that open left of the
    earlier file is read back from the disk and is the base the recorded events are replayed on (a Base event).  The
    completed file must be byte-identical to the one written onto a fresh path; crash states that do not occur on a
    fresh path are evaluated with the same direct oracle (no byte of the earlier file is ever decoded).
  * the copy writers (SgzCropper.write_cropped_file_by_indexes / _by_coords, SgzConverter.convert_to_adv_sgz): the crash
    states of the writer onto a fresh path, and the writer onto a path holding an older, longer file (thorough tier: also
    equal / shorter); convert_to_segy onto an older, longer SGZ and SEG-Y: the completed export, and what the library's
    patch handle found and wrote, must be those of an export onto a fresh path.
On every state every read method (and the constructor) is run from a fresh reader.
direct oracle (no model): the call raises, or returns bitwise what it returns on the complete file.
correspondence: (1) for states whose header already equals the final one (hash bytes aside) the model's verdict
  predict_cuts (Model/Faults.v, evaluated in Coq on the read plan recorded on the complete file) must equal "raised";
  (2) for every header state, Model/Faults.v open_table on the 89 table rows and the count found in the state must say
  Raise exactly when the constructor raises, and on success give the reader's template (constants and array slots).
known findings (guarded, reported with a key): get_source_data_hash before / inside the hash patch; a table patch torn
  inside the value bytes of a row (only the all-constant 'thorough' file can show it through a read method).
"""
import os, sys, io, struct, hashlib, builtins
sys.path.insert(0, os.path.dirname(os.path.abspath(__file__)))
from common import *
a = parse_args()
from hz import *
import hz as _hz
_hz.DECOY[0] = False      # this harness records / schedules the writers' own file operations: no decoy history here
from coqeval import coq_eval, parse_value, zlit
import seismic_zfp.conversion as conv_mod

R = Result('one case = (route, crash state, read method + arguments); crash states = every boundary of a file-changing event (write / truncate through any handle), cuts inside '
           'events (every 512 bytes, +-1 around boundaries, every table row and the value bytes of changed rows inside the '
           'table patch), hash-before-footer interleavings, and truncations of the finished file; the same writers (and the cropper / '
           're-blocker / SEG-Y export) onto a path holding an earlier longer / equal / shorter valid file; non-trivial = a state that '
           'is a proper prefix (not the complete file) on which the constructor or the call has to decide')
rng = random.Random(a.seed * 15485863 + 5)
rng2 = random.Random(a.seed * 32452843 + 11)      # twins / earlier files (a stream of its own: the routes' data stay as they were)
QUICK = a.tier != 'thorough'
d = scratch_dir()
HASH_KEY = 'D40-hash-before-patch'
TORN_KEY = 'D41-torn-table-value'


# ------------------------------------------------------------------------------------------------ recording
class Zeros(bytes):
    """the bytes a truncate() that EXTENDS the file appends (a file-changing event like any write)"""


class Shrink(bytes):
    """marker (empty) of a truncate() / re-open in 'w' mode that SHORTENS the file to the event's offset; atomic"""


class Base(bytes):
    """what the output path held right after the library's FIRST open of it, read back from the disk: whatever mode, opener
    or flags the library passes, the replay starts from what that open really left of an earlier file (nothing, for 'wb')"""


class RecFile:
    """wrapper of an output handle: EVERY operation that changes the file is logged as an event (handle, offset, bytes) at
    the logical position it takes effect: write / writelines (after any seek, also beyond the end: the hole reads as
    zeros), writes of a handle in append mode (always at the end), truncate (extension = appended zeros, reduction =
    Shrink).  `size` is the logical file size shared by all the handles of the file (buffered data included)."""
    def __init__(self, f, log, hid, size, append=False):
        self._f, self._log, self._hid, self._size, self._append = f, log, hid, size, append

    @property
    def name(self):
        return self._f.name

    def _event(self, off, data):
        self._log.append((self._hid, off, data))
        self._size['n'] = off if isinstance(data, Shrink) else max(self._size['n'], off + len(data))

    def write(self, data):
        data = bytes(data)
        self._event(self._size['n'] if self._append else self._f.tell(), data)
        return self._f.write(data)

    def writelines(self, lines):
        for x in lines:
            self.write(x)

    def truncate(self, size=None):
        n = self._f.tell() if size is None else int(size)
        cur = self._size['n']
        if n > cur:
            self._event(cur, Zeros(n - cur))
        elif n < cur:
            self._event(n, Shrink())
        return self._f.truncate(n)

    def seek(self, *a_):
        return self._f.seek(*a_)

    def tell(self):
        return self._f.tell()

    def flush(self):
        self._log.append((self._hid, -1, b'FLUSH'))
        return self._f.flush()

    def close(self):
        return self._f.close()

    def __getattr__(self, attr):
        # anything else (fileno, closed, mode, readable, read ...) does not change the file: pass it through
        return getattr(self._f, attr)

    def __enter__(self):
        return self

    def __exit__(self, *a_):
        self._f.close()
        return False


def lib_modules():
    """the library's modules that use the builtin open (conversion, cropping, ...; not the ones defining their own `open`)"""
    return [m for n, m in list(sys.modules.items()) if n.startswith('seismic_zfp.') and m is not None and 'open' not in vars(m)]


def record(out_path, run):
    """run a writer with the library's open wrapped (the REAL open is executed with the library's own mode / arguments);
    returns the file-changing events in program order, preceded by a Base event if the first open left something of what
    the path held before"""
    log = []
    count = {'n': 0, 'opens': 0}
    size = {'n': 0}

    def rec_open(path, mode='r', *args, **kw):
        f = builtins.open(path, mode, *args, **kw)
        if isinstance(path, (str, bytes, os.PathLike)) and os.path.abspath(os.fsdecode(path)) == os.path.abspath(out_path):
            count['opens'] += 1
            if count['opens'] == 1:
                with builtins.open(out_path, 'rb') as g:
                    left = g.read()
                if left:
                    log.append((0, 0, Base(left)))
                    size['n'] = len(left)
            if any(ch in mode for ch in 'wax+'):
                count['n'] += 1
                if 'w' in mode and size['n'] > 0 and count['opens'] > 1 and os.path.getsize(out_path) == 0:
                    log.append((count['n'], 0, Shrink()))            # re-opening in 'w' mode emptied the file
                    size['n'] = 0
                return RecFile(f, log, count['n'], size, append='a' in mode)
        return f
    mods = lib_modules()
    for m in mods:
        m.open = rec_open
    try:
        run()
    finally:
        for m in mods:
            del m.open
    return log


def replay(events, upto=None, cut=None):
    """file contents after events[:upto] and the first `cut` bytes of events[upto]"""
    buf = bytearray()
    for i, (hid, off, data) in enumerate(events):
        if upto is not None and i == upto:
            data = data[:cut]            # (a plain bytes object: a cut Shrink event has not happened yet)
        if upto is not None and i > upto:
            break
        if isinstance(data, Shrink):
            del buf[off:]
            continue
        if off > len(buf):
            buf.extend(bytes(off - len(buf)))      # a write beyond the end: the hole reads as zeros
        buf[off:off + len(data)] = data
    return bytes(buf)


class MemFile(io.BytesIO):
    def __init__(self, data, name='partial.sgz'):
        super().__init__(data)
        self.name = name
        self.reads = []

    def read(self, n=-1):
        self.reads.append((self.tell(), n))
        return super().read(n)


# ------------------------------------------------------------------------------------------------ routes
def routes():
    """(label, kind, writer(path), twin writer(path), source name): the twin writes OTHER data (samples, line numbers, header
    values) of the same shape with the same settings -- an earlier file of the same length as the new one"""
    Rts = []

    def add(label, kind, make, data, twin, src):
        Rts.append((label, kind, lambda p: make(p, data), lambda p: make(p, twin), src))

    def segy(name, cube, ilines, xlines, **kw):
        path = os.path.join(d, name + '.sgy')
        mk_segy(path, cube, ilines, xlines, **kw)
        return path
    c, ct = rnd_cube(rng, (9, 10, 20)), rnd_cube(rng2, (9, 10, 20))
    add('numpy_default', '3d', lambda p, x: write_numpy_sgz(p, x, bpv=8), c, ct, 'np_a')
    cz, czt = rnd_cube(rng, (66, 9, 6)), rnd_cube(rng2, (66, 9, 6))
    add('numpy_zslice', '3d', lambda p, x: write_numpy_sgz(p, x, bpv=2, blockshape=(64, 64, 4)), cz, czt, 'np_z')
    c5, c5t = rnd_cube(rng, (5, 6, 20)), rnd_cube(rng2, (5, 6, 20))
    s = segy('reg', c5, 10 + 2 * np.arange(5), 100 + 3 * np.arange(6))
    st = segy('reg_t', c5t, 71 + 3 * np.arange(5), 9 + np.arange(6))
    for hd in ('heuristic', 'thorough', 'exhaustive', 'strip'):
        add('segy_' + hd, '3d', lambda p, x, hd=hd: write_segy_sgz(x, p, bpv=4, header_detection=hd), s, st, 'reg')
    present = np.ones((5, 6), dtype=bool); present[0, 0] = present[2, 3] = present[4, 5] = False
    s2 = segy('irr', c5, 10 + np.arange(5), 100 + np.arange(6), present=present)
    s2t = segy('irr_t', c5t, 40 + np.arange(5), 3 + np.arange(6), present=present)
    add('segy_irregular', '3d', lambda p, x: write_segy_sgz(x, p, bpv=4), s2, s2t, 'irr')
    c2, c2t = rnd_cube(rng, (21, 30)), rnd_cube(rng2, (21, 30))
    s3, s3t = os.path.join(d, 'l2d.sgy'), os.path.join(d, 'l2d_t.sgy')
    mk_segy_2d(s3, c2)
    mk_segy_2d(s3t, c2t)
    add('2d_heuristic', '2d', lambda p, x: write_segy_sgz(x, p, bpv=4), s3, s3t, 'l2d')
    add('2d_thorough', '2d', lambda p, x: write_segy_sgz(x, p, bpv=4, header_detection='thorough'), s3, s3t, 'l2d')
    # every trace header word constant, the last table row (SourceMeasurementUnit, 231) with a two-byte value
    s4, s4t = os.path.join(d, 'const2d.sgy'), os.path.join(d, 'const2d_t.sgy')
    mk_segy_2d(s4, c2, hdr=lambda t: {segyio.TraceField.CDP: 7, segyio.TraceField.TRACE_SEQUENCE_FILE: 3,
                                       segyio.TraceField.SourceMeasurementUnit: 4000})
    mk_segy_2d(s4t, c2t, hdr=lambda t: {segyio.TraceField.CDP: 9, segyio.TraceField.TRACE_SEQUENCE_FILE: 5,
                                         segyio.TraceField.SourceMeasurementUnit: 3000})
    add('2d_thorough_allconst', '2d', lambda p, x: write_segy_sgz(x, p, bpv=4, header_detection='thorough'), s4, s4t, 'const2d')
    if not QUICK:
        add('segy_thorough_iops', '3d', lambda p, x: write_segy_sgz(x, p, bpv=4, header_detection='thorough', reduce_iops=True), s, st, 'reg')
        cb, cbt = rnd_cube(rng, (13, 17, 40)), rnd_cube(rng2, (13, 17, 40))
        add('numpy_default_b', '3d', lambda p, x: write_numpy_sgz(p, x, bpv=4), cb, cbt, 'np_b')
        add('numpy_88', '3d', lambda p, x: write_numpy_sgz(p, x, bpv=4, blockshape=(8, 8, -1)), c5, c5t, 'reg')
    # reduce_iops=True (the MinimalInlineReader producer; the converter's own default): several inline sets, so that there
    # are crash states with some, but not all, of the compressed blocks on disk
    ci = rnd_cube(rng, (rng.choice((10, 13, 15)), 6, 20))
    n5 = ci.shape[0]
    s5 = segy('iops', ci, 20 + np.arange(n5), 100 + 2 * np.arange(6))
    s5t = segy('iops_t', rnd_cube(rng2, ci.shape), 300 + 2 * np.arange(n5), 1 + np.arange(6))
    add('segy_heuristic_iops', '3d', lambda p, x: write_segy_sgz(x, p, bpv=4, reduce_iops=True), s5, s5t, 'iops')
    return Rts


def canon(v):
    if isinstance(v, np.ndarray):
        return ('nd', v.dtype.str, v.shape, np.ascontiguousarray(v).tobytes())
    if isinstance(v, dict):
        return ('dict', tuple(sorted((int(k), canon(x)) for k, x in v.items())))
    if isinstance(v, (list, tuple)):
        return ('seq', tuple(canon(x) for x in v))
    if isinstance(v, (bytes, bytearray)):
        return ('bytes', bytes(v))
    if isinstance(v, (np.integer, int)):
        return ('int', int(v))
    if isinstance(v, (np.floating, float)):
        return ('float', float(v).hex())
    if isinstance(v, str) or v is None:
        return ('s', v)
    return ('repr', repr(v))


def diff_text(got, want):
    """what differs between two canon() values, for the violation text"""
    if got[0] == 'nd' and want[0] == 'nd' and got[1:3] == want[1:3]:
        g, w = (np.frombuffer(x[3], dtype=np.dtype(x[1])) for x in (got, want))
        ne = g != w
        return f': array {got[2]}, {int(ne.sum())} of {g.size} elements differ, {int((g[ne] == 0).sum())} of those read 0'
    if got[0] in ('seq', 'dict') and got[0] == want[0] and len(got[1]) == len(want[1]):
        bad = [i for i, (x, y) in enumerate(zip(got[1], want[1])) if x != y]
        return f': {got[0]} differs at positions {bad[:8]}, first: {str(got[1][bad[0]])[:60]} instead of {str(want[1][bad[0]])[:60]}'
    return f': {str(got)[:80]} instead of {str(want)[:80]}'


def ops_for(final, kind):
    r = SgzReader(MemFile(final))
    C = [('open', ())]
    if kind == '3d':
        ni, nx, ns, tc = r.n_ilines, r.n_xlines, r.n_samples, r.tracecount
        C += [('read_inline', (0,)), ('read_inline', (ni - 1,)), ('read_crossline', (nx - 1,)), ('read_zslice', (ns // 2,)),
              ('read_zslice', (ns - 1,)), ('read_volume', ()), ('read_subvolume', (1, min(ni, 6), 2, min(nx, 7), 3, min(ns, 9))),
              ('get_trace', (0,)), ('get_trace', (tc - 1, 2, min(ns, 7))), ('read_correlated_diagonal', (0,)),
              ('read_anticorrelated_diagonal', (nx - 1,))]
    else:
        tc, ns = r.tracecount, r.n_samples
        C += [('get_trace', (0,)), ('get_trace', (tc - 1,)), ('read_subplane', (1, tc - 2, 2, ns - 1)), ('read_subplane', (0, tc, 0, ns))]
    C += [('gen_trace_header', (0,)), ('gen_trace_header', (tc - 1,)), ('gen_trace_header_all', (tc // 2,))]
    if r.stored_header_keys:
        C += [('get_tracefield_values', (int(r.stored_header_keys[0]),)), ('get_tracefield_values', (int(r.stored_header_keys[-1]),)),
              ('read_variant_headers', ())]
    C += [('get_source_data_hash', ()), ('get_file_binary_header', ()), ('get_file_text_header', ())]
    return C


HEADER_OPS = {'open', 'gen_trace_header', 'gen_trace_header_all', 'get_tracefield_values', 'read_variant_headers', 'get_source_data_hash'}


def do_op(data, name, args, preload=False):
    """returns ('raise', class) or ('val', canon), and the reads issued by the call (after the constructor)"""
    f = MemFile(data)
    try:
        r = SgzReader(f, preload=preload)
    except Exception as e:
        return ('raise', type(e).__name__), None
    n0 = len(f.reads)
    try:
        return _do_op_once(r, f, n0, name, args)
    except Exception as e:
        # the SAME call once more on the same reader object: what the failed attempt left behind (a half-filled memo, a
        # cached placeholder) must not turn the retry into a value that the complete file does not give
        n1 = len(f.reads)
        try:
            return _do_op_once(r, f, n0, name, args)
        except Exception:
            return ('raise', type(e).__name__), f.reads[n0:n1]


def _do_op_once(r, f, n0, name, args):
    if True:
        if name == 'open':
            v = [r.n_ilines if r.is_3d else 0, r.n_xlines if r.is_3d else 0, r.n_samples, r.tracecount, list(r.blockshape),
                 float(r.rate), bytes(r.file_text_header), bytes(r.file_binary_header), r.compressed_data_diskblocks,
                 [float(x) for x in r.zslices], [int(x) for x in r.ilines] if r.is_3d else [], [int(x) for x in r.xlines] if r.is_3d else [],
                 int(r.get_file_source_code()), int(r.get_header_detection_method_code()), str(r.get_file_version())]
            # (the internal template -- which header words are constants, which are arrays -- is compared with the model's
            #  open_table below; before the 'thorough' patches it names 89 arrays none of which can be read)
        elif name == 'gen_trace_header_all':
            v = r.gen_trace_header(args[0], load_all_headers=True)
        elif name == 'read_variant_headers':
            r.read_variant_headers()
            v = dict(r.variant_headers)
        elif name == 'get_file_binary_header':
            v = dict(r.get_file_binary_header())
        else:
            v = getattr(r, name)(*args)
        return ('val', canon(v)), f.reads[n0:]


def cuts_in(n, dense=()):
    c = {0, 1, n - 1, n} | set(range(512, n, 512)) | set(dense)
    return sorted(x for x in c if 0 <= x <= n)


def table_rows(b):
    return [struct.unpack('<iii', b[980 + 12 * i: 980 + 12 * i + 12]) for i in range(89)]


GEN_ORDER = {}


def expected_shape(conv, thorough, strip, has_footer):
    """the order of write events the GENERATED Gen/Faults.v records for this converter, restricted to this route"""
    if not GEN_ORDER:
        if a.no_model:
            GEN_ORDER['segy'] = 'WHeader; WBlocks; WPatch 64 4 OnlyThorough; WPatch 980 1068 OnlyThorough; WFooter UnlessStrip; WPatch 960 20 Always'
            GEN_ORDER['numpy'] = 'WHeader; WBlocks; WFooter Always; WPatch 960 20 Always'
        else:
            v = coq_eval(['SZ.Gen.Faults'], ['segy_write_order', 'numpy_write_order'])
            GEN_ORDER['segy'], GEN_ORDER['numpy'] = [x.strip().strip('[]') for x in v]
    out = []
    for ev in GEN_ORDER[conv].split(';'):
        t = ev.replace('(', ' ').replace(')', ' ').split()
        cond = t[-1] if t[-1] in ('Always', 'OnlyThorough', 'UnlessStrip') else 'Always'
        on = {'Always': True, 'OnlyThorough': thorough, 'UnlessStrip': not strip}[cond]
        if t[0] == 'WHeader':
            out.append('H')
        elif t[0] == 'WBlocks':
            out.append('B')
        elif t[0] == 'WPatch' and on:
            out.append(f'P{t[1]}+{t[2]}')
        elif t[0] == 'WFooter' and on and has_footer:
            out.append('F')
    return out


# ------------------------------------------------------------------------------------------------ one route
def shape_of(events, data_end):
    shape = []
    for (h, o, b) in events:
        if isinstance(b, Base):
            shape.append('O')            # bytes of an earlier file that the open left in place
        elif isinstance(b, (Zeros, Shrink)):
            shape.append('T')            # a truncate: no converter in Gen/Faults.v has one in its write order
        elif h == 1 and o == 0:
            shape.append('H')
        elif h == 1 and o < data_end:
            shape.append('B')
        elif h == 1:
            shape.append('F')
        else:
            shape.append(f'P{o}+{len(b)}')
    return shape


def crash_states(events, shape, final):
    """bytes -> description (first one wins) of every crash state of the recorded history"""
    states = {}
    rows_final = table_rows(final)

    def add(b, desc):
        if b not in states:
            states[b] = desc
    for e, (h, o, b) in enumerate(events):
        dense = ()
        if isinstance(b, Base):
            continue                     # (not a write: the state "opened, nothing written yet" is cut 0 of the next event)
        elif isinstance(b, (Zeros, Shrink)):
            pass
        elif h != 1 and len(b) == 1068:
            before = replay(events, e, 0)
            rows0 = table_rows(before)
            dense = [12 * i for i in range(90)]
            for i in range(89):
                if rows0[i] != rows_final[i]:
                    dense += [12 * i + x for x in (4, 5, 6, 7, 8, 9)]
        elif h != 1:
            dense = range(len(b) + 1)
        for c in cuts_in(len(b), dense):
            add(replay(events, e, c), {'history': 'program-order', 'event': e, 'kind': shape[e], 'cut': c})
    add(final, {'history': 'complete'})
    # hash patch landing before footer events
    fidx = [i for i, s in enumerate(shape) if s == 'F']
    hidx = [i for i, s in enumerate(shape) if s == 'P960+20']
    if fidx and hidx:
        for k in fidx:
            ev2 = events[:k] + [events[hidx[0]]] + [ev for i, ev in enumerate(events[k:], k) if i != hidx[0]]
            assert replay(ev2) == final
            for e in range(k, len(ev2)):
                for c in cuts_in(len(ev2[e][2])):
                    add(replay(ev2, e, c), {'history': f'hash-before-footer-event-{k}', 'event': e, 'cut': c})
    # truncations of the finished file
    bounds = set()
    pos = 0
    for (h, o, b) in events:
        if h == 1:
            bounds.add(o); bounds.add(o + len(b))
    for L in sorted({x for bnd in bounds for x in (bnd - 1, bnd, bnd + 1)} | set(range(0, len(final), 512)) | {len(final) - 1}):
        if 0 <= L <= len(final):
            add(final[:L], {'history': 'truncation', 'length': L})
    return states


def judge(inp, desc, name, res, wanted, hdr_is_final, hash_is_final, n_state):
    """the direct oracle on one call: it raised, or returned what the complete file returns (known findings guarded)"""
    R.count('raise' if res[0] == 'raise' else 'value')
    if res[0] != 'val' or res == wanted:
        return
    if name == 'get_source_data_hash' and not hash_is_final:
        R.count('known_' + HASH_KEY)
        if R.distribution['known_' + HASH_KEY] <= 2:
            R.violation('oracle', inp, 'source-data hash differs from the complete file (zeros / partial) and no error', finding_key=HASH_KEY)
        if HASH_KEY not in R.known:
            R.known.append(HASH_KEY)
    elif (not hdr_is_final) and desc.get('kind') == 'P980+1068' and desc.get('cut', 0) % 12 in (5, 6, 7) \
            and name in ('open', 'gen_trace_header', 'gen_trace_header_all') and 'output path held' not in inp:
        R.count('known_' + TORN_KEY)
        if R.distribution['known_' + TORN_KEY] <= 4:
            R.violation('oracle', inp, 'table patch torn inside a value field: the constructor accepts the table and a header '
                                       'constant differs from the complete file: ' + str(res[1])[-120:], finding_key=TORN_KEY)
        if TORN_KEY not in R.known:
            R.known.append(TORN_KEY)
    else:
        R.count('oracle_violation')
        n_state[id(desc)] = n_state.get(id(desc), 0) + 1
        n_state['listed'] = n_state.get('listed', 0) + (n_state[id(desc)] <= 3)
        if n_state[id(desc)] <= 3 and not ('output path held' in inp and n_state['listed'] > 6):
            # (the list is capped: leave room for the other states, and for the other routes onto earlier files)
            R.violation('oracle', inp, 'the call returned, without raising, something that differs from what the '
                                       'complete file returns' + diff_text(res[1], wanted[1]))


def run_route(label, kind, conv, converter=True):
    """converter=False: a copy writer (cropper, re-blocker): same crash states and direct oracle, no write-order model"""
    out = os.path.join(d, label + '.sgz')
    raw = record(out, lambda: conv(out))
    events = [(h, o, b) for (h, o, b) in raw if o >= 0]
    final = open(out, 'rb').read()
    if replay(events) != final:
        R.violation('corr', {'route': label}, 'replaying the recorded write events does not give the finished file')
        return None
    # ---- the recorded order against the generated one (Gen/Faults.v segy_write_order / numpy_write_order)
    sp = SpecFile(out)
    data_end = 4096 * sp.nhb + 4096 * sp.ndb
    shape = shape_of(events, data_end)
    comp = [k for k, g in itertools.groupby(shape)]
    thorough = 'thorough' in label
    if converter:
        expect = expected_shape('numpy' if label.startswith('numpy') else 'segy', thorough, 'strip' in label, 'F' in comp)
        if comp != expect:
            R.violation('corr', {'route': label}, f'write events {comp} differ from the generated order {expect} (Gen/Faults.v)')
        flushes = [i for i, (h, o, b) in enumerate(raw) if o == -1]
        n_before_flush = sum(1 for (h, o, b) in raw[:flushes[0]] if o >= 0) if flushes else -1
        if not flushes or shape[:n_before_flush] != ['H'] + ['B'] * (n_before_flush - 1) or 'B' in shape[n_before_flush:]:
            R.violation('corr', {'route': label}, 'the data section is not complete and flushed before the patches / footer')
    R.count('events', len(events))
    # ---- states
    states = crash_states(events, shape, final)
    R.count('states', len(states))
    # ---- complete-file answers and plans
    ops = ops_for(final, kind)
    want, plans = {}, {}
    for name, args in ops:
        res, reads = do_op(final, name, args)
        assert res[0] == 'val', (label, name, args, res)
        want[(name, args)] = res
        plans[(name, args)] = [(0, 4096), (0, 4096 * sp.nhb)] + list(reads)
    hdr_final = final[:960] + final[980:8192]
    model_jobs = []      # (state bytes, op, impl_raised)
    table_jobs = {}      # (rows, count) -> (impl open result, desc)
    n_seen = 0
    n_state = {}
    for b, desc in states.items():
        L = len(b)
        hdr_is_final = L >= 8192 and (b[:960] + b[980:8192]) == hdr_final
        hash_is_final = L >= 980 and b[960:980] == final[960:980]
        reduced = (desc.get('kind', '').startswith('P') and desc.get('cut') not in (0,) and desc.get('kind') != 'P960+20'
                   and desc.get('cut', 0) % 12 not in (0,)) and not hdr_is_final
        for name, args in ops:
            if reduced and name not in HEADER_OPS and name != 'read_volume' and name != 'get_trace':
                continue
            res, _ = do_op(b, name, args)
            inp = {'route': label, 'state': desc, 'length': L, 'call': name, 'args': list(args)}
            n_seen += 1
            R.case((label, hashlib.sha1(b).hexdigest()[:12], name, args), nontrivial=(b != final),
                   sample=inp if (n_seen % 997 == 1) else None)
            judge(inp, desc, name, res, want[(name, args)], hdr_is_final, hash_is_final, n_state)
            if hdr_is_final and name != 'get_source_data_hash':
                model_jobs.append((L, (name, args), res[0] == 'raise', inp))
        if L >= 8192:
            rows = tuple(table_rows(b))
            cnt = struct.unpack('<I', b[64:68])[0]
            res, _ = do_op(b, 'open', ())
            table_jobs.setdefault((rows, cnt), (res, desc))
        # preload: the whole data section must be there
        if desc.get('history') == 'truncation' or desc.get('kind') == 'B':
            res, _ = do_op(b, 'read_volume' if kind == '3d' else 'get_trace', () if kind == '3d' else (0,), preload=True)
            if res[0] == 'val' and res != want[('read_volume', ()) if kind == '3d' else ('get_trace', (0,))]:
                R.violation('oracle', {'route': label, 'state': desc, 'call': 'preload'}, 'preloaded reader returns different samples')
            R.count('preload')
    # ---- model, part 1: predict_cuts per op over the lengths of the final-header states
    rec = {'label': label, 'kind': kind, 'conv': conv, 'final': final, 'events': events, 'data_end': data_end, 'ops': ops,
           'want': want, 'digests': {hashlib.sha1(b).digest() for b in states}, 'n_states': len(states)}
    if converter and not a.no_model:
        by_op = {}
        for L, op, raised, inp in model_jobs:
            by_op.setdefault(op, []).append((L, raised, inp))
        terms, keys = [], []
        for op, lst in by_op.items():
            Ls = sorted({L for L, _, _ in lst})
            pl = '[' + '; '.join(f'({o}, {n})' for o, n in plans[op]) + ']'
            terms.append(f'predict_cuts [{"; ".join(map(str, Ls))}] {pl}')
            keys.append((op, Ls))
        # part 2: open_table on every header state
        tkeys = list(table_jobs.keys())
        for rows, cnt in tkeys:
            rl = '[' + '; '.join(f'({zlit(k)}, {zlit(v0)}, {zlit(v1)})' for k, v0, v1 in rows) + ']'
            terms.append(f'open_table {rl} {cnt}')
        try:
            vals = coq_eval(['SZ.Model.Faults'], terms, shard=60)
        except Exception as e:
            R.violation('corr', {'route': label, 'what': 'model evaluation'}, f'the model could not be evaluated: {str(e)[-600:]}')
            vals = None
        if vals is not None:
            for (op, Ls), v in zip(keys, vals[:len(keys)]):
                pred = dict(zip(Ls, parse_value(v)))
                for L, raised, inp in by_op[op]:
                    R.count('model_cut_cases')
                    if pred[L] != raised:
                        R.violation('corr', inp, f'model predicts {"an error" if pred[L] else "a value"} at length {L}, implementation '
                                                 f'{"raised" if raised else "returned a value"}')
            base = data_end
            for (rows, cnt), v in zip(tkeys, vals[len(keys):]):
                res, desc = table_jobs[(rows, cnt)]
                R.count('model_table_cases')
                inp = {'route': label, 'state': desc, 'call': 'open (table)', 'count': cnt}
                v = v.strip()
                if re.match(r'\(?(Py\.)?Raise', v):
                    if res[0] != 'raise':
                        R.violation('corr', inp, f'model: {v}; implementation opened the file')
                else:
                    if res[0] == 'raise':
                        # the constructor may also fail for other reasons than the table (none expected once 8192 bytes exist)
                        R.violation('corr', inp, f'model accepts the table ({v[:60]}...), implementation raised {res[1]}')
                    else:
                        # compare the template: constants and slots
                        m = re.findall(r'\((-?\(?-?\d+\)?), (HConst \(?-?\d+\)?|HOffset \d+)\)', v)
                        md = {}
                        for k, hv in m:
                            k = int(re.sub(r'[()]', '', k))
                            if hv.startswith('HConst'):
                                md[k] = ('const', int(re.sub(r'[()]', '', hv.split(' ', 1)[1])))
                            else:
                                md[k] = ('slot', int(hv.split()[1]))
                        # recompute the reader's template on this state
                        st = [bb for bb, dd in states.items() if dd is desc][0]
                        rr = SgzReader(MemFile(st))
                        stride = rr.padded_header_entry_length_bytes
                        for k, val in rr.segy_traceheader_template.items():
                            k = int(k)
                            if type(val).__name__ == 'FileOffset':
                                got = ('slot', (int(val) - base) // stride if stride else 0)
                            else:
                                got = ('const', int(val))
                            if md.get(k) != got:
                                R.violation('corr', dict(inp, key=k), f'header word {k}: model {md.get(k)}, implementation {got}')
                                break
    return rec


# ------------------------------------------------------------------------------------------------ onto an earlier file
def over_existing(rec, elabel, E):
    """the writer of `rec` onto a path that holds the complete, valid earlier file E (other data / other settings).
    direct oracle: (1) the completed file is byte-identical to the one written onto a fresh path; (2) every crash state --
    built from what the library's own open() left of E, observed on disk -- raises or returns what the complete NEW file
    returns: no byte of E is ever decoded.  Crash states that also occur on a fresh path were evaluated there."""
    label, final = rec['label'], rec['final']
    out = os.path.join(d, label + '_over.sgz')
    with open(out, 'wb') as f:
        f.write(E)
    how = 'longer' if len(E) > len(final) else 'shorter' if len(E) < len(final) else 'equal'
    inp0 = {'route': label, 'output path held': elabel, 'earlier length': len(E), 'new length': len(final)}
    try:
        raw = record(out, lambda: rec['conv'](out))
    except Exception as e:
        R.violation('oracle', inp0, f'the writer raised {type(e).__name__}: {e} because the output path exists')
        return
    events = [(h, o, b) for (h, o, b) in raw if o >= 0]
    final2 = open(out, 'rb').read()
    os.remove(out)
    R.case((label, 'over', elabel, 'complete'), nontrivial=True, sample=inp0 if how == 'longer' else None)
    R.count('over_existing:' + how)
    if final2 != final:
        k = next((i for i, (x, y) in enumerate(zip(final2, final)) if x != y), min(len(final2), len(final)))
        old = sum(1 for i in range(k, min(len(final2), len(E))) if final2[i] == E[i] and (i >= len(final) or final[i] != E[i]))
        R.violation('oracle', dict(inp0, state={'history': 'complete'}),
                    f'the completed file over an earlier file ({len(final2)} bytes) is not the file written onto a fresh path '
                    f'({len(final)} bytes): first difference at byte {k}, {old} bytes are those of the earlier file')
    if replay(events) != final2:
        R.violation('corr', inp0, 'replaying the recorded write events onto what the open left of the earlier file does not give the finished file')
        return
    if events == rec['events']:
        return            # the open left nothing of E and the writes are the same: the crash states are those of the fresh path
    shape = shape_of(events, rec['data_end'])
    states = crash_states(events, shape, final2)
    new = [(b, desc) for b, desc in states.items() if b != E and hashlib.sha1(b).digest() not in rec['digests']]
    R.count('over_existing_new_states', len(new))
    if len(R.violations) >= 50:
        return            # (the list of violations is capped and full: nothing more can be reported)
    if len(new) > 60:
        new = [new[(i * len(new)) // 60] for i in range(60)]
    hdr_final = final[:960] + final[980:8192]
    n_state = {}
    for b, desc in new:
        L = len(b)
        hdr_is_final = L >= 8192 and (b[:960] + b[980:8192]) == hdr_final
        hash_is_final = L >= 980 and b[960:980] == final[960:980]
        for name, args in rec['ops']:
            res, _ = do_op(b, name, args)
            inp = dict(inp0, state=desc, length=L, call=name, args=list(args))
            R.case((label, elabel, hashlib.sha1(b).hexdigest()[:12], name, args), nontrivial=True)
            judge(inp, desc, name, res, rec['want'][(name, args)], hdr_is_final, hash_is_final, n_state)


def earlier_files(recs):
    """pool of complete valid SGZ files: every route's output, its twin (other data, same shape and settings), a large one
    (16-bit, exhaustive) and a small one (2-bit, strip); per route one longer, one equal and one shorter file of OTHER data"""
    pool = []
    for (label, kind, conv, twin, src), rec in recs:
        if rec is not None:
            pool.append((label, src, rec['final']))
        q = os.path.join(d, label + '_twin.sgz')
        twin(q)
        pool.append((label + '_twin', src + '_twin', open(q, 'rb').read()))
        os.remove(q)
    big, small = os.path.join(d, 'big.sgy'), os.path.join(d, 'small.sgy')
    mk_segy(big, rnd_cube(rng2, (17, 18, 40)), 500 + np.arange(17), 900 + 2 * np.arange(18))
    mk_segy(small, rnd_cube(rng2, (4, 4, 8)), 1 + np.arange(4), 1 + np.arange(4))
    for name, sgy, kw in (('earlier_16bit_exhaustive', big, dict(bpv=16, header_detection='exhaustive')),
                          ('earlier_2bit_strip', small, dict(bpv=2, header_detection='strip'))):
        q = os.path.join(d, name + '.sgz')
        write_segy_sgz(sgy, q, **kw)
        pool.append((name, name, open(q, 'rb').read()))
    return pool


def pick(pool, src, L):
    """{'longer' / 'equal' / 'shorter': (name, bytes)} from the pool entries of other data"""
    out = {}
    for how, ok in (('longer', lambda n: n > L), ('equal', lambda n: n == L), ('shorter', lambda n: n < L)):
        c = [(n, b) for n, s_, b in pool if s_ != src and ok(len(b))]
        if c:
            out[how] = rng2.choice(c)
        else:
            R.count('over_existing_none_' + how)
    return out


def copy_writers(recs, pool):
    """cropper (by indexes, by coordinates), re-blocker, SEG-Y export: crash states of the writer onto a fresh path, then the
    same writer onto a path holding an older, longer file"""
    by = {r[0][0]: r for r in recs}
    src_label = 'segy_heuristic_iops'
    src = os.path.join(d, src_label + '.sgz')              # 10..15 x 6 x 20, header arrays stored
    with SgzReader(src) as r:
        il, xl = [int(x) for x in r.ilines], [int(x) for x in r.xlines]

    def crop_idx(p):
        with SgzCropper(src) as c:
            quiet(c.write_cropped_file_by_indexes, p, iline_index_range=(4, 9), xline_index_range=(0, 4))

    def crop_coord(p):
        with SgzCropper(src) as c:
            quiet(c.write_cropped_file_by_coords, p, iline_coord_range=(il[4], il[-1]), zslices_coord_range=(0, 48))
    sgy5 = os.path.join(d, 'iops.sgy')
    src2 = os.path.join(d, 'iops_2bit.sgz')
    write_segy_sgz(sgy5, src2, bpv=2)

    def reblock(p):
        with SgzConverter(src2) as c:
            quiet(c.convert_to_adv_sgz, p)
    for label, fn in (('crop_by_indexes', crop_idx), ('crop_by_coords', crop_coord), ('reblock_adv', reblock)):
        rec = run_route(label, '3d', fn, converter=False)
        if rec is not None:
            for how, (elabel, E) in pick(pool, by[src_label][0][4], len(rec['final'])).items():
                if how == 'longer' or not QUICK:
                    over_existing(rec, elabel, E)
    # SEG-Y export (segyio writes the file, the library patches the file header through its own handle): the completed file
    # over an older, longer file (an SGZ and a SEG-Y) must be the fresh one, and so must what the patch handle found
    def export(p):
        with SgzConverter(src) as c:
            quiet(c.convert_to_segy, p)
    fresh = os.path.join(d, 'export_fresh.sgy')
    ev0 = [e for e in record(fresh, lambda: export(fresh)) if e[1] >= 0]
    F = open(fresh, 'rb').read()
    for elabel, E in (('earlier_16bit_exhaustive', [b for n, s_, b in pool if n == 'earlier_16bit_exhaustive'][0]),
                      ('big.sgy', open(os.path.join(d, 'big.sgy'), 'rb').read())):
        q = os.path.join(d, 'export_over.sgy')
        with open(q, 'wb') as f:
            f.write(E)
        inp0 = {'route': 'convert_to_segy', 'output path held': elabel, 'earlier length': len(E), 'new length': len(F)}
        ev = [e for e in record(q, lambda: export(q)) if e[1] >= 0]
        F2 = open(q, 'rb').read()
        os.remove(q)
        R.case(('convert_to_segy', 'over', elabel), nontrivial=len(E) > len(F), sample=inp0)
        R.count('over_existing:segy_export')
        if F2 != F:
            R.violation('oracle', inp0, f'the exported SEG-Y over an earlier file has {len(F2)} bytes and is not the file exported '
                                        f'onto a fresh path ({len(F)} bytes)')
        elif ev != ev0:
            R.violation('oracle', inp0, 'the exported SEG-Y is complete, but the patch handle found / wrote other bytes than on a fresh path')


def interrupted_by_exception(rec):
    """the INPUT fails while plane set / trace group k is being read (an exception out of the reader, not a crash): the
    converter raises; whatever it leaves under the output path is a partial file like any other: every call on it raises or
    answers like the complete file (nothing may be appended behind the blocks written so far)"""
    import seismic_zfp.conversion_utils as cu_
    label, conv, final = rec['label'], rec['conv'], rec['final']
    names = [n_ for n_ in ('io_thread_func', 'unstructured_io_thread_func', 'io_thread_func_2d') if hasattr(cu_, n_)]
    hdr_final = final[:960] + final[980:8192]
    n_state = {}
    for k in (1, 2, 3):
        out = os.path.join(d, label + '.interrupted.sgz')
        if os.path.exists(out):
            os.remove(out)
        count = [0]

        def wrap(orig):
            def w(*a_, **k_):
                count[0] += 1
                if count[0] == k:
                    raise OSError('injected: the input failed')
                return orig(*a_, **k_)
            return w
        saved = {n_: getattr(cu_, n_) for n_ in names}
        for n_ in names:
            setattr(cu_, n_, wrap(saved[n_]))
        try:
            conv(out)
            raised = False
        except BaseException:
            raised = True
        finally:
            for n_ in names:
                setattr(cu_, n_, saved[n_])
        if not raised or not os.path.exists(out):
            continue
        b = open(out, 'rb').read()
        os.remove(out)
        L = len(b)
        desc = {'history': 'the input raised while plane set / trace group %d was read' % k, 'kind': 'X'}
        hdr_is_final = L >= 8192 and (b[:960] + b[980:8192]) == hdr_final
        hash_is_final = L >= 980 and b[960:980] == final[960:980]
        for name, args in rec['ops']:
            res, _ = do_op(b, name, args)
            inp = {'route': label, 'state': desc, 'length': L, 'call': name, 'args': list(args)}
            R.case((label, 'input-exception', k, name, args), nontrivial=True)
            judge(inp, desc, name, res, rec['want'][(name, args)], hdr_is_final, hash_is_final, n_state)
        R.count('conversion interrupted by an exception of the input')


def slow_first_block(rec):
    """the same conversion with the FIRST compression held back (a slow first block): whatever order the blocks then reach the
    file in, every prefix of the recorded write sequence is a partial file like any other (a block written ahead of an earlier
    one leaves a hole that must not read back as samples)"""
    import seismic_zfp.conversion_utils as cu_
    label, conv, final = rec['label'], rec['conv'], rec['final']
    out = os.path.join(d, label + '.slowfirst.sgz')
    real = cu_.zfpy
    n_calls = [0]

    def slow_compress(*a_, **k_):
        n_calls[0] += 1
        if n_calls[0] == 1:
            time.sleep(0.4)
        return real.compress_numpy(*a_, **k_)
    cu_.zfpy = type('Z', (), {'compress_numpy': staticmethod(slow_compress), '__getattr__': lambda self, n_: getattr(real, n_)})()
    try:
        raw = record(out, lambda: conv(out))
    finally:
        cu_.zfpy = real
    events = [(h, o, b) for (h, o, b) in raw if o >= 0]
    got = open(out, 'rb').read()
    os.remove(out)
    inp0 = {'route': label, 'schedule': 'first compression held back 0.4 s'}
    R.count('slow first block')
    if got != final:
        R.violation('oracle', inp0, 'the finished file differs from the one written without the delay')
        return
    hdr_final = final[:960] + final[980:8192]
    n_state = {}
    ops = [o for o in rec['ops'] if o[0] in ('read_inline', 'read_volume', 'get_trace', 'read_subplane', 'read_zslice')]
    for k in range(1, len(events)):
        b = replay(events[:k])
        if b == final or hashlib.sha1(b).digest() in rec['digests']:
            continue            # a state the program-order run already covered
        L = len(b)
        desc = {'history': 'slow first block', 'event': k, 'kind': 'S'}
        for name, args in ops:
            res, _ = do_op(b, name, args)
            inp = {'route': label, 'state': desc, 'length': L, 'call': name, 'args': list(args), 'writes so far': [(o, len(x)) for _, o, x in events[:k]][-4:]}
            R.case((label, 'slow-first', k, name, args), nontrivial=True)
            judge(inp, desc, name, res, rec['want'][(name, args)], L >= 8192 and (b[:960] + b[980:8192]) == hdr_final, L >= 980 and b[960:980] == final[960:980], n_state)


import itertools, re
try:
    recs = []
    for rt in routes():
        recs.append((rt, run_route(rt[0], rt[1], rt[2])))
    for rt, rec in recs:
        if rec is not None and not rt[0].startswith('numpy'):
            interrupted_by_exception(rec)
    for rt, rec in recs[:(3 if QUICK else len(recs))]:
        if rec is not None:
            slow_first_block(rec)
    R.notes.append(f'{sum(rec["n_states"] for rt, rec in recs if rec)} distinct crash states')
    pool = earlier_files(recs)
    for (label, kind, conv, twin, src), rec in recs:
        if rec is not None:
            for how, (elabel, E) in pick(pool, src, len(rec['final'])).items():
                over_existing(rec, elabel, E)
    copy_writers(recs, pool)
finally:
    shutil.rmtree(d, ignore_errors=True)
R.write(a.out)
for v in R.violations[:12]:
    print('KNOWN' if v.get('finding_key') else 'VIOLATION', v['kind'], json.dumps(v['input'], default=str)[:300], v['detail'][:160])
print(f'partial: {R.evaluations} cases, {len([v for v in R.violations if not v.get("finding_key")])} violations, '
      f'{len([v for v in R.violations if v.get("finding_key")])} known-finding hits {R.known}, {round(time.time() - R.t0, 1)} s')
