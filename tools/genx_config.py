#!/usr/bin/env python3
"""genx_config.py -- plug-in generator for C19: seismic_zfp.utils.define_blockshape* -> coq/Gen/Config.v.

A fail-closed translation of the Python `ast` of the configuration-resolution functions into Gallina over Z (block
dimensions) and Q (bit rate), written against coq/Lib/PyConfig.v.  Anything that is not recognised raises Fail: the
target is then reported as a translation failure and Gen/Config.v is removed, so the C19 proofs stop building.

Typing (static, inferred):  Z = Python int, Q = Python number (int or float, exact value), B = bool,
A = the raw argument bits_per_voxel (int | float | str), T3 = the 3-tuple blockshape of ints.
Assumptions of the translation (stated in Lib/PyConfig.v and in the evidence):
  * the entries of `blockshape` are Python ints (the property's grid); `bits_per_voxel` is an int, a float or a str
  * exact rational arithmetic stands for binary64 arithmetic (checked by correspondence on the grid)
Control flow is translated with the continuation duplicated into both branches of an `if` that falls through, so
every path of the Python function is one path of `if`s and `bind`s in the Gallina term.

Besides the functions, the generator checks on the AST of conversion.py that every `run` method resolves the
configuration BEFORE it opens the output file for writing, and emits the default settings of those methods.
"""
import ast, os, sys
from fractions import Fraction

OUTPUTS = ['Config']
FUNCS = ['define_blockshape', 'define_blockshape_3d', 'define_blockshape_2d']
EXN = {'ValueError': 'ValueErr', 'AssertionError': 'AssertErr', 'TypeError': 'TypeErr', 'ZeroDivisionError': 'ZeroDivErr',
       'IndexError': 'IndexErr', 'RuntimeError': 'RuntimeErr'}


class Fail(Exception):
    pass


def zlit(n):
    return f'({n})' if n < 0 else str(n)


def qlit(fr):
    fr = Fraction(fr)
    return f'({fr.numerator} # {fr.denominator})%Q' if fr.numerator >= 0 else f'(({fr.numerator}) # {fr.denominator})%Q'


class Env:
    def __init__(self, vars_, consts, funcs):
        self.vars = dict(vars_)        # name -> (type, term) ; T3 -> ('T3', (t0, t1, t2))
        self.consts = consts           # module-level integer constants
        self.funcs = funcs             # already translated functions: name -> (argtypes, rettype)
        self.counter = [0]

    def copy(self):
        e = Env(self.vars, self.consts, self.funcs)
        e.counter = self.counter
        return e

    def fresh(self, base):
        self.counter[0] += 1
        return f'{base}_{self.counter[0]}'


class Tr:
    """expression translator: expr(node, env) -> (type, term, binds); binds = [(var, monadic term)] to be wrapped
    around the use, in evaluation order"""

    def to_q(self, ty, t):
        if ty == 'Q':
            return t
        if ty == 'Z':
            return f'(inject_Z {t})'
        raise Fail(f'a value of type {ty} is used as a number')

    def expr(self, n, env):
        if isinstance(n, ast.Constant):
            if isinstance(n.value, bool):
                return 'B', 'true' if n.value else 'false', []
            if isinstance(n.value, int):
                return 'Z', zlit(n.value), []
            if isinstance(n.value, float):
                return 'Q', qlit(Fraction(n.value)), []
            raise Fail(f'constant {n.value!r}')
        if isinstance(n, ast.Name):
            if n.id in env.vars:
                ty, t = env.vars[n.id]
                return ty, t, []
            if n.id in env.consts:
                return 'Z', zlit(env.consts[n.id]), []
            raise Fail(f'unknown name {n.id}')
        if isinstance(n, ast.Subscript):
            ty, t, b = self.expr(n.value, env)
            if ty != 'T3':
                raise Fail('subscript of a non-tuple: ' + ast.unparse(n))
            if isinstance(n.slice, ast.Constant) and isinstance(n.slice.value, int) and 0 <= n.slice.value <= 2:
                return 'Z', t[n.slice.value], b
            raise Fail('subscript not a constant index 0..2: ' + ast.unparse(n))
        if isinstance(n, ast.Tuple):
            if len(n.elts) != 3:
                raise Fail('tuple that is not a 3-tuple: ' + ast.unparse(n))
            parts, binds = [], []
            for e in n.elts:
                ty, t, b = self.expr(e, env)
                if ty != 'Z':
                    raise Fail('blockshape entry that is not an int: ' + ast.unparse(e))
                parts.append(t)
                binds += b
            return 'T3', tuple(parts), binds
        if isinstance(n, ast.UnaryOp):
            ty, t, b = self.expr(n.operand, env)
            if isinstance(n.op, ast.USub):
                if ty == 'Z':
                    return 'Z', f'(- {t})', b
                if ty == 'Q':
                    return 'Q', f'(- {t})%Q', b
            if isinstance(n.op, ast.Not) and ty == 'B':
                return 'B', f'(negb {t})', b
            raise Fail('unary operator: ' + ast.unparse(n))
        if isinstance(n, ast.BinOp):
            lt, l, lb = self.expr(n.left, env)
            rt, r, rb = self.expr(n.right, env)
            binds = lb + rb
            if lt not in 'ZQ' or rt not in 'ZQ':
                raise Fail('arithmetic on non-numbers: ' + ast.unparse(n))
            op = type(n.op)
            if op in (ast.Mult, ast.Add, ast.Sub):
                s = {ast.Mult: '*', ast.Add: '+', ast.Sub: '-'}[op]
                if lt == 'Z' and rt == 'Z':
                    return 'Z', f'({l} {s} {r})', binds
                return 'Q', f'({self.to_q(lt, l)} {s} {self.to_q(rt, r)})%Q', binds
            if op is ast.BitAnd:
                if lt == 'Z' and rt == 'Z':
                    return 'Z', f'(Z.land {l} {r})', binds
                raise Fail('& on non-ints: ' + ast.unparse(n))
            if op is ast.Div:
                v = env.fresh('t')
                return 'Q', v, binds + [(v, f'q_truediv {self.to_q(lt, l)} {self.to_q(rt, r)}')]
            if op is ast.FloorDiv:
                v = env.fresh('t')
                if lt == 'Z' and rt == 'Z':
                    return 'Z', v, binds + [(v, f'z_floordiv {l} {r}')]
                return 'Q', v, binds + [(v, f'q_floordiv {self.to_q(lt, l)} {self.to_q(rt, r)}')]
            raise Fail('binary operator: ' + ast.unparse(n))
        if isinstance(n, ast.Compare):
            if len(n.ops) != 1:
                raise Fail('chained comparison: ' + ast.unparse(n))
            op = type(n.ops[0])
            lt, l, lb = self.expr(n.left, env)
            rn = n.comparators[0]
            if op in (ast.In, ast.NotIn):
                if not (isinstance(rn, ast.Tuple) and all(isinstance(e, ast.Constant) and isinstance(e.value, (int, float))
                                                         and not isinstance(e.value, bool) for e in rn.elts)):
                    raise Fail('membership in something that is not a tuple of numeric constants: ' + ast.unparse(n))
                lst = '[' + '; '.join(qlit(Fraction(e.value)) for e in rn.elts) + ']'
                t = f'(q_in {self.to_q(lt, l)} {lst})'
                return 'B', t if op is ast.In else f'(negb {t})', lb
            rt, r, rb = self.expr(rn, env)
            binds = lb + rb
            if lt == 'A':
                if op is ast.Eq and rt == 'Z':
                    return 'B', f'(arg_eq_int {l} {r})', binds
                raise Fail('comparison of the raw argument: ' + ast.unparse(n))
            if lt == 'Z' and rt == 'Z':
                s = {ast.Eq: '=?', ast.Lt: '<?', ast.LtE: '<=?', ast.Gt: '>?', ast.GtE: '>=?'}.get(op)
                if op is ast.NotEq:
                    return 'B', f'(negb ({l} =? {r}))', binds
                if s is None:
                    raise Fail('comparison operator: ' + ast.unparse(n))
                return 'B', f'({l} {s} {r})', binds
            if lt in 'ZQ' and rt in 'ZQ':
                a, b = self.to_q(lt, l), self.to_q(rt, r)
                t = {ast.Eq: f'(Qeq_bool {a} {b})', ast.NotEq: f'(negb (Qeq_bool {a} {b}))', ast.Lt: f'(Qlt_bool {a} {b})',
                     ast.LtE: f'(Qle_bool {a} {b})', ast.Gt: f'(Qlt_bool {b} {a})', ast.GtE: f'(Qle_bool {b} {a})'}.get(op)
                if t is None:
                    raise Fail('comparison operator: ' + ast.unparse(n))
                return 'B', t, binds
            raise Fail('comparison: ' + ast.unparse(n))
        if isinstance(n, ast.BoolOp):
            parts = []
            for k, v in enumerate(n.values):
                ty, t, b = self.expr(v, env)
                if ty != 'B':
                    raise Fail('and/or of non-booleans: ' + ast.unparse(n))
                if b and k > 0:
                    raise Fail('an operand of and/or after the first may raise (short-circuit not modelled): ' + ast.unparse(n))
                parts.append((t, b))
            s = ' && ' if isinstance(n.op, ast.And) else ' || '
            return 'B', '(' + s.join(t for t, _ in parts) + ')', parts[0][1]
        if isinstance(n, ast.Call) and isinstance(n.func, ast.Name):
            f = n.func.id
            if n.keywords:
                raise Fail('keyword arguments: ' + ast.unparse(n))
            if f == 'int' and len(n.args) == 1:
                ty, t, b = self.expr(n.args[0], env)
                if ty == 'Z':
                    return 'Z', t, b
                if ty == 'Q':
                    return 'Z', f'(q_int {t})', b
                raise Fail('int() of ' + ty)
            if f == 'sum' and len(n.args) == 1:
                return self.count_idiom(n.args[0], env)
            raise Fail('call: ' + ast.unparse(n))
        raise Fail('expression: ' + ast.unparse(n))

    def count_idiom(self, n, env):
        """sum([1 for v in list(T) + [x] if v == k])  ->  py_count [T0 =? k; T1 =? k; T2 =? k; x == k]"""
        ok = (isinstance(n, ast.ListComp) and isinstance(n.elt, ast.Constant) and n.elt.value == 1 and len(n.generators) == 1)
        if not ok:
            raise Fail('sum() of something that is not [1 for ... if ...]: ' + ast.unparse(n))
        g = n.generators[0]
        if not (isinstance(g.target, ast.Name) and len(g.ifs) == 1 and not g.is_async):
            raise Fail('comprehension shape: ' + ast.unparse(n))
        items = self.list_items(g.iter, env)
        conds = []
        for ty, t in items:
            e2 = env.copy()
            e2.vars[g.target.id] = (ty, t)
            cty, c, b = self.expr(g.ifs[0], e2)
            if cty != 'B' or b:
                raise Fail('comprehension condition: ' + ast.unparse(g.ifs[0]))
            conds.append(c)
        return 'Z', '(py_count [' + '; '.join(conds) + '])', []

    def list_items(self, n, env):
        """a list-valued expression as the list of its (type, term) items"""
        if isinstance(n, ast.BinOp) and isinstance(n.op, ast.Add):
            return self.list_items(n.left, env) + self.list_items(n.right, env)
        if isinstance(n, ast.Call) and isinstance(n.func, ast.Name) and n.func.id in ('list', 'tuple') and len(n.args) == 1:
            return self.list_items(n.args[0], env)
        if isinstance(n, ast.List):
            out = []
            for e in n.elts:
                ty, t, b = self.expr(e, env)
                if b:
                    raise Fail('list element may raise: ' + ast.unparse(e))
                out.append((ty, t))
            return out
        if isinstance(n, ast.Subscript) and isinstance(n.slice, ast.Slice):
            ty, t, b = self.expr(n.value, env)
            sl = n.slice
            lo = 0 if sl.lower is None else (sl.lower.value if isinstance(sl.lower, ast.Constant) else None)
            if ty != 'T3' or b or sl.upper is not None or sl.step is not None or lo not in (0, 1, 2):
                raise Fail('slice: ' + ast.unparse(n))
            return [('Z', x) for x in t[lo:]]
        ty, t, b = self.expr(n, env)
        if ty == 'T3' and not b:
            return [('Z', x) for x in t]
        raise Fail('not a list of known items: ' + ast.unparse(n))

    # ------------------------------------------------------------------ statements
    def wrap(self, binds, body):
        for v, m in reversed(binds):
            body = f'bind ({m}) (fun {v} =>\n{body})'
        return body

    def block(self, stmts, env, rty):
        """translate a statement list that must end in return/raise on every path; rty = result type tag"""
        if not stmts:
            raise Fail('a path of the function ends without return')
        st, rest = stmts[0], stmts[1:]
        if isinstance(st, ast.Expr) and isinstance(st.value, ast.Constant) and isinstance(st.value.value, str):
            return self.block(rest, env, rty)                           # docstring
        if isinstance(st, ast.Raise):
            return self.raise_(st)
        if isinstance(st, ast.Return):
            return self.ret(st, env, rty)
        if isinstance(st, ast.Assert):
            if st.msg is not None and not isinstance(st.msg, (ast.Constant, ast.JoinedStr)):
                raise Fail('assert message: ' + ast.unparse(st))
            ty, t, b = self.expr(st.test, env)
            if ty != 'B':
                raise Fail('assert of a non-boolean: ' + ast.unparse(st))
            return self.wrap(b, f'if {t} then\n{self.block(rest, env, rty)}\nelse Raise AssertErr')
        if isinstance(st, ast.Assign):
            if len(st.targets) != 1 or not isinstance(st.targets[0], ast.Name):
                raise Fail('assignment target: ' + ast.unparse(st))
            name = st.targets[0].id
            if isinstance(st.value, ast.IfExp):
                # x = A if c else B   (A or B may raise): bind (if c then A' else B') (fun x' => rest)
                cty, c, cb = self.expr(st.value.test, env)
                aty, a, ab = self.expr(st.value.body, env)
                bty, bb_, bbinds = self.expr(st.value.orelse, env)
                if cty != 'B' or aty != bty or aty not in 'ZQ':
                    raise Fail('conditional expression: ' + ast.unparse(st))
                v = env.fresh(name)
                e2 = env.copy()
                e2.vars[name] = (aty, v)
                body = (f'bind (if {c} then\n{self.wrap(ab, "Return " + a)}\nelse\n{self.wrap(bbinds, "Return " + bb_)}) '
                        f'(fun {v} =>\n{self.block(rest, e2, rty)})')
                return self.wrap(cb, body)
            ty, t, b = self.expr(st.value, env)
            e2 = env.copy()
            if ty == 'T3':
                e2.vars[name] = ('T3', t)
                return self.wrap(b, self.block(rest, e2, rty))
            if ty in 'ZQ':
                v = env.fresh(name)
                e2.vars[name] = (ty, v)
                return self.wrap(b, f'let {v} := {t} in\n{self.block(rest, e2, rty)}')
            raise Fail('assignment of a value of type ' + ty)
        if isinstance(st, ast.If):
            # the idiom  if isinstance(x, str): x = float(x)
            t_ = st.test
            if (isinstance(t_, ast.Call) and isinstance(t_.func, ast.Name) and t_.func.id == 'isinstance'):
                src = ast.unparse(st).replace('\n', ' ')
                if not (len(t_.args) == 2 and isinstance(t_.args[0], ast.Name) and isinstance(t_.args[1], ast.Name)
                        and t_.args[1].id == 'str' and not st.orelse and len(st.body) == 1
                        and ast.unparse(st.body[0]) == f'{t_.args[0].id} = float({t_.args[0].id})'):
                    raise Fail('isinstance idiom changed shape: ' + src)
                name = t_.args[0].id
                if env.vars.get(name, ('', ''))[0] != 'A':
                    raise Fail('isinstance idiom on something that is not the raw argument: ' + src)
                v = env.fresh(name)
                e2 = env.copy()
                e2.vars[name] = ('Q', v)
                return f'bind (arg_to_num {env.vars[name][1]}) (fun {v} =>\n{self.block(rest, e2, rty)})'
            ty, t, b = self.expr(st.test, env)
            if ty != 'B':
                raise Fail('if on a non-boolean: ' + ast.unparse(st.test))
            then_ = self.block(list(st.body) + rest, env.copy(), rty)
            else_ = self.block(list(st.orelse) + rest, env.copy(), rty)
            return self.wrap(b, f'if {t} then\n{then_}\nelse\n{else_}')
        if isinstance(st, ast.For):
            # for n in <items>: if not <cond n>: raise E     ->   if negb (forallb (fun n => cond) items) then Raise E
            ok = (isinstance(st.target, ast.Name) and not st.orelse and len(st.body) == 1 and isinstance(st.body[0], ast.If)
                  and not st.body[0].orelse and len(st.body[0].body) == 1 and isinstance(st.body[0].body[0], ast.Raise))
            if not ok:
                raise Fail('for loop that is not a validation loop: ' + ast.unparse(st))
            var = st.target.id
            if isinstance(st.iter, ast.IfExp):
                cty, c, cb = self.expr(st.iter.test, env)
                if cty != 'B' or cb:
                    raise Fail('loop iterable: ' + ast.unparse(st.iter))
                ia = self.list_items(st.iter.body, env)
                ib = self.list_items(st.iter.orelse, env)
                items = f'(if {c} then [{"; ".join(t for _, t in ia)}] else [{"; ".join(t for _, t in ib)}])'
                tys = {ty for ty, _ in ia + ib}
            else:
                ia = self.list_items(st.iter, env)
                items = f'[{"; ".join(t for _, t in ia)}]'
                tys = {ty for ty, _ in ia}
            if tys != {'Z'}:
                raise Fail('loop over non-ints: ' + ast.unparse(st.iter))
            e2 = env.copy()
            e2.vars[var] = ('Z', var)
            cty, c, cb = self.expr(st.body[0].test, e2)
            if cty != 'B' or cb:
                raise Fail('loop condition: ' + ast.unparse(st.body[0].test))
            # the loop raises iff the raise-condition holds for some item; items are ints, the condition cannot raise
            return (f'if existsb (fun {var} => {c}) {items} then\n{self.raise_(st.body[0].body[0])}\nelse\n'
                    f'{self.block(rest, env, rty)}')
        raise Fail('statement: ' + ast.unparse(st).split('\n')[0])

    def raise_(self, st):
        e = st.exc
        if isinstance(e, ast.Call) and isinstance(e.func, ast.Name):
            for a in e.args:
                if not isinstance(a, (ast.Constant, ast.JoinedStr)):
                    raise Fail('raise with a computed message: ' + ast.unparse(st))
            e = e.func
        if isinstance(e, ast.Name) and e.id in EXN:
            return f'Raise {EXN[e.id]}'
        raise Fail('raise: ' + ast.unparse(st))

    def ret(self, st, env, rty):
        v = st.value
        if isinstance(v, ast.Call) and isinstance(v.func, ast.Name) and v.func.id in env.funcs:
            argtys, frty = env.funcs[v.func.id]
            if frty != rty or len(v.args) != len(argtys) or v.keywords:
                raise Fail('call of a translated function: ' + ast.unparse(st))
            args = []
            for a, want in zip(v.args, argtys):
                ty, t, b = self.expr(a, env)
                if ty != want or b:
                    raise Fail(f'argument {ast.unparse(a)} has type {ty}, expected {want}')
                args.append('(' + ', '.join(t) + ')' if ty == 'T3' else t)
            return f'{v.func.id} ' + ' '.join(args)
        if rty == 'QT3' and isinstance(v, ast.Tuple) and len(v.elts) == 2:
            qt, q, qb = self.expr(v.elts[0], env)
            tt, t, tb = self.expr(v.elts[1], env)
            if qt in 'ZQ' and tt == 'T3':
                return self.wrap(qb + tb, f'Return ({self.to_q(qt, q)}, ({", ".join(t)}))')
        raise Fail('return: ' + ast.unparse(st))


def translate_function(tr, f, consts, funcs):
    names = [a.arg for a in f.args.args]
    if f.args.defaults or f.args.kwonlyargs or f.args.vararg or f.args.kwarg:
        raise Fail(f'{f.name}: signature')
    if names[:2] != ['bits_per_voxel', 'blockshape'] or names[2:] not in ([], ['is_2d']):
        raise Fail(f'{f.name}: parameters {names}')
    vars_ = {'bits_per_voxel': ('A', 'bits_per_voxel'), 'blockshape': ('T3', ('blockshape_0', 'blockshape_1', 'blockshape_2'))}
    argtys = ['A', 'T3']
    sig = '(bits_per_voxel : pyarg) (blockshape : Z * Z * Z)'
    if len(names) == 3:
        vars_['is_2d'] = ('B', 'is_2d')
        argtys.append('B')
        sig += ' (is_2d : bool)'
    env = Env(vars_, consts, funcs)
    body = tr.block(list(f.body), env, 'QT3')
    text = (f'Definition {f.name} {sig} : outcome (Q * (Z * Z * Z)) :=\n'
            f"let '(blockshape_0, blockshape_1, blockshape_2) := blockshape in\n{body}.\n")
    funcs[f.name] = (argtys, 'QT3')
    return text


def calls_in(f):
    return {n.func.id for n in ast.walk(f) if isinstance(n, ast.Call) and isinstance(n.func, ast.Name)}


# ---------------------------------------------------------------------- conversion.py: order of resolution and creation
def check_run(cls, run):
    """returns the defaults of a run() method after checking that define_blockshape_* is called, and only called,
    before the first open(..., 'wb'), and that its results are the names handed to run_conversion_loop"""
    resolves, opens, loops = [], [], []
    for n in ast.walk(run):
        if isinstance(n, ast.Call) and isinstance(n.func, ast.Name):
            if n.func.id in ('define_blockshape_2d', 'define_blockshape_3d'):
                resolves.append(n)
            elif n.func.id == 'open' and len(n.args) >= 2 and isinstance(n.args[1], ast.Constant) and 'w' in str(n.args[1].value):
                opens.append(n)
            elif n.func.id == 'run_conversion_loop':
                loops.append(n)
    where = f'{cls}.run'
    if not resolves or not opens or len(loops) != 1:
        raise Fail(f'{where}: expected define_blockshape_*, open(.., "wb") and one run_conversion_loop')
    if max(r.lineno for r in resolves) >= min(o.lineno for o in opens):
        raise Fail(f'{where}: the output file is opened before the configuration is resolved')
    for n in ast.walk(run):
        if isinstance(n, ast.Assign) and isinstance(n.value, ast.Call) and n.value in resolves:
            if ast.unparse(n.targets[0]) != '(bits_per_voxel, blockshape)' or \
               [ast.unparse(a) for a in n.value.args] != ['bits_per_voxel', 'blockshape']:
                raise Fail(f'{where}: {ast.unparse(n)}')
    if any(not any(isinstance(p, ast.Assign) and p.value is r for p in ast.walk(run)) for r in resolves):
        raise Fail(f'{where}: result of define_blockshape_* not assigned')
    la = [ast.unparse(a) for a in loops[0].args]
    if la[2:4] != ['bits_per_voxel', 'blockshape']:
        raise Fail(f'{where}: run_conversion_loop arguments {la}')
    # no other assignment to the two names between resolution and use, except the `blockshape is None` defaults
    defaults = {}
    args = run.args
    dd = dict(zip([a.arg for a in args.args][len(args.args) - len(args.defaults):], args.defaults))
    for k in ('bits_per_voxel', 'blockshape'):
        if k not in dd:
            raise Fail(f'{where}: no default for {k}')
        defaults[k] = ast.literal_eval(dd[k])
    nd = {}
    for n in ast.walk(run):
        if isinstance(n, ast.Assign) and len(n.targets) == 1 and isinstance(n.targets[0], ast.Name) \
                and n.targets[0].id in ('bits_per_voxel', 'blockshape'):
            if n.targets[0].id == 'blockshape' and isinstance(n.value, ast.Tuple):
                nd[n.lineno] = ast.literal_eval(n.value)
            else:
                raise Fail(f'{where}: unexpected assignment {ast.unparse(n)}')
    return defaults, [nd[k] for k in sorted(nd)]


def generate(srcdir):
    tr = Tr()
    consts = {}
    for st in ast.parse(open(os.path.join(srcdir, 'sgzconstants.py')).read()).body:
        if isinstance(st, ast.Assign) and len(st.targets) == 1 and isinstance(st.targets[0], ast.Name) \
                and isinstance(st.value, ast.Constant) and isinstance(st.value.value, int):
            consts[st.targets[0].id] = st.value.value
    mod = ast.parse(open(os.path.join(srcdir, 'utils.py')).read())
    imported = set()
    for st in mod.body:
        if isinstance(st, ast.ImportFrom) and st.module == 'sgzconstants':
            imported |= {a.name for a in st.names if a.asname is None}
    consts = {k: v for k, v in consts.items() if k in imported}
    fdefs = {st.name: st for st in mod.body if isinstance(st, ast.FunctionDef) and st.name in FUNCS}
    for need in ('define_blockshape_3d', 'define_blockshape_2d'):
        if need not in fdefs:
            raise Fail(f'utils.{need} not found')
    # callees first
    order, todo = [], dict(fdefs)
    while todo:
        ready = [k for k, f in todo.items() if not (calls_in(f) & set(todo) - {k})]
        if not ready:
            raise Fail('recursive define_blockshape functions')
        for k in sorted(ready):
            order.append(k)
            del todo[k]
    funcs = {}
    parts = []
    for name in order:
        f = fdefs[name]
        if f.decorator_list:
            raise Fail(f'{name}: decorated')
        parts.append(f'(* utils.py line {f.lineno} *)\n' + translate_function(tr, f, consts, funcs))
    # conversion.py
    cmod = ast.parse(open(os.path.join(srcdir, 'conversion.py')).read())
    runs = {}
    for cls in cmod.body:
        if isinstance(cls, ast.ClassDef):
            for m in cls.body:
                if isinstance(m, ast.FunctionDef) and m.name == 'run':
                    runs[cls.name] = check_run(cls.name, m)
    if sorted(runs) != ['NumpyConverter', 'SeismicFileConverter']:
        raise Fail(f'conversion.py: classes with a run method: {sorted(runs)}')
    for n in ast.walk(cmod):        # no other caller of the resolution functions
        if isinstance(n, ast.FunctionDef) and n.name != 'run' and calls_in(n) & set(FUNCS):
            raise Fail(f'conversion.py: {n.name} calls define_blockshape_*')
    sd, snone = runs['SeismicFileConverter']
    nd_, nnone = runs['NumpyConverter']
    if sd['blockshape'] is not None or not isinstance(nd_['blockshape'], tuple) or len(nd_['blockshape']) != 3:
        raise Fail('run(): blockshape defaults changed kind')
    if len(snone) != 2 or any(len(t) != 3 for t in snone) or snone[0][0] != 1 or nnone:
        raise Fail(f'conversion.py: default blockshapes {snone} {nnone}')
    if not (isinstance(sd['bits_per_voxel'], int) and isinstance(nd_['bits_per_voxel'], int)):
        raise Fail('default bits_per_voxel is not an int')
    t3 = lambda t: '(' + ', '.join(zlit(x) for x in t) + ')'
    parts.append('(* conversion.py: every run() resolves the configuration before it opens the output (checked on the AST by '
                 'the generator); the default settings of the run() methods *)\n'
                 f'Definition default_bits_per_voxel_segy : pyarg := AInt {zlit(sd["bits_per_voxel"])}.\n'
                 f'Definition default_blockshape_2d : Z * Z * Z := {t3(snone[0])}.\n'
                 f'Definition default_blockshape_3d : Z * Z * Z := {t3(snone[1])}.\n'
                 f'Definition default_bits_per_voxel_numpy : pyarg := AInt {zlit(nd_["bits_per_voxel"])}.\n'
                 f'Definition default_blockshape_numpy : Z * Z * Z := {t3(nd_["blockshape"])}.\n')
    header = ('(* GENERATED by tools/genx_config.py from seismic_zfp/utils.py and conversion.py -- DO NOT EDIT. '
              'Regenerated on every check run. *)\n'
              'From Coq Require Import ZArith QArith Qround List Bool.\nImport ListNotations.\n'
              'From SZ Require Import Lib.Py Lib.PyConfig.\nOpen Scope Z_scope.\n\n')
    return {'Config': header + '\n'.join(parts)}


if __name__ == '__main__':
    # maintainer convenience: genx_config.py [srcdir] [outfile]
    src = sys.argv[1] if len(sys.argv) > 1 else '/repo/seismic_zfp'
    text = generate(src)['Config']
    if len(sys.argv) > 2:
        old = open(sys.argv[2]).read() if os.path.exists(sys.argv[2]) else None
        if old != text:
            open(sys.argv[2], 'w').write(text)
    else:
        sys.stdout.write(text)
