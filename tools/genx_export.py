"""genx_export.py -- plug-in generator for property C06 (SEG-Y export round trip).

Extracts, with Python `ast` and fail-closed (every construct that is not recognised raises), what
`SgzConverter.convert_to_segy`, `SgzConverter.write_segy` and `SgzConverter.regenerate_trace_header`
(seismic_zfp/conversion.py) DO, and emits it as data in coq/Gen/Export.v:

  * the branch test of the spec construction and, per branch, the list (spec field, source) in source order
  * where the data-sample format code is read (offset, length, byte order), which codes are accepted, the
    default, and the bytes patched into the stored header in the default case
  * the operation sequence of write_segy: create / read_variant_headers / bulk trace write / bulk header write /
    close / re-open and overwrite [pos, pos+len) with headerbytes[DISK_BLOCK_BYTES+lo : DISK_BLOCK_BYTES+hi]
  * the index expression passed to get_trace / regenerate_trace_header / gen_trace_header (as Gallina functions
    of the comprehension variable), the range they run over, the override_unstructured_mapping flag
  * the header fields overwritten by regenerate_trace_header and their source expression

Model/Export.v interprets these data; Proofs/Export.v proves the C06 theorems about the interpretation, so the
theorems are re-checked against the current source on every run.
"""
import ast, os

OUTPUTS = ['Export']


class ExportGenError(Exception):
    pass


def fail(msg):
    raise ExportGenError(msg)


# segyio.TraceField names accepted in regenerate_trace_header (byte position in the trace header); the generator runs
# under the system python, where segyio is not installed: anything not listed here is refused.
TRACEFIELDS = {'DelayRecordingTime': 109}

SPEC_FIELDS = {'samples': 'SfSamples', 'offsets': 'SfOffsets', 'xlines': 'SfXlines', 'ilines': 'SfIlines',
               'sorting': 'SfSorting', 'tracecount': 'SfTracecount'}
SELF_SOURCES = {'zslices': 'FromZslices', 'xlines': 'FromXlines', 'ilines': 'FromIlines', 'tracecount': 'FromTracecount'}


def zlit(n):
    return f'({n})' if n < 0 else str(n)


def is_self_attr(e, name=None):
    return isinstance(e, ast.Attribute) and isinstance(e.value, ast.Name) and e.value.id == 'self' and \
        (name is None or e.attr == name)


def nodoc(body):
    return [s for s in body if not (isinstance(s, ast.Expr) and isinstance(s.value, ast.Constant)
                                    and isinstance(s.value.value, str))]


def int_const(e, consts):
    """integer value of a constant expression over literals and sgzconstants names (+, -, *)"""
    if isinstance(e, ast.Constant) and isinstance(e.value, int) and not isinstance(e.value, bool):
        return e.value
    if isinstance(e, ast.Name) and e.id in consts:
        return consts[e.id]
    if isinstance(e, ast.BinOp) and isinstance(e.op, (ast.Add, ast.Sub, ast.Mult)):
        a, b = int_const(e.left, consts), int_const(e.right, consts)
        return a + b if isinstance(e.op, ast.Add) else a - b if isinstance(e.op, ast.Sub) else a * b
    if isinstance(e, ast.UnaryOp) and isinstance(e.op, ast.USub):
        return -int_const(e.operand, consts)
    fail('not an integer constant expression: ' + ast.unparse(e))


def headerbytes_slice(e, consts):
    """self.headerbytes[lo:hi] -> (lo, hi) as absolute integer offsets into the SGZ header"""
    if not (isinstance(e, ast.Subscript) and is_self_attr(e.value, 'headerbytes') and isinstance(e.slice, ast.Slice)
            and e.slice.step is None and e.slice.lower is not None and e.slice.upper is not None):
        fail('expected self.headerbytes[lo:hi], got ' + ast.unparse(e))
    return int_const(e.slice.lower, consts), int_const(e.slice.upper, consts)


def index_term(e, var):
    """Gallina term (in the variable i) of an index expression over the comprehension variable"""
    if isinstance(e, ast.Name) and e.id == var:
        return 'i'
    if isinstance(e, ast.Constant) and isinstance(e.value, int) and not isinstance(e.value, bool):
        return zlit(e.value)
    if is_self_attr(e, 'tracecount'):
        return 'tracecount'
    if isinstance(e, ast.BinOp):
        ops = {ast.Add: '+', ast.Sub: '-', ast.Mult: '*', ast.FloorDiv: '/', ast.Mod: 'mod'}
        for k, sym in ops.items():
            if isinstance(e.op, k):
                return f'({index_term(e.left, var)} {sym} {index_term(e.right, var)})'
    fail('unsupported trace index expression: ' + ast.unparse(e))


def struct_format_of(fn, width):
    """the struct format string used by utils.bytes_to_int / int_to_bytes for the given width (None = any)"""
    found = []
    for node in ast.walk(fn):
        if isinstance(node, ast.Call) and isinstance(node.func, ast.Attribute) and node.func.attr in ('pack', 'unpack') \
                and node.args and isinstance(node.args[0], ast.Constant) and isinstance(node.args[0].value, str):
            found.append(node.args[0].value)
    return found


def load(srcdir, mod):
    return ast.parse(open(os.path.join(srcdir, mod + '.py')).read())


def find_method(tree, cls, name):
    for node in tree.body:
        if isinstance(node, ast.ClassDef) and node.name == cls:
            for f in node.body:
                if isinstance(f, ast.FunctionDef) and f.name == name:
                    return f
    fail(f'{cls}.{name} not found')


def find_func(tree, name):
    for node in tree.body:
        if isinstance(node, ast.FunctionDef) and node.name == name:
            return node
    fail(f'function {name} not found')


def module_consts(tree):
    out = {}
    for node in tree.body:
        if isinstance(node, ast.Assign) and len(node.targets) == 1 and isinstance(node.targets[0], ast.Name) \
                and isinstance(node.value, ast.Constant) and isinstance(node.value.value, int):
            out[node.targets[0].id] = node.value.value
    return out


# --------------------------------------------------------------------------------------------- spec construction
def spec_branch(body):
    body = nodoc(body)
    if not body or ast.unparse(body[0]) != 'spec = segyio.spec()':
        fail('spec branch does not start with spec = segyio.spec(): ' + (ast.unparse(body[0]) if body else 'empty'))
    out = []
    for st in body[1:]:
        if not (isinstance(st, ast.Assign) and len(st.targets) == 1 and isinstance(st.targets[0], ast.Attribute)
                and isinstance(st.targets[0].value, ast.Name) and st.targets[0].value.id == 'spec'):
            fail('unexpected statement in spec branch: ' + ast.unparse(st))
        fld = st.targets[0].attr
        if fld not in SPEC_FIELDS:
            fail('unknown spec field: ' + fld)
        v = st.value
        if is_self_attr(v) and v.attr in SELF_SOURCES:
            src = SELF_SOURCES[v.attr]
        elif isinstance(v, ast.List) and all(isinstance(x, ast.Constant) and isinstance(x.value, int) for x in v.elts):
            src = 'ConstList [' + '; '.join(zlit(x.value) for x in v.elts) + ']'
        elif isinstance(v, ast.Constant) and isinstance(v.value, int) and not isinstance(v.value, bool):
            src = f'ConstInt {zlit(v.value)}'
        else:
            fail(f'unknown source for spec.{fld}: ' + ast.unparse(v))
        if any(f == SPEC_FIELDS[fld] for f, _ in out):
            fail(f'spec.{fld} assigned twice')
        out.append((SPEC_FIELDS[fld], src))
    return out


def fmt_list(pairs):
    return '[' + '; '.join(f'({a}, {b})' for a, b in pairs) + ']'


def gen_convert(f, consts, utils_tree):
    body = nodoc(f.body)
    if [a.arg for a in f.args.args] != ['self', 'out_file']:
        fail('convert_to_segy signature changed')
    # the D46 repair: `source_headerbytes = self.headerbytes` before the format choice and the final call inside
    # try: ... finally: self.headerbytes = source_headerbytes  (the substituted format code does not stay on the object)
    restores = False
    if len(body) == 5 and isinstance(body[2], ast.Assign) and ast.unparse(body[2]) == 'source_headerbytes = self.headerbytes' \
            and isinstance(body[4], ast.Try) and not body[4].handlers and not body[4].orelse and len(body[4].body) == 1 \
            and [ast.unparse(x) for x in body[4].finalbody] == ['self.headerbytes = source_headerbytes']:
        restores = True
        body = [body[0], body[1], body[3], body[4].body[0]]
    if len(body) != 4:
        fail(f'convert_to_segy: expected 4 statements (or the 5 of the restoring form), found {len(body)}')
    s_if, s_code, s_fmt, s_call = body
    # 1 spec
    if not (isinstance(s_if, ast.If) and is_self_attr(s_if.test) and s_if.test.attr in ('is_3d', 'is_2d', 'structured')):
        fail('convert_to_segy: first statement is not `if self.<flag>:`')
    flag = s_if.test.attr
    br_true, br_false = spec_branch(s_if.body), spec_branch(s_if.orelse)
    # 2 format code
    if not (isinstance(s_code, ast.Assign) and len(s_code.targets) == 1 and isinstance(s_code.targets[0], ast.Name)):
        fail('convert_to_segy: format code statement changed')
    code_var = s_code.targets[0].id
    v = s_code.value
    if isinstance(v, ast.Call) and isinstance(v.func, ast.Name) and v.func.id == 'bytes_to_int' and len(v.args) == 1 and not v.keywords:
        lo, hi = headerbytes_slice(v.args[0], consts)
        fmts = struct_format_of(find_func(utils_tree, 'bytes_to_int'), hi - lo)
        if sorted(fmts) != ['<H', '<I'] or hi - lo not in (2, 4):
            fail('utils.bytes_to_int is no longer the little-endian unsigned reader: ' + repr(fmts))
        big = False
    elif isinstance(v, ast.Call) and isinstance(v.func, ast.Attribute) and v.func.attr == 'from_bytes' \
            and isinstance(v.func.value, ast.Name) and v.func.value.id == 'int' and len(v.args) == 2 and not v.keywords \
            and isinstance(v.args[1], ast.Constant) and v.args[1].value in ('big', 'little'):
        lo, hi = headerbytes_slice(v.args[0], consts)
        big = v.args[1].value == 'big'
    else:
        fail('unrecognised format code expression: ' + ast.unparse(v))
    # 3 choice
    if not (isinstance(s_fmt, ast.If) and isinstance(s_fmt.test, ast.Compare) and len(s_fmt.test.ops) == 1
            and isinstance(s_fmt.test.ops[0], ast.In) and isinstance(s_fmt.test.left, ast.Name)
            and s_fmt.test.left.id == code_var and isinstance(s_fmt.test.comparators[0], (ast.List, ast.Tuple))):
        fail('format choice is not `if code in [...]`')
    accepted = [int_const(x, consts) for x in s_fmt.test.comparators[0].elts]
    if [ast.unparse(s) for s in s_fmt.body] != [f'spec.format = {code_var}']:
        fail('accepted-format branch changed: ' + repr([ast.unparse(s) for s in s_fmt.body]))
    eb = s_fmt.orelse
    if len(eb) != 4 or ast.unparse(eb[0]) != 'new_headerbytes = bytearray(self.headerbytes)' \
            or ast.unparse(eb[2]) != 'self.headerbytes = bytes(new_headerbytes)':
        fail('default-format branch changed shape')
    pa = eb[1]
    if not (isinstance(pa, ast.Assign) and len(pa.targets) == 1 and isinstance(pa.targets[0], ast.Subscript)
            and isinstance(pa.targets[0].value, ast.Name) and pa.targets[0].value.id == 'new_headerbytes'
            and isinstance(pa.targets[0].slice, ast.Slice) and pa.targets[0].slice.step is None):
        fail('default-format branch: patch statement changed')
    plo, phi = int_const(pa.targets[0].slice.lower, consts), int_const(pa.targets[0].slice.upper, consts)
    pv = pa.value
    if isinstance(pv, ast.Call) and isinstance(pv.func, ast.Name) and pv.func.id == 'int_to_bytes' and len(pv.args) == 1:
        if struct_format_of(find_func(utils_tree, 'int_to_bytes'), 4) != ['<I']:
            fail('utils.int_to_bytes is no longer struct.pack("<I")')
        pbytes = list(int(int_const(pv.args[0], consts)).to_bytes(4, 'little'))
    elif isinstance(pv, ast.Call) and isinstance(pv.func, ast.Attribute) and pv.func.attr == 'to_bytes' and len(pv.args) == 2 \
            and isinstance(pv.args[1], ast.Constant) and pv.args[1].value in ('big', 'little') and not pv.keywords:
        pbytes = list(int(int_const(pv.func.value, consts)).to_bytes(int_const(pv.args[0], consts), pv.args[1].value))
    else:
        fail('unrecognised patch bytes expression: ' + ast.unparse(pv))
    da = eb[3]
    if not (isinstance(da, ast.Assign) and ast.unparse(da.targets[0]) == 'spec.format'):
        fail('default-format branch: spec.format assignment changed')
    default = int_const(da.value, consts)
    # 4 call
    if ast.unparse(s_call) != 'self.write_segy(spec, out_file)':
        fail('convert_to_segy: final call changed: ' + ast.unparse(s_call))
    dbb = consts['DISK_BLOCK_BYTES']
    t = []
    t.append('(* ---- convert_to_segy: the segyio.spec ---- *)')
    t.append(f'Definition export_branch_flag : reader_flag := Flag_{flag}.')
    t.append('(* true: convert_to_segy puts the object\'s headerbytes back after write_segy (try/finally); false: a substituted\n'
             '   format code stays in self.headerbytes and reaches whatever the same object writes next (D46) *)')
    t.append(f'Definition export_restores_headerbytes : bool := {"true" if restores else "false"}.')
    t.append(f'Definition export_spec_then : list (spec_field * spec_src) :=\n  {fmt_list(br_true)}.')
    t.append(f'Definition export_spec_else : list (spec_field * spec_src) :=\n  {fmt_list(br_false)}.')
    t.append('\n(* ---- convert_to_segy: data sample format code (offsets relative to the stored SEG-Y file header,\n'
             '   i.e. to headerbytes[DISK_BLOCK_BYTES:]) ---- *)')
    t.append(f'Definition export_fmt_lo : Z := {zlit(lo - dbb)}.')
    t.append(f'Definition export_fmt_hi : Z := {zlit(hi - dbb)}.')
    t.append(f'Definition export_fmt_big_endian : bool := {"true" if big else "false"}.')
    t.append(f'Definition export_fmt_accepted : list Z := [{"; ".join(zlit(x) for x in accepted)}].')
    t.append(f'Definition export_fmt_default : Z := {zlit(default)}.')
    t.append(f'Definition export_fmt_patch_lo : Z := {zlit(plo - dbb)}.')
    t.append(f'Definition export_fmt_patch_hi : Z := {zlit(phi - dbb)}.')
    t.append(f'Definition export_fmt_patch_bytes : list Z := [{"; ".join(str(b) for b in pbytes)}].')
    return '\n'.join(t) + '\n'


# --------------------------------------------------------------------------------------------- write_segy
def comprehension(e, method):
    """[self.<method>(E, kw...) for v in range(self.tracecount)] -> (index term, count source, kwargs)"""
    if not (isinstance(e, ast.ListComp) and len(e.generators) == 1):
        fail('expected a list comprehension: ' + ast.unparse(e))
    g = e.generators[0]
    if g.ifs or g.is_async or not isinstance(g.target, ast.Name):
        fail('comprehension with filter / tuple target: ' + ast.unparse(e))
    var = g.target.id
    it = g.iter
    if not (isinstance(it, ast.Call) and isinstance(it.func, ast.Name) and it.func.id == 'range' and len(it.args) == 1
            and not it.keywords and is_self_attr(it.args[0], 'tracecount')):
        fail('comprehension does not run over range(self.tracecount): ' + ast.unparse(it))
    c = e.elt
    if not (isinstance(c, ast.Call) and is_self_attr(c.func, method) and len(c.args) == 1):
        fail(f'comprehension element is not self.{method}(<index>): ' + ast.unparse(c))
    kws = {}
    for k in c.keywords:
        if not (isinstance(k.value, ast.Constant) and isinstance(k.value.value, bool)):
            fail('non-constant keyword argument: ' + ast.unparse(c))
        kws[k.arg] = k.value.value
    return index_term(c.args[0], var), kws


def gen_write(f, consts):
    if [a.arg for a in f.args.args] != ['self', 'spec', 'out_file']:
        fail('write_segy signature changed')
    dbb = consts['DISK_BLOCK_BYTES']
    ops = []
    defs = {}
    for st in nodoc(f.body):
        if not (isinstance(st, ast.With) and len(st.items) == 1):
            fail('write_segy: unexpected top-level statement: ' + ast.unparse(st)[:80])
        ctx = st.items[0].context_expr
        if ast.unparse(ctx) == 'warnings.catch_warnings()':
            inner = nodoc(st.body)
            if len(inner) != 2 or not ast.unparse(inner[0]).startswith('warnings.filterwarnings('):
                fail('write_segy: warnings block changed shape')
            w = inner[1]
            if not (isinstance(w, ast.With) and len(w.items) == 1
                    and ast.unparse(w.items[0].context_expr) == 'segyio.create(out_file, spec)'
                    and isinstance(w.items[0].optional_vars, ast.Name)):
                fail('write_segy: expected `with segyio.create(out_file, spec) as <name>`')
            fv = w.items[0].optional_vars.id
            ops.append('OpCreate')
            for s in nodoc(w.body):
                if ast.unparse(s) in ('self.read_variant_headers()', 'self._load_variant_headers(False)'):
                    # the second form (D47 repair) first drops arrays an earlier query left in the other padding mode
                    ops.append('OpReadVariantHeaders')
                    defs['reload'] = ast.unparse(s) == 'self._load_variant_headers(False)'
                elif isinstance(s, ast.Assign) and len(s.targets) == 1 and isinstance(s.targets[0], ast.Attribute) \
                        and isinstance(s.targets[0].value, ast.Name) and s.targets[0].value.id == fv:
                    what = s.targets[0].attr
                    if what == 'trace':
                        idx, kws = comprehension(s.value, 'get_trace')
                        extra = set(kws) - {'override_unstructured_mapping'}
                        if extra:
                            fail('get_trace called with unexpected keywords: ' + repr(sorted(extra)))
                        if 'trace' in defs:
                            fail('traces written twice')
                        defs['trace'] = (idx, kws.get('override_unstructured_mapping', False))
                        ops.append('OpWriteTraces')
                    elif what == 'header':
                        idx, kws = comprehension(s.value, 'regenerate_trace_header')
                        if kws:
                            fail('regenerate_trace_header called with keywords')
                        if 'header' in defs:
                            fail('headers written twice')
                        defs['header'] = idx
                        ops.append('OpWriteHeaders')
                    else:
                        fail(f'write_segy: assignment to {fv}.{what}')
                else:
                    fail('write_segy: unexpected statement inside segyio.create block: ' + ast.unparse(s)[:80])
            ops.append('OpClose')
        elif isinstance(ctx, ast.Call) and isinstance(ctx.func, ast.Name) and ctx.func.id == 'open':
            if [ast.unparse(a) for a in ctx.args] != ['out_file', "'r+b'"] or ctx.keywords \
                    or not isinstance(st.items[0].optional_vars, ast.Name):
                fail('write_segy: the file is not re-opened as open(out_file, "r+b") as <name>: ' + ast.unparse(ctx))
            hv = st.items[0].optional_vars.id
            pos = 0
            for s in nodoc(st.body):
                c = s.value if isinstance(s, ast.Expr) else None
                if not (isinstance(c, ast.Call) and isinstance(c.func, ast.Attribute) and isinstance(c.func.value, ast.Name)
                        and c.func.value.id == hv and len(c.args) == 1 and not c.keywords):
                    fail('write_segy: unexpected statement in re-open block: ' + ast.unparse(s)[:80])
                if c.func.attr == 'seek':
                    pos = int_const(c.args[0], consts)
                elif c.func.attr == 'write':
                    lo, hi = headerbytes_slice(c.args[0], consts)
                    ops.append(f'OpOverwrite {zlit(pos)} {zlit(lo - dbb)} {zlit(hi - dbb)}')
                    pos += hi - lo
                else:
                    fail('write_segy: unexpected call in re-open block: ' + ast.unparse(s)[:80])
        else:
            fail('write_segy: unexpected with-statement: ' + ast.unparse(ctx)[:80])
    if 'trace' not in defs or 'header' not in defs:
        fail('write_segy: trace or header bulk write not found')
    t = ['(* ---- write_segy: operation order ---- *)',
         '(* true: write_segy loads the header arrays through _load_variant_headers (reloads after a padding-mode switch) *)\n'
         'Definition export_headers_reload_on_mode_switch : bool := ' + ('true' if defs.get('reload') else 'false') + '.',
         'Definition export_ops : list export_op :=\n  [' + '; '.join(ops) + '].',
         '(* segyfile.trace = [self.get_trace(<this>, override_unstructured_mapping=<flag>) for i in range(self.tracecount)] *)',
         f'Definition export_trace_index (tracecount i : Z) : Z := {defs["trace"][0]}.',
         f'Definition export_trace_override : bool := {"true" if defs["trace"][1] else "false"}.',
         '(* segyfile.header = [self.regenerate_trace_header(<this>) for i in range(self.tracecount)] *)',
         f'Definition export_header_index (tracecount i : Z) : Z := {defs["header"]}.']
    return '\n'.join(t) + '\n'


# --------------------------------------------------------------------------------------------- regenerate_trace_header
def gen_regen(f):
    if [a.arg for a in f.args.args] != ['self', 'i']:
        fail('regenerate_trace_header signature changed')
    body = nodoc(f.body)
    if len(body) < 2:
        fail('regenerate_trace_header: too short')
    first, last = body[0], body[-1]
    if not (isinstance(first, ast.Assign) and len(first.targets) == 1 and isinstance(first.targets[0], ast.Name)
            and isinstance(first.value, ast.Call) and is_self_attr(first.value.func, 'gen_trace_header')
            and len(first.value.args) == 1 and not first.value.keywords):
        fail('regenerate_trace_header: first statement is not <h> = self.gen_trace_header(<index>)')
    hv = first.targets[0].id
    idx = index_term(first.value.args[0], 'i')
    if ast.unparse(last) != f'return {hv}':
        fail('regenerate_trace_header does not return the header')
    ovs = []
    for st in body[1:-1]:
        if not (isinstance(st, ast.Assign) and len(st.targets) == 1 and isinstance(st.targets[0], ast.Subscript)
                and isinstance(st.targets[0].value, ast.Name) and st.targets[0].value.id == hv):
            fail('regenerate_trace_header: unexpected statement: ' + ast.unparse(st))
        key = ast.unparse(st.targets[0].slice)
        pre = 'segyio.TraceField.'
        if not key.startswith(pre) or key[len(pre):] not in TRACEFIELDS:
            fail('regenerate_trace_header: unknown header key ' + key)
        if ast.unparse(st.value) != 'int(self.zslices[0])':
            fail('regenerate_trace_header: unknown value expression ' + ast.unparse(st.value))
        ovs.append((TRACEFIELDS[key[len(pre):]], 'FirstSampleTrunc'))
    t = ['(* ---- regenerate_trace_header ---- *)',
         f'Definition export_regen_index (tracecount i : Z) : Z := {idx}.',
         '(* header[segyio.TraceField.<field>] = int(self.zslices[0]), in source order *)',
         f'Definition export_header_overrides : list (Z * hdr_src) := {fmt_list(ovs)}.']
    return '\n'.join(t) + '\n'


PREAMBLE = '''(* GENERATED by tools/gen.py (plug-in tools/genx_export.py) from seismic_zfp/conversion.py -- DO NOT EDIT.
   Regenerated on every check run.  What SgzConverter.convert_to_segy / write_segy / regenerate_trace_header do,
   as data; interpreted by Model/Export.v. *)
From Coq Require Import ZArith List Bool.
Import ListNotations.
Open Scope Z_scope.

(* vocabulary (constant text of the generator) *)
Inductive reader_flag := Flag_is_3d | Flag_is_2d | Flag_structured.
Inductive spec_field := SfSamples | SfOffsets | SfXlines | SfIlines | SfSorting | SfTracecount.
Inductive spec_src := FromZslices | FromXlines | FromIlines | FromTracecount | ConstList (l : list Z) | ConstInt (z : Z).
Inductive hdr_src := FirstSampleTrunc.   (* int(self.zslices[0]) *)
(* OpOverwrite pos lo hi: re-open the closed file "r+b" and write headerbytes[DISK_BLOCK_BYTES+lo : DISK_BLOCK_BYTES+hi] at pos *)
Inductive export_op := OpCreate | OpReadVariantHeaders | OpWriteTraces | OpWriteHeaders | OpClose
                     | OpOverwrite (pos lo hi : Z).

'''


def generate(srcdir):
    conv = load(srcdir, 'conversion')
    utils_tree = load(srcdir, 'utils')
    consts = module_consts(load(srcdir, 'sgzconstants'))
    for k in ('DISK_BLOCK_BYTES', 'SEGY_FILE_HEADER_BYTES', 'SEGY_TEXT_HEADER_BYTES', 'SEGY_TRACE_HEADER_BYTES'):
        if k not in consts:
            fail('sgzconstants: missing ' + k)
    # SgzConverter must still be a reader (get_trace / gen_trace_header are the reader's)
    for node in conv.body:
        if isinstance(node, ast.ClassDef) and node.name == 'SgzConverter':
            if [ast.unparse(b) for b in node.bases] != ['SgzReader']:
                fail('SgzConverter no longer derives from SgzReader')
            overridden = {f.name for f in node.body if isinstance(f, ast.FunctionDef)}
            bad = overridden & {'get_trace', 'gen_trace_header', 'read_variant_headers', 'get_unstructured_mask'}
            if bad:
                fail('SgzConverter overrides reader methods: ' + repr(sorted(bad)))
    text = PREAMBLE
    text += f'Definition SEGY_FILE_HEADER_BYTES : Z := {consts["SEGY_FILE_HEADER_BYTES"]}.\n'
    text += f'Definition SEGY_TEXT_HEADER_BYTES : Z := {consts["SEGY_TEXT_HEADER_BYTES"]}.\n'
    text += f'Definition SEGY_TRACE_HEADER_BYTES : Z := {consts["SEGY_TRACE_HEADER_BYTES"]}.\n\n'
    text += gen_convert(find_method(conv, 'SgzConverter', 'convert_to_segy'), consts, utils_tree) + '\n'
    text += gen_write(find_method(conv, 'SgzConverter', 'write_segy'), consts) + '\n'
    text += gen_regen(find_method(conv, 'SgzConverter', 'regenerate_trace_header'))
    return {'Export': text}


if __name__ == '__main__':
    import sys
    print(generate(sys.argv[1] if len(sys.argv) > 1 else '/repo/seismic_zfp')['Export'])
