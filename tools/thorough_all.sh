#!/bin/bash
# thorough_all.sh "<ids group1>" "<ids group2>" ... : (maintainer) thorough tier of the listed checks, one private copy of /verif per group, groups in parallel
i=0
for grp in "$@"; do
  i=$((i+1))
  ( W=/var/tmp/vthor_${TAG:-t}_$i; rm -rf $W; rsync -a --exclude .git --exclude replays --exclude seeded /verif/ $W/; cd $W
    for p in $grp; do python3 tools/run.py $p --tier ${TIER:-thorough} > /dev/shm/thor_$p.out 2>&1; echo "$p rc=$? $(tail -n 1 /dev/shm/thor_$p.out | cut -c1-150)" >> /dev/shm/thor_summary.log; cp $W/evidence/$p.json /dev/shm/thor_evidence_$p.json 2>/dev/null; done
    rm -rf $W ) &
done
wait
