#!/usr/bin/env python3
"""seedtest.py <seed id> <property id> <patch.diff> <demo.py> [more property ids ...]   (maintainer tool, not a check)

Confirms a seeded change independently and runs the registered quick check(s) against it, WITHOUT touching /repo or the
working /verif: the change is applied to a scratch copy of /repo, the checks run from a scratch copy of /verif with
VERIF_REPO pointing at the mutated copy.  Writes /verif/seeded/<seed id>/{patch.diff, demo.py, meta.json}.
"""
import sys, os, subprocess, json, shutil, time

VERIF = os.path.dirname(os.path.dirname(os.path.abspath(__file__)))


def sh(cmd, cwd=None, env=None, timeout=3600):
    p = subprocess.run(cmd, shell=True, cwd=cwd, env=env, stdout=subprocess.PIPE, stderr=subprocess.STDOUT, text=True, timeout=timeout)
    return p.returncode, p.stdout


def main():
    sid, pid, patch, demo = sys.argv[1:5]
    extra = sys.argv[5:]
    work = f'/var/tmp/seedtest_{sid}'
    shutil.rmtree(work, ignore_errors=True)
    os.makedirs(work)
    repo = os.path.join(work, 'repo')
    vf = os.path.join(work, 'verif')
    meta = {'seed': sid, 'property': pid, 'ran': []}
    try:        # keep the description of an earlier run
        prev = json.load(open(os.path.join(VERIF, 'seeded', sid, 'meta.json')))
        for k in ('what', 'round', 'needs'):
            if k in prev:
                meta[k] = prev[k]
    except Exception:
        pass
    try:
        sh(f'cp -r /repo {repo}')
        sh('git checkout -q -- . && git clean -fdq', cwd=repo)
        rc, out = sh(f'git apply {patch}', cwd=repo)
        meta['applies'] = (rc == 0)
        if rc != 0:
            meta['apply_error'] = out[-500:]
            return meta
        # 1. the demonstration: fails with the change, passes without
        rc_m, out_m = sh(f'PYTHONHASHSEED=0 /venv/bin/python {demo} {repo}', timeout=1200)
        rc_c, out_c = sh(f'PYTHONHASHSEED=0 /venv/bin/python {demo} /repo', timeout=1200)
        meta['demo_rc_mutated'], meta['demo_rc_clean'] = rc_m, rc_c
        meta['demo_tail_mutated'] = out_m[-400:]
        meta['ran'].append(f'/venv/bin/python demo.py <mutated copy> -> rc {rc_m};  demo.py /repo -> rc {rc_c}')
        # 2. the existing tests still pass
        rc_b, out_b = sh(f'python3 {VERIF}/tools/baseline.py {repo}', timeout=3000)
        meta['baseline'] = out_b.strip().split('\n')[0]
        meta['ran'].append('python3 tools/baseline.py <mutated copy> -> ' + meta['baseline'])
        meta['confirmed'] = (rc_m == 1 and rc_c == 0 and rc_b == 0)
        # 3. the checks, from a private copy of /verif
        sh(f"rsync -a --exclude .git --exclude replays --exclude seeded {VERIF}/ {vf}/")
        env = dict(os.environ, VERIF_REPO=repo)
        meta['checks'] = {}
        for p in [pid] + extra:
            t = time.time()
            rc, out = sh(f'python3 tools/run.py {p} --tier quick', cwd=vf, env=env, timeout=3000)
            lines = [l for l in out.split('\n') if l.startswith('VIOLATION') or l.startswith(p + ':')]
            rep = ''
            for l in lines:
                if l.startswith('VIOLATION') and 'replay=' in l:
                    rp = l.split('replay=')[1].split()[0]
                    try:
                        rep = json.dumps(json.load(open(rp)))[:600]
                    except Exception:
                        pass
                    break
            meta['checks'][p] = {'rc': rc, 'detected': rc == 1 and any(l.startswith('VIOLATION') for l in lines),
                                 'with_failing_input': any(l.startswith('VIOLATION') and 'no-failing-input-found' not in l for l in lines),
                                 'lines': lines[:6], 'first_replay': rep, 'wall_s': round(time.time() - t, 1)}
            meta['ran'].append(f'VERIF_REPO=<mutated copy> python3 tools/run.py {p} --tier quick -> rc {rc}')
        return meta
    finally:
        out_dir = os.path.join(VERIF, 'seeded', sid)
        os.makedirs(out_dir, exist_ok=True)
        shutil.copy(patch, os.path.join(out_dir, 'patch.diff'))
        shutil.copy(demo, os.path.join(out_dir, 'demo.py'))
        old = {}
        mp = os.path.join(out_dir, 'meta.json')
        if os.path.exists(mp):
            old = json.load(open(mp))
        old.update(meta)
        json.dump(old, open(mp, 'w'), indent=1)
        shutil.rmtree(work, ignore_errors=True)
        print(json.dumps({k: meta.get(k) for k in ('seed', 'confirmed', 'baseline')}), {p: (c['detected'], c['with_failing_input']) for p, c in meta.get('checks', {}).items()})


if __name__ == '__main__':
    main()
