"""genx_reblock.py -- plug-in generator for property C12 (re-blocking to the 64x64x4 layout).

Extracts, with Python `ast` and FAIL-CLOSED (any statement or expression that is not recognised raises), from
`conversion.SgzConverter.convert_to_adv_sgz`:
  * the two refusal asserts (rate, blockshape)
  * the header patches  new_header[a:b] = int_to_bytes(expr)   in program order
  * the loop bounds, i_count / x_count, the seek offset, the staging-buffer slice, the read length, the block-copy slices
  * the footer loop: include_padding argument, the stored-only filter, the padding term of each write
and writes them as Gallina definitions over the reader's generated attributes (Gen/Reader.v) into Gen/Reblock.v.
The STATEMENT SKELETON (nesting and order of loops, reads, splices and writes) is checked against the one that
Model/Reblock.v interprets; every expression is translated, whatever it is (so a changed constant or formula changes
Gen/Reblock.v and the proofs are re-checked against it).
"""
import ast, os

OUTPUTS = ['Reblock']


class Unrecognised(Exception):
    pass


def bad(node, why):
    txt = ast.unparse(node) if isinstance(node, ast.AST) else str(node)
    raise Unrecognised(f'convert_to_adv_sgz: {why}: `{txt[:160]}` (line {getattr(node, "lineno", "?")})')


# self.<attr> -> Coq term (all are generated definitions of Gen/Reader.v over the parsed header H)
ATTR = {
    'n_ilines': '(rd_n_ilines H)', 'n_xlines': '(rd_n_xlines H)', 'n_samples': '(rd_n_samples H)',
    'rate': '(rb_rate H)', 'chunk_bytes': '(rd_chunk_bytes H)', 'unit_bytes': '(rd_unit_bytes H)',
    'data_start_bytes': '(rd_data_start_bytes H)',
    'padded_header_entry_length_bytes': '(rd_padded_header_entry_length_bytes H)',
    'header_entry_length_bytes': '(rd_header_entry_length_bytes H)',
}
TUPLE_ATTR = {'shape_pad': ['(rd_shape_pad0 H)', '(rd_shape_pad1 H)', '(rd_shape_pad2 H)'],
              'blockshape': ['(rd_blockshape0 H)', '(rd_blockshape1 H)', '(rd_blockshape2 H)']}
BINOPS = {ast.Add: '+', ast.Sub: '-', ast.Mult: '*', ast.FloorDiv: '/', ast.Mod: 'mod'}
CMPOPS = {ast.Gt: '>?', ast.Lt: '<?', ast.GtE: '>=?', ast.LtE: '<=?', ast.Eq: '=?'}


def is_self_attr(e, name=None):
    return isinstance(e, ast.Attribute) and isinstance(e.value, ast.Name) and e.value.id == 'self' and \
        (name is None or e.attr == name)


class Tx:
    """expression translator: returns (coq term, constant value or None)"""
    def __init__(self, consts):
        self.consts = consts            # module-level integer constants imported by conversion.py
        self.scalars = {}               # python local -> (term, const)
        self.tuples = {}                # python local -> [(term, const)]
        self.vars = []                  # loop variables / counts in scope (Coq parameters)
        self.special = {}               # unparse text -> term (e.g. len(header_array.tobytes()))

    def num(self, e):
        txt = ast.unparse(e)
        if txt in self.special:
            return self.special[txt], None
        if isinstance(e, ast.Constant):
            if type(e.value) is int and e.value >= 0:
                return str(e.value), e.value
            bad(e, 'constant is not a non-negative int')
        if isinstance(e, ast.Name):
            if e.id in self.vars:
                return e.id, None
            if e.id in self.scalars:
                return self.scalars[e.id]
            if e.id in self.consts:
                return str(self.consts[e.id]), self.consts[e.id]
            bad(e, 'unknown name')
        if is_self_attr(e):
            if e.attr in ATTR:
                return ATTR[e.attr], None
            bad(e, 'unknown attribute of self')
        if isinstance(e, ast.Subscript):
            ix = e.slice
            if not (isinstance(ix, ast.Constant) and type(ix.value) is int):
                bad(e, 'subscript is not a constant index')
            if isinstance(e.value, ast.Name) and e.value.id in self.tuples:
                items = self.tuples[e.value.id]
            elif is_self_attr(e.value) and e.value.attr in TUPLE_ATTR:
                items = [(t, None) for t in TUPLE_ATTR[e.value.attr]]
            else:
                bad(e, 'subscript of something that is not a known tuple')
            if not 0 <= ix.value < len(items):
                bad(e, 'tuple index out of range')
            return items[ix.value]
        if isinstance(e, ast.BinOp):
            if type(e.op) not in BINOPS:
                bad(e, 'operator not supported')
            (a, ca), (b, cb) = self.num(e.left), self.num(e.right)
            op = BINOPS[type(e.op)]
            if op in ('/', 'mod'):
                # Python raises ZeroDivisionError, Coq returns 0: only provably positive constant divisors are accepted
                if cb is None or cb <= 0:
                    bad(e, 'divisor is not a positive constant')
            cv = None
            if ca is not None and cb is not None:
                cv = {'+': ca + cb, '-': ca - cb, '*': ca * cb, '/': ca // cb if cb else None, 'mod': ca % cb if cb else None}[op]
                if cv is not None and cv < 0:
                    cv = None
            return f'({a} {op} {b})', cv
        if isinstance(e, ast.Call) and isinstance(e.func, ast.Name) and e.func.id == 'pad' and len(e.args) == 2 and not e.keywords:
            (a, _), (b, cb) = self.num(e.args[0]), self.num(e.args[1])
            if cb is None or cb <= 0:
                bad(e, 'pad multiple is not a positive constant')
            return f'(pad {a} {b})', None
        bad(e, 'expression not supported')

    def cond(self, e):
        if isinstance(e, ast.Compare) and len(e.ops) == 1 and type(e.ops[0]) in CMPOPS:
            (a, _), (b, _) = self.num(e.left), self.num(e.comparators[0])
            return f'({a} {CMPOPS[type(e.ops[0])]} {b})'
        bad(e, 'condition not supported')


def params(vars_):
    return ''.join(f' ({v} : Z)' for v in vars_)


def range_stop(node):
    """for <target> in range(<stop>)"""
    it = node.iter
    if not (isinstance(it, ast.Call) and isinstance(it.func, ast.Name) and it.func.id == 'range' and len(it.args) == 1
            and not it.keywords and not node.orelse):
        bad(node, 'loop is not `for v in range(stop)`')
    if not isinstance(node.target, ast.Name):
        bad(node, 'loop target is not a name')
    return node.target.id, it.args[0]


def slice_bounds(sl, what):
    if not (isinstance(sl, ast.Slice) and sl.lower is not None and sl.upper is not None and sl.step is None):
        bad(what, 'subscript is not a lo:hi slice')
    return sl.lower, sl.upper


def method_call(st, obj, meth):
    """expression statement  <obj>.<meth>(args)  -> the Call node, else None"""
    if isinstance(st, ast.Expr) and isinstance(st.value, ast.Call) and isinstance(st.value.func, ast.Attribute) \
            and st.value.func.attr == meth and ast.unparse(st.value.func.value) == obj:
        return st.value
    return None


def count_branch(st, name, tx):
    """if <cond>: name = e1  else: name = e2   -> Coq term"""
    if not (isinstance(st, ast.If) and len(st.body) == 1 and len(st.orelse) == 1):
        bad(st, f'expected the if/else that sets {name}')
    terms = []
    for b in (st.body[0], st.orelse[0]):
        if not (isinstance(b, ast.Assign) and len(b.targets) == 1 and isinstance(b.targets[0], ast.Name)
                and b.targets[0].id == name):
            bad(b, f'expected `{name} = ...`')
        terms.append(tx.num(b.value)[0])
    return f'(if {tx.cond(st.test)} then {terms[0]} else {terms[1]})'


def generate(srcdir):
    path = os.path.join(srcdir, 'conversion.py')
    tree = ast.parse(open(path).read())
    # ---- imports the translation relies on
    imported = {}
    for node in tree.body:
        if isinstance(node, ast.ImportFrom) and node.level == 1:
            for a in node.names:
                imported[a.asname or a.name] = node.module
    for name, mod in (('pad', 'utils'), ('int_to_bytes', 'utils'), ('DISK_BLOCK_BYTES', 'sgzconstants'), ('SgzReader', 'read')):
        if imported.get(name) != mod:
            raise Unrecognised(f'conversion.py no longer imports {name} from .{mod}')
    consts = {}
    for node in ast.parse(open(os.path.join(srcdir, 'sgzconstants.py')).read()).body:
        if isinstance(node, ast.Assign) and len(node.targets) == 1 and isinstance(node.targets[0], ast.Name) \
                and isinstance(node.value, ast.Constant) and type(node.value.value) is int:
            consts[node.targets[0].id] = node.value.value
    consts = {k: v for k, v in consts.items() if imported.get(k) == 'sgzconstants'}
    # int_to_bytes must be struct.pack('<I', x)
    utils = ast.parse(open(os.path.join(srcdir, 'utils.py')).read())
    itb = [n for n in utils.body if isinstance(n, ast.FunctionDef) and n.name == 'int_to_bytes']
    if len(itb) != 1 or len(itb[0].body) != 1 or not isinstance(itb[0].body[0], ast.Return) or \
            ast.unparse(itb[0].body[0].value) != f"struct.pack('<I', {itb[0].args.args[0].arg})":
        raise Unrecognised("utils.int_to_bytes is no longer struct.pack('<I', x)")
    # default of include_padding in read.SgzReader.read_variant_headers
    rd = ast.parse(open(os.path.join(srcdir, 'read.py')).read())
    rvh = [f for c in rd.body if isinstance(c, ast.ClassDef) and c.name == 'SgzReader'
           for f in c.body if isinstance(f, ast.FunctionDef) and f.name == 'read_variant_headers']
    if len(rvh) != 1:
        raise Unrecognised('read.SgzReader.read_variant_headers not found')
    a = rvh[0].args
    if [x.arg for x in a.args] != ['self', 'include_padding', 'tracefields'] or len(a.defaults) != 2 or \
            not (isinstance(a.defaults[0], ast.Constant) and type(a.defaults[0].value) is bool) or \
            not (isinstance(a.defaults[1], ast.Constant) and a.defaults[1].value is None):
        raise Unrecognised('signature of read_variant_headers changed')
    ip_default = a.defaults[0].value

    cls = [c for c in tree.body if isinstance(c, ast.ClassDef) and c.name == 'SgzConverter']
    if len(cls) != 1 or [ast.unparse(b) for b in cls[0].bases] != ['SgzReader']:
        raise Unrecognised('class SgzConverter(SgzReader) not found')
    fns = [f for f in cls[0].body if isinstance(f, ast.FunctionDef) and f.name == 'convert_to_adv_sgz']
    if len(fns) != 1:
        raise Unrecognised('SgzConverter.convert_to_adv_sgz not found')
    fn = fns[0]
    if [x.arg for x in fn.args.args] != ['self', 'out_file'] or fn.args.defaults or fn.decorator_list:
        bad(fn, 'signature changed')
    # the converter must not override what it uses from the reader
    overridden = {f.name for f in cls[0].body if isinstance(f, ast.FunctionDef)}
    for m in ('read_variant_headers', 'get_unstructured_mask', '_parse_dimensions', '_parse_data_sizes', '_decode_traceheader_template'):
        if m in overridden:
            raise Unrecognised(f'SgzConverter overrides {m}')

    tx = Tx(consts)
    out = []
    D = out.append
    body = list(fn.body)
    pos = 0

    # ---- 1. asserts
    guards = []
    while pos < len(body) and isinstance(body[pos], ast.Assert):
        t = body[pos].test
        if body[pos].msg is not None or not (isinstance(t, ast.Compare) and len(t.ops) == 1 and isinstance(t.ops[0], ast.Eq)):
            bad(body[pos], 'assert is not an equality')
        lhs, rhs = t.left, t.comparators[0]
        if is_self_attr(lhs, 'rate') and isinstance(rhs, ast.Constant) and type(rhs.value) is int and rhs.value > 0:
            # rate is the rational rd_rate_n / rd_rate_d with a positive denominator
            guards.append(('rate', f'((rd_rate_n H) =? ({rhs.value} * (rd_rate_d H)))', ast.unparse(body[pos])))
        elif is_self_attr(lhs, 'blockshape') and isinstance(rhs, ast.Tuple) and len(rhs.elts) == 3 and \
                all(isinstance(c, ast.Constant) and type(c.value) is int and c.value > 0 for c in rhs.elts):
            g = ' && '.join(f'({TUPLE_ATTR["blockshape"][k]} =? {c.value})' for k, c in enumerate(rhs.elts))
            guards.append(('blockshape', f'({g})', ast.unparse(body[pos])))
        else:
            bad(body[pos], 'assert not recognised')
        pos += 1
    if [g[0] for g in guards] != ['rate', 'blockshape']:
        raise Unrecognised('expected exactly the asserts on self.rate and self.blockshape, in this order, before anything else')
    D('(* self.rate inside arithmetic is translated as its numerator: exact when the rate is an integer (rd_rate_d H = 1),\n'
      '   which the first assert implies (Proofs/Reblock.v, guard_rate_integral). *)')
    D('Definition rb_rate (H : hdr) : Z := (rd_rate_n H).\n')
    for k, (nm, term, txt) in enumerate(guards):
        D(f'(* {txt} *)\nDefinition rb_assert_{nm} (H : hdr) : bool := {term}.\n')

    # ---- 2. header copy, patches and local definitions, up to the `with`
    st = body[pos]
    if not (isinstance(st, ast.Assign) and ast.unparse(st) == 'new_header = bytearray(self.headerbytes)'):
        bad(st, 'expected `new_header = bytearray(self.headerbytes)`')
    pos += 1
    patches = []

    def local_assign(st, scope_vars):
        """name = expr | name = (e0, e1, ...)  -> emits definitions, extends the environment"""
        if not (isinstance(st, ast.Assign) and len(st.targets) == 1 and isinstance(st.targets[0], ast.Name)):
            return False
        name = st.targets[0].id
        if name in tx.scalars or name in tx.tuples or name in tx.vars or name in ('new_header', 'buffer', 'new_block', 'idx', 'outfile'):
            bad(st, 'local name assigned twice / reserved')
        if isinstance(st.value, ast.Tuple):
            items = []
            for k, el in enumerate(st.value.elts):
                term, cv = tx.num(el)
                D(f'Definition rb_{name}{k} (H : hdr){params(scope_vars)} : Z := {term}.')
                items.append((f'(rb_{name}{k} H{"".join(" " + v for v in scope_vars)})', cv))
            D('')
            tx.tuples[name] = items
        else:
            term, cv = tx.num(st.value)
            D(f'Definition rb_{name} (H : hdr){params(scope_vars)} : Z := {term}.\n')
            tx.scalars[name] = (f'(rb_{name} H{"".join(" " + v for v in scope_vars)})', cv)
        return True

    while pos < len(body) and not isinstance(body[pos], ast.With):
        st = body[pos]
        if isinstance(st, ast.Assign) and len(st.targets) == 1 and isinstance(st.targets[0], ast.Subscript) and \
                isinstance(st.targets[0].value, ast.Name) and st.targets[0].value.id == 'new_header':
            lo, hi = slice_bounds(st.targets[0].slice, st)
            if not (isinstance(lo, ast.Constant) and isinstance(hi, ast.Constant) and type(lo.value) is int and type(hi.value) is int
                    and 0 <= lo.value <= hi.value):
                bad(st, 'header patch bounds are not constants')
            v = st.value
            if not (isinstance(v, ast.Call) and isinstance(v.func, ast.Name) and v.func.id == 'int_to_bytes' and len(v.args) == 1 and not v.keywords):
                bad(st, 'header patch value is not int_to_bytes(expr)')
            patches.append((lo.value, hi.value, tx.num(v.args[0])[0], ast.unparse(st)))
        elif not local_assign(st, []):
            bad(st, 'statement before the `with` not recognised')
        pos += 1
    D('(* new_header[lo:hi] = int_to_bytes(value), in program order; int_to_bytes = struct.pack("<I", value) *)')
    for p in patches:
        D(f'(* {p[3]} *)')
    D('Definition rb_header_patches (H : hdr) : list (Z * Z * Z) :=\n  [' +
      ';\n   '.join(f'({p[0]}, {p[1]}, {p[2]})' for p in patches) + '].\n')

    # ---- 3. with open(out_file, "wb") as outfile:
    if pos != len(body) - 1:
        bad(body[pos + 1] if pos + 1 < len(body) else fn, 'statements after the `with` block')
    w = body[pos]
    if not (len(w.items) == 1 and ast.unparse(w.items[0].context_expr) == "open(out_file, 'wb')" and
            isinstance(w.items[0].optional_vars, ast.Name) and w.items[0].optional_vars.id == 'outfile'):
        bad(w, "expected `with open(out_file, 'wb') as outfile`")
    wb = list(w.body)
    c = method_call(wb[0], 'outfile', 'write')
    if c is None or ast.unparse(c) != 'outfile.write(new_header)':
        bad(wb[0], 'expected `outfile.write(new_header)` first')
    k = 1
    while k < len(wb) and not isinstance(wb[k], ast.For):
        if not local_assign(wb[k], []):
            bad(wb[k], 'statement before the block loops not recognised')
        k += 1
    if len(wb) != k + 3:
        bad(w, 'expected: block loops, read_variant_headers, footer loop')
    fi, call_rvh, ffoot = wb[k], wb[k + 1], wb[k + 2]

    # ---- 3a. for i
    iv, istop = range_stop(fi)
    if iv != 'i':
        bad(fi, 'outer loop variable is not i')
    D(f'(* for i in range({ast.unparse(istop)}) *)')
    D(f'Definition rb_i_stop (H : hdr) : Z := {tx.num(istop)[0]}.\n')
    tx.vars.append('i')
    if len(fi.body) != 2 or not isinstance(fi.body[1], ast.For):
        bad(fi, 'body of the i loop is not [if/else i_count; for x]')
    D(f'Definition rb_i_count (H : hdr){params(tx.vars)} : Z := {count_branch(fi.body[0], "i_count", tx)}.\n')
    tx.vars.append('i_count')
    fx = fi.body[1]
    xv, xstop = range_stop(fx)
    if xv != 'x':
        bad(fx, 'second loop variable is not x')
    D(f'(* for x in range({ast.unparse(xstop)}) *)')
    D(f'Definition rb_x_stop (H : hdr){params(tx.vars)} : Z := {tx.num(xstop)[0]}.\n')
    tx.vars.append('x')
    if len(fx.body) != 4 or not isinstance(fx.body[2], ast.For) or not isinstance(fx.body[3], ast.For):
        bad(fx, 'body of the x loop is not [if/else x_count; buffer = bytearray(..); for n; for z]')
    D(f'Definition rb_x_count (H : hdr){params(tx.vars)} : Z := {count_branch(fx.body[0], "x_count", tx)}.\n')
    tx.vars.append('x_count')
    sb = fx.body[1]
    if not (isinstance(sb, ast.Assign) and len(sb.targets) == 1 and ast.unparse(sb.targets[0]) == 'buffer' and
            isinstance(sb.value, ast.Call) and ast.unparse(sb.value.func) == 'bytearray' and len(sb.value.args) == 1 and not sb.value.keywords):
        bad(sb, 'expected `buffer = bytearray(<length>)`')
    D(f'(* {ast.unparse(sb)} *)')
    D(f'Definition rb_buffer_len (H : hdr){params(tx.vars)} : Z := {tx.num(sb.value.args[0])[0]}.\n')
    # ---- for n: seek; idx = slice(lo, hi); buffer[idx] = self.file.read(len)
    fnn = fx.body[2]
    nv, nstop = range_stop(fnn)
    if nv != 'n':
        bad(fnn, 'fill loop variable is not n')
    D(f'(* for n in range({ast.unparse(nstop)}) *)')
    D(f'Definition rb_n_stop (H : hdr){params(tx.vars)} : Z := {tx.num(nstop)[0]}.\n')
    tx.vars.append('n')
    if len(fnn.body) != 3:
        bad(fnn, 'body of the n loop is not [seek; idx = slice(..); buffer[idx] = read(..)]')
    c = method_call(fnn.body[0], 'self.file', 'seek')
    if c is None or len(c.args) != 1 or c.keywords:
        bad(fnn.body[0], 'expected self.file.seek(<offset>)')
    D(f'(* {ast.unparse(fnn.body[0])} *)')
    D(f'Definition rb_seek (H : hdr){params(tx.vars)} : Z := {tx.num(c.args[0])[0]}.\n')
    si = fnn.body[1]
    if not (isinstance(si, ast.Assign) and len(si.targets) == 1 and ast.unparse(si.targets[0]) == 'idx' and
            isinstance(si.value, ast.Call) and ast.unparse(si.value.func) == 'slice' and len(si.value.args) == 2 and not si.value.keywords):
        bad(si, 'expected idx = slice(lo, hi)')
    D(f'(* {ast.unparse(si)} *)')
    D(f'Definition rb_idx_lo (H : hdr){params(tx.vars)} : Z := {tx.num(si.value.args[0])[0]}.')
    D(f'Definition rb_idx_hi (H : hdr){params(tx.vars)} : Z := {tx.num(si.value.args[1])[0]}.\n')
    sa = fnn.body[2]
    if not (isinstance(sa, ast.Assign) and len(sa.targets) == 1 and ast.unparse(sa.targets[0]) == 'buffer[idx]' and
            isinstance(sa.value, ast.Call) and ast.unparse(sa.value.func) == 'self.file.read' and len(sa.value.args) == 1 and not sa.value.keywords):
        bad(sa, 'expected buffer[idx] = self.file.read(<length>)')
    D(f'(* {ast.unparse(sa)} *)')
    D(f'Definition rb_read_len (H : hdr){params(tx.vars)} : Z := {tx.num(sa.value.args[0])[0]}.\n')
    tx.vars.pop()
    # ---- for z: new_block = bytearray(len); for u: new_block[a:b] = buffer[c:d]; outfile.write(new_block)
    fz = fx.body[3]
    zv, zstop = range_stop(fz)
    if zv != 'z':
        bad(fz, 'block loop variable is not z')
    D(f'(* for z in range({ast.unparse(zstop)}) *)')
    D(f'Definition rb_z_stop (H : hdr){params(tx.vars)} : Z := {tx.num(zstop)[0]}.\n')
    tx.vars.append('z')
    if len(fz.body) != 3 or not isinstance(fz.body[1], ast.For):
        bad(fz, 'body of the z loop is not [new_block = bytearray(..); for u; outfile.write(new_block)]')
    nb = fz.body[0]
    if not (isinstance(nb, ast.Assign) and len(nb.targets) == 1 and ast.unparse(nb.targets[0]) == 'new_block' and
            isinstance(nb.value, ast.Call) and ast.unparse(nb.value.func) == 'bytearray' and len(nb.value.args) == 1 and not nb.value.keywords):
        bad(nb, 'expected new_block = bytearray(<length>)')
    D(f'(* {ast.unparse(nb)} *)')
    D(f'Definition rb_block_len (H : hdr){params(tx.vars)} : Z := {tx.num(nb.value.args[0])[0]}.\n')
    fu = fz.body[1]
    uv, ustop = range_stop(fu)
    if uv != 'u':
        bad(fu, 'copy loop variable is not u')
    D(f'(* for u in range({ast.unparse(ustop)}) *)')
    D(f'Definition rb_u_stop (H : hdr){params(tx.vars)} : Z := {tx.num(ustop)[0]}.\n')
    tx.vars.append('u')
    if len(fu.body) != 1:
        bad(fu, 'body of the u loop is not one slice assignment')
    cp = fu.body[0]
    if not (isinstance(cp, ast.Assign) and len(cp.targets) == 1 and isinstance(cp.targets[0], ast.Subscript) and
            ast.unparse(cp.targets[0].value) == 'new_block' and isinstance(cp.value, ast.Subscript) and
            ast.unparse(cp.value.value) == 'buffer'):
        bad(cp, 'expected new_block[a:b] = buffer[c:d]')
    dlo, dhi = slice_bounds(cp.targets[0].slice, cp)
    slo, shi = slice_bounds(cp.value.slice, cp)
    D(f'(* {" ".join(ast.unparse(cp).split())} *)')
    D(f'Definition rb_dst_lo (H : hdr){params(tx.vars)} : Z := {tx.num(dlo)[0]}.')
    D(f'Definition rb_dst_hi (H : hdr){params(tx.vars)} : Z := {tx.num(dhi)[0]}.')
    D(f'Definition rb_src_lo (H : hdr){params(tx.vars)} : Z := {tx.num(slo)[0]}.')
    D(f'Definition rb_src_hi (H : hdr){params(tx.vars)} : Z := {tx.num(shi)[0]}.\n')
    tx.vars.pop()
    c = method_call(fz.body[2], 'outfile', 'write')
    if c is None or ast.unparse(c) != 'outfile.write(new_block)':
        bad(fz.body[2], 'expected outfile.write(new_block)')
    tx.vars.clear()

    # ---- 4. footer
    c = method_call(call_rvh, 'self', 'read_variant_headers')
    reload_ = False
    if c is None:
        # the D47 repair: self._load_variant_headers(<bool>) = drop arrays left in the other padding mode, then read_variant_headers
        c = method_call(call_rvh, 'self', '_load_variant_headers')
        if c is None or len(c.args) != 1 or c.keywords or not (isinstance(c.args[0], ast.Constant) and type(c.args[0].value) is bool):
            bad(call_rvh, 'expected self.read_variant_headers(...) or self._load_variant_headers(<bool>)')
        ip = c.args[0].value
        reload_ = True
    else:
        if c.args:
            bad(call_rvh, 'expected self.read_variant_headers(...) with keyword arguments only')
        ip = ip_default
        for kw in c.keywords:
            if kw.arg == 'include_padding' and isinstance(kw.value, ast.Constant) and type(kw.value.value) is bool:
                ip = kw.value.value
            else:
                bad(call_rvh, 'argument of read_variant_headers not recognised')
    D(f'(* {ast.unparse(call_rvh)}   (default include_padding={ip_default}) *)')
    D(f'Definition rb_footer_include_padding : bool := {"true" if ip else "false"}.\n')
    D('(* true: loaded through _load_variant_headers, which reloads after a padding-mode switch by an earlier query *)')
    D(f'Definition rb_footer_reload_on_mode_switch : bool := {"true" if reload_ else "false"}.\n')
    if not (isinstance(ffoot, ast.For) and not ffoot.orelse and len(ffoot.body) == 1):
        bad(ffoot, 'expected the footer loop with one statement')
    head = (ast.unparse(ffoot.target), ast.unparse(ffoot.iter))
    if head == ('(k, header_array)', 'self.variant_headers.items()'):
        table_order = False         # insertion order of the memo: the table order only on an object that served no earlier query
    elif head == ('k', 'self.stored_header_keys'):
        table_order = True          # the D45 repair: header-word-table order whatever was loaded before
    else:
        bad(ffoot, 'expected `for k, header_array in self.variant_headers.items():` or `for k in self.stored_header_keys:`')
    inner = ffoot.body[0]
    stored_only = False
    if isinstance(inner, ast.If):
        if ast.unparse(inner.test) != 'self.hw_info.table[k][1] == k' or inner.orelse or len(inner.body) != (2 if table_order else 1):
            bad(inner, 'footer filter is not `if self.hw_info.table[k][1] == k:` around the write')
        stored_only = True
        if table_order:
            if ast.unparse(inner.body[0]) != 'header_array = self.variant_headers[k]':
                bad(inner.body[0], 'expected `header_array = self.variant_headers[k]`')
        inner = inner.body[-1]
    elif table_order:
        bad(inner, 'expected `if self.hw_info.table[k][1] == k:` in the footer loop over stored_header_keys')
    c = method_call(inner, 'outfile', 'write')
    if c is None or len(c.args) != 1 or c.keywords:
        bad(inner, 'expected outfile.write(<bytes>) in the footer loop')
    arg = c.args[0]
    tx.special = {'len(header_array.tobytes())': 'alen'}
    if ast.unparse(arg) == 'header_array.tobytes()':
        padterm = '0'
    elif isinstance(arg, ast.BinOp) and isinstance(arg.op, ast.Add) and ast.unparse(arg.left) == 'header_array.tobytes()' and \
            isinstance(arg.right, ast.Call) and ast.unparse(arg.right.func) == 'bytes' and len(arg.right.args) == 1 and not arg.right.keywords:
        pe = arg.right.args[0]
        if isinstance(pe, ast.BinOp) and isinstance(pe.op, ast.Mod) and isinstance(pe.left, ast.UnaryOp) and isinstance(pe.left.op, ast.USub):
            # bytes(-len % m): the writers' idiom
            (a_, _), (m_, cm) = tx.num(pe.left.operand), tx.num(pe.right)
            if cm is None or cm <= 0:
                bad(pe, 'modulus is not a positive constant')
            padterm = f'((- {a_}) mod {m_})'
        else:
            padterm = tx.num(pe)[0]
    else:
        bad(inner, 'footer write is neither header_array.tobytes() nor header_array.tobytes() + bytes(<n>)')
    D(f'(* {" ".join(ast.unparse(ffoot).split())} *)')
    D(f'Definition rb_footer_stored_only : bool := {"true" if stored_only else "false"}.')
    D('(* true: the loop runs over self.stored_header_keys (table order); false: over the memo self.variant_headers in its insertion order,\n'
      '   which is the table order only when no tracefield query preceded the conversion on the same object *)')
    D(f'Definition rb_footer_table_order : bool := {"true" if table_order else "false"}.')
    D('(* number of zero bytes appended to each written array (alen = len(header_array.tobytes())); bytes(n) raises for n < 0 *)')
    D(f'Definition rb_footer_pad (H : hdr) (alen : Z) : Z := {padterm}.')

    header = ('(* GENERATED by tools/genx_reblock.py from seismic_zfp/conversion.py (SgzConverter.convert_to_adv_sgz) -- DO NOT EDIT.\n'
              '   Regenerated on every check run.  Statement skeleton checked by the generator (fail closed):\n'
              '     assert rate; assert blockshape; new_header = bytearray(headerbytes); [patches / locals];\n'
              '     with open(out_file, "wb"): write(new_header); [locals];\n'
              '       for i: i_count = if/else; for x: x_count = if/else; buffer = bytearray(L);\n'
              '         for n: file.seek(S); idx = slice(lo, hi); buffer[idx] = file.read(R)\n'
              '         for z: new_block = bytearray(B); for u: new_block[a:b] = buffer[c:d]; write(new_block)\n'
              '       read_variant_headers(..); for k, header_array in variant_headers.items(): [if stored:] write(array [+ bytes(pad)])\n'
              '   Python // and % are Z.div and Z.modulo (same rounding; every divisor is a positive constant). *)\n'
              'From Coq Require Import ZArith List Bool.\nImport ListNotations.\n'
              'From SZ Require Import Lib.Py Gen.Utils Gen.Reader.\nOpen Scope Z_scope.\n\n')
    return {'Reblock': header + '\n'.join(out) + '\n'}


if __name__ == '__main__':
    import sys
    print(generate(sys.argv[1] if len(sys.argv) > 1 else '/repo/seismic_zfp')['Reblock'])
