#!/bin/bash
# seedbatch.sh : (maintainer) run tools/seedtest.py for every /tmp/seed/Cxx_m?.diff not yet tested, 4 at a time
cd /verif
declare -A REL=( [C01]="C03 C19" [C02]="C14 C07" [C03]="C10" [C04]="C03" [C05]="C10" [C07]="C02" [C09]="C02 C16" [C10]="C03" [C11]="C20 C01" [C12]="C03" [C13]="C02" [C14]="C02" [C16]="C01 C09" [C17]="C18" [C18]="C17" [C19]="C01" [C20]="C11" )
SD=${1:-/tmp/seed}; TAG=${2:-}
for d in $SD/C??_m?.diff; do
  b=$(basename $d .diff); pid=${b%%_*}; sid=${pid}_${TAG}${b##*_}
  [ -f seeded/$sid/meta.json ] && grep -q '"checks"' seeded/$sid/meta.json && continue
  [ -f $SD/${b}_demo.py ] || continue
  echo "python3 tools/seedtest.py $sid $pid $d $SD/${b}_demo.py ${REL[$pid]} > /dev/shm/st_$sid.log 2>&1"
done | xargs -P 4 -I{} bash -c "{}"
for f in /dev/shm/st_*.log; do tail -n 1 $f; done
