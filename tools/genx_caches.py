#!/usr/bin/env python3
"""genx_caches.py -- plug-in generator for property C15 (history independence): emits coq/Gen/Caches.v.

Extracted with Python `ast` from the CURRENT sources; everything not recognised raises Fail (the target is then a
translation failure, Gen/Caches.v is removed and the C15 proofs stop building -- fail closed, never a guess):

  loader.py        every method of every class carrying a decorator: the decorator must be `lru_cache(maxsize=<int>)`;
                   -> cached_methods_{base,2d,3d} : (name, maxsize, parameter names INCLUDING self = the cache key)
                   body of each clear_cache -> clear_cache_{2d,3d} (which caches close() empties)
                   attributes of self read / written, transitively through self.<method>() calls, by the cached methods;
                   attributes assigned outside __init__ (mutable after construction) -> cached_reads_mutable
                   the exact statements of _get_compressed_bytes / load_compressed_volume (preload short-circuit)
  read.py          the chunk-cache construction `self._read_containing_chunk_cached = lru_cache(maxsize=...)(self.<m>)`,
                   the parameters of <m>, its single call site and arguments, the default size expression;
                   reader attributes that are mutated outside __init__ and those read by the chunk function;
                   bodies of close / close_sgz_file / __exit__ / clear_variant_headers / get_unstructured_mask;
                   how get_tracefield_1d and gen_trace_header load the footer arrays (the D18 repair: through
                   _load_variant_headers, which reloads on a padding-mode switch) -> vh_reload_on_mode_switch
  utils.py         read_range_file = seek; read (checked statement by statement)
  segyio_emulator  the accessor objects constructed on self.file (always / 3D only), __exit__
  accessors.py     every accessor __init__ passes only the handle to SgzReader.__init__ (no preload, default cache)
  every module     no other use of lru_cache / cache_clear / functools anywhere in the package
"""
import ast, os

OUTPUTS = ['Caches']


class Fail(Exception):
    pass


def need(cond, msg):
    if not cond:
        raise Fail(msg)


def U(node):
    return ast.unparse(node)


def strip_doc(body):
    return [s for s in body if not (isinstance(s, ast.Expr) and isinstance(s.value, ast.Constant)
                                    and isinstance(s.value.value, str))]


def parse(srcdir, mod):
    p = os.path.join(srcdir, mod + '.py')
    need(os.path.exists(p), f'{mod}.py missing')
    return ast.parse(open(p).read())


def classes(tree):
    return {n.name: n for n in tree.body if isinstance(n, ast.ClassDef)}


def methods(cls):
    out = {}
    for n in cls.body:
        if isinstance(n, ast.FunctionDef):
            need(n.name not in out, f'{cls.name}.{n.name} defined twice')
            out[n.name] = n
        elif isinstance(n, (ast.AsyncFunctionDef, ast.ClassDef)):
            raise Fail(f'{cls.name}: nested {type(n).__name__} {n.name}')
    return out


def argnames(f, allow_defaults=False):
    a = f.args
    need(not a.vararg and not a.kwarg and not a.posonlyargs and not a.kwonlyargs, f'{f.name}: unusual signature')
    if not allow_defaults:
        need(not a.defaults, f'{f.name}: cached function with default arguments (the key would depend on how it is called)')
    return [x.arg for x in a.args]


def coq_str(s):
    need('"' not in s, f'quote in {s!r}')
    return '"' + s + '"'


def coq_strs(xs):
    return '[' + '; '.join(coq_str(x) for x in xs) + ']'


# ---------------------------------------------------------------------------------------------- self.<attr> analysis
def self_uses(f):
    """(attributes of self loaded, attributes of self stored/mutated, self methods called) in one function body.
    A nested function / lambda / comprehension is walked too (it closes over self)."""
    loads, stores, calls = set(), set(), set()
    called_funcs = set()
    for n in ast.walk(f):
        if isinstance(n, ast.Call) and isinstance(n.func, ast.Attribute) and isinstance(n.func.value, ast.Name) \
                and n.func.value.id == 'self':
            calls.add(n.func.attr)
            called_funcs.add(id(n.func))
    for n in ast.walk(f):
        if isinstance(n, ast.Attribute) and isinstance(n.value, ast.Name) and n.value.id == 'self':
            if isinstance(n.ctx, (ast.Store, ast.Del)):
                stores.add(n.attr)
            elif id(n) not in called_funcs:
                loads.add(n.attr)
        # self.x[...] = ..., self.x.y = ...  (mutation through the attribute)
        if isinstance(n, (ast.Subscript, ast.Attribute)) and isinstance(n.ctx, (ast.Store, ast.Del)):
            b = n.value
            while isinstance(b, (ast.Subscript, ast.Attribute)) and not (
                    isinstance(b, ast.Attribute) and isinstance(b.value, ast.Name) and b.value.id == 'self'):
                b = b.value
            if isinstance(b, ast.Attribute) and isinstance(b.value, ast.Name) and b.value.id == 'self' and b is not n:
                stores.add(b.attr)
        # self.x.clear() / update / pop / append ... : a mutating container method on an attribute
        if isinstance(n, ast.Call) and isinstance(n.func, ast.Attribute) and n.func.attr in (
                'clear', 'update', 'pop', 'popitem', 'append', 'extend', 'insert', 'remove', 'setdefault', 'sort', 'fill'):
            b = n.func.value
            if isinstance(b, ast.Attribute) and isinstance(b.value, ast.Name) and b.value.id == 'self':
                stores.add(b.attr)
    return loads, stores, calls


def closure_uses(meths, start):
    """transitive (loads, stores) of self attributes from method `start` through self.<method>() calls"""
    seen, todo = set(), [start]
    loads, stores = set(), set()
    while todo:
        m = todo.pop()
        if m in seen:
            continue
        seen.add(m)
        need(m in meths, f'call of unknown method self.{m}()')
        l, s, c = self_uses(meths[m])
        # a method passed as a value (executor.submit(self._insert_chunk_into_buffer, ...)) is a call
        c = c | {x for x in l if x in meths}
        l = {x for x in l if x not in meths}
        loads |= l
        stores |= s
        for x in c:
            if x in meths:
                todo.append(x)
            else:
                # calling an attribute that is not a method of the class (e.g. self.file.read_range is not of this form;
                # self.values_function(...) would be): treat it as an attribute read
                loads.add(x)
    return loads, stores, seen


# ---------------------------------------------------------------------------------------------- loader.py
EXPECT_GET_BYTES = ['if self.compressed_volume is not None:\n    return self.compressed_volume[offset:offset + length_bytes]\n'
                    'else:\n    return self.file.read_range(self.file, self.data_start_bytes + offset, length_bytes)']
EXPECT_LOAD_VOLUME = ['if self.compressed_volume is None:\n    self.compressed_volume = self.file.read_range(self.file, '
                      'self.data_start_bytes, self.compressed_data_diskblocks * self.block_bytes)\nelse:\n    pass']


def lru_decorator(d, where):
    need(isinstance(d, ast.Call) and isinstance(d.func, ast.Name) and d.func.id == 'lru_cache',
         f'{where}: decorator {U(d)} is not lru_cache(maxsize=N)')
    need(not d.args and len(d.keywords) == 1 and d.keywords[0].arg == 'maxsize', f'{where}: decorator {U(d)}')
    v = d.keywords[0].value
    need(isinstance(v, ast.Constant) and isinstance(v.value, int) and not isinstance(v.value, bool) and v.value >= 0,
         f'{where}: maxsize {U(v)} is not a non-negative integer literal')
    return v.value


def gen_loader(srcdir):
    tree = parse(srcdir, 'loader')
    imps = [U(n) for n in tree.body if isinstance(n, (ast.Import, ast.ImportFrom))]
    need('from functools import lru_cache' in imps, 'loader.py: lru_cache is not functools.lru_cache')
    need(sum('lru_cache' in i for i in imps) == 1, 'loader.py: lru_cache imported more than once')
    for n in ast.walk(tree):
        if isinstance(n, (ast.Assign, ast.AugAssign, ast.AnnAssign)):
            for t in ([n.target] if not isinstance(n, ast.Assign) else n.targets):
                need(not (isinstance(t, ast.Name) and t.id == 'lru_cache'), 'loader.py: lru_cache rebound')
    cl = classes(tree)
    need(sorted(cl) == ['SgzLoader', 'SgzLoader2d', 'SgzLoader3d'], f'loader.py: classes {sorted(cl)}')
    need([U(b) for b in cl['SgzLoader'].bases] == ['object'], 'SgzLoader bases')
    for c in ('SgzLoader2d', 'SgzLoader3d'):
        need([U(b) for b in cl[c].bases] == ['SgzLoader'], f'{c} bases')
    need(not [n for n in tree.body if isinstance(n, ast.FunctionDef)], 'loader.py: module-level function')
    M = {c: methods(cl[c]) for c in cl}
    for c in cl:
        for n in cl[c].body:
            need(isinstance(n, ast.FunctionDef) or (isinstance(n, ast.Expr) and isinstance(n.value, ast.Constant)),
                 f'{c}: class-level statement {U(n)[:60]} (a class-level cache or attribute?)')
    for c in cl:
        for name in M[c]:
            need(not (name.startswith('__') and name.endswith('__')) or name == '__init__',
                 f'{c}.{name}: special method on a loader class (__eq__/__hash__ would change what the cache key `self` means)')
    base = M['SgzLoader']
    need(sorted(base) == ['__init__', '_decompress', '_decompress_into_array', '_get_compressed_bytes', 'load_compressed_volume'],
         f'SgzLoader methods {sorted(base)}')
    need([U(s) for s in strip_doc(base['_get_compressed_bytes'].body)] == EXPECT_GET_BYTES,
         '_get_compressed_bytes is not the modelled preload short-circuit')
    need(argnames(base['_get_compressed_bytes']) == ['self', 'offset', 'length_bytes'], '_get_compressed_bytes signature')
    need([U(s) for s in strip_doc(base['load_compressed_volume'].body)] == EXPECT_LOAD_VOLUME,
         'load_compressed_volume is not the modelled one')
    cached = {}
    for c in cl:
        cached[c] = []
        for name, f in M[c].items():
            if not f.decorator_list:
                continue
            need(len(f.decorator_list) == 1, f'{c}.{name}: several decorators')
            ms = lru_decorator(f.decorator_list[0], f'{c}.{name}')
            params = argnames(f)
            need(params and params[0] == 'self', f'{c}.{name}: first parameter is not self (key would not identify the loader)')
            cached[c].append((name, ms, params))
    need(not cached['SgzLoader'], 'a cached method in the base class')
    # a subclass must not redefine a cached method of another class / the base helpers
    for c in ('SgzLoader2d', 'SgzLoader3d'):
        need(not (set(M[c]) & set(base)), f'{c} overrides base methods {set(M[c]) & set(base)}')
    need(not ({n for n, _, _ in cached['SgzLoader2d']} & {n for n, _, _ in cached['SgzLoader3d']}), 'same cached name in both classes')
    clear = {}
    for c in ('SgzLoader2d', 'SgzLoader3d'):
        need('clear_cache' in M[c], f'{c}.clear_cache missing')
        f = M[c]['clear_cache']
        need(argnames(f) == ['self'] and not f.decorator_list, f'{c}.clear_cache signature')
        names = []
        for s in strip_doc(f.body):
            ok = (isinstance(s, ast.Expr) and isinstance(s.value, ast.Call) and not s.value.args and not s.value.keywords
                  and isinstance(s.value.func, ast.Attribute) and s.value.func.attr == 'cache_clear'
                  and isinstance(s.value.func.value, ast.Attribute) and isinstance(s.value.func.value.value, ast.Name)
                  and s.value.func.value.value.id == 'self')
            need(ok, f'{c}.clear_cache: statement {U(s)}')
            names.append(s.value.func.value.attr)
        clear[c] = names
    # cache_clear / cache_info / __wrapped__ nowhere else
    for c in cl:
        for name, f in M[c].items():
            for n in ast.walk(f):
                if isinstance(n, ast.Attribute) and n.attr in ('cache_clear', 'cache_info', '__wrapped__', 'cache_parameters'):
                    need(name == 'clear_cache' and n.attr == 'cache_clear', f'{c}.{name} uses {n.attr}')
    # attribute analysis
    reads, writes = set(), set()
    per = {}
    for c in ('SgzLoader2d', 'SgzLoader3d'):
        allm = dict(base)
        allm.update(M[c])
        for name, _, _ in cached[c]:
            l, s, seen = closure_uses(allm, name)
            need('clear_cache' not in seen and 'load_compressed_volume' not in seen and '__init__' not in seen,
                 f'{c}.{name} calls {seen & {"clear_cache", "load_compressed_volume", "__init__"}}')
            need(not (seen - {name}) & {n for n, _, _ in cached[c]}, f'{c}.{name}: a cached method calls another cached method')
            need(not s, f'{c}.{name}: cached method (transitively) assigns self attributes {sorted(s)}')
            reads |= l
            per[name] = sorted(l)
    mutable = set()
    for c in cl:
        for name, f in M[c].items():
            if name == '__init__':
                continue
            _, s, _ = self_uses(f)
            mutable |= s
    init_stores = self_uses(base['__init__'])[1]
    need(reads <= init_stores, f'cached methods read attributes not assigned in SgzLoader.__init__: {sorted(reads - init_stores)}')
    for c in ('SgzLoader2d', 'SgzLoader3d'):
        need('__init__' not in M[c], f'{c} has its own __init__')
    return cached, clear, sorted(reads), sorted(mutable), per


# ---------------------------------------------------------------------------------------------- read.py
EXPECT_CHUNK_DEFAULT = ('if chunk_cache_size is None:\n    chunk_cache_size = get_chunk_cache_size(self.shape_pad[0] // self.blockshape[0], '
                        'self.shape_pad[1] // self.blockshape[1])')
EXPECT_MASK = ["if self.mask is None:\n    buffer = self.file.read_range(self.file, self.segy_traceheader_template[189], "
               "self.header_entry_length_bytes)\n    self.mask = np.frombuffer(buffer, dtype=np.int32) != 0\nelse:\n    pass"]
EXPECT_CLEAR_VH = ['self.variant_headers.clear()', 'self.include_padding = None']
EXPECT_RVH = [
    'if self.include_padding is None:\n    self.include_padding = include_padding',
    'if not self.structured:\n    assert self.include_padding == include_padding',
    'tracefild_list = self.segy_traceheader_template if tracefields is None else tracefields',
    'for k in tracefild_list:\n    if k not in self.variant_headers:\n        offset = self.segy_traceheader_template[k]\n'
    '        if isinstance(offset, FileOffset) and k not in self.variant_headers:\n'
    '            use_mask = self.is_3d and (not (self.structured or self.include_padding))\n'
    '            if use_mask:\n                self.get_unstructured_mask()\n'
    '            buffer = self.file.read_range(self.file, offset, self.header_entry_length_bytes)\n'
    '            values = np.frombuffer(buffer, dtype=np.int32)\n'
    '            self.variant_headers[k] = values[self.mask] if use_mask else values']
EXPECT_LOAD_VH = ['if not self.structured and self.include_padding not in (None, include_padding):\n    self.clear_variant_headers()',
                  'self.read_variant_headers(include_padding=include_padding, tracefields=tracefields)']
EXPECT_RANGE_FILE = ['file.seek(offset)', 'return check_range_length(file.read(length), offset, length)']
EXPECT_CHECK_LEN = ["if len(data) != length:\n    raise IOError(f'Short read: requested {length} bytes at offset {offset}, got {len(data)}')",
                    'return data']


def gen_reader(srcdir, loader_cached):
    tree = parse(srcdir, 'read')
    imps = [U(n) for n in tree.body if isinstance(n, (ast.Import, ast.ImportFrom))]
    need('from functools import lru_cache' in imps and sum('lru_cache' in i for i in imps) == 1, 'read.py: lru_cache import')
    cl = classes(tree)
    need(list(cl) == ['SgzReader'], f'read.py classes {list(cl)}')
    M = methods(cl['SgzReader'])
    for name, f in M.items():
        need(not f.decorator_list, f'SgzReader.{name} has a decorator')
    init = M['__init__']
    need(argnames(init, allow_defaults=True) == ['self', 'file', 'filetype_checking', 'preload', 'chunk_cache_size'],
         'SgzReader.__init__ signature')
    need([U(d) for d in init.args.defaults] == ['True', 'False', 'None'], 'SgzReader.__init__ defaults')
    # every use of lru_cache in read.py
    uses = [n for n in ast.walk(tree) if isinstance(n, ast.Name) and n.id == 'lru_cache']
    need(len(uses) == 1, f'read.py: {len(uses)} uses of lru_cache (expected the chunk cache only)')
    asg = None
    for i, s in enumerate(init.body):
        if any(n is uses[0] for n in ast.walk(s)):
            asg = (i, s)
    need(asg is not None, 'the chunk cache is not built at the top level of SgzReader.__init__')
    i, s = asg
    need(isinstance(s, ast.Assign) and len(s.targets) == 1 and U(s.targets[0]) == 'self._read_containing_chunk_cached',
         f'chunk cache assignment {U(s)}')
    v = s.value
    need(isinstance(v, ast.Call) and isinstance(v.func, ast.Call) and v.func.func is uses[0] and not v.func.args
         and len(v.func.keywords) == 1 and v.func.keywords[0].arg == 'maxsize' and len(v.args) == 1 and not v.keywords,
         f'chunk cache construction {U(v)}')
    size_expr = U(v.func.keywords[0].value)
    need(size_expr == 'chunk_cache_size', f'chunk cache size {size_expr}')
    w = v.args[0]
    need(isinstance(w, ast.Attribute) and isinstance(w.value, ast.Name) and w.value.id == 'self', f'cached callable {U(w)}')
    wrapped = w.attr
    need(wrapped in M, f'cached callable self.{wrapped} is not a method')
    need(U(init.body[i - 1]) == EXPECT_CHUNK_DEFAULT, f'default chunk cache size: {U(init.body[i - 1])}')
    # chunk_cache_size is not reassigned elsewhere in __init__
    nas = [n for n in ast.walk(init) if isinstance(n, ast.Name) and n.id == 'chunk_cache_size' and isinstance(n.ctx, ast.Store)]
    need(len(nas) == 1, 'chunk_cache_size assigned more than once')
    wparams = argnames(M[wrapped])
    need(wparams[0] == 'self', f'{wrapped} parameters')
    # call sites of the cached chunk function and of the raw one
    sites = []
    for name, f in M.items():
        for n in ast.walk(f):
            if isinstance(n, ast.Attribute) and n.attr == '_read_containing_chunk_cached' and isinstance(n.ctx, ast.Load):
                sites.append((name, n))
            if isinstance(n, ast.Attribute) and n.attr == wrapped and name != '__init__':
                raise Fail(f'SgzReader.{name} uses the uncached {wrapped} directly')
            if isinstance(n, ast.Attribute) and n.attr in ('cache_clear', 'cache_info', '__wrapped__'):
                raise Fail(f'SgzReader.{name} uses {n.attr}')
    need(len(sites) == 1 and sites[0][0] == 'get_trace', f'call sites of the chunk cache: {[a for a, _ in sites]}')
    call = [n for n in ast.walk(M['get_trace']) if isinstance(n, ast.Call) and n.func is sites[0][1]]
    need(len(call) == 1 and not call[0].keywords and len(call[0].args) == len(wparams) - 1, 'chunk cache call shape')
    call_args = [U(a) for a in call[0].args]
    # reader attributes mutated outside __init__ (in read.py and in every subclass of SgzReader in the package)
    mutable = set()
    for name, f in M.items():
        if name != '__init__':
            mutable |= self_uses(f)[1]
    sub_mut = {}
    for mod in ('accessors', 'segyio_emulator', 'conversion', 'cropping'):
        t2 = parse(srcdir, mod)
        for cname, c in classes(t2).items():
            for n in c.body:
                if isinstance(n, ast.FunctionDef) and n.name != '__init__':
                    s = self_uses(n)[1]
                    if s:
                        sub_mut.setdefault(cname, set()).update(s)
    cl_reads, cl_writes, seen = closure_uses(M, wrapped)
    need(not cl_writes, f'{wrapped} (transitively) assigns {sorted(cl_writes)}')
    loader_calls = sorted({n.func.attr for m in seen for n in ast.walk(M[m]) if isinstance(n, ast.Call)
                           and isinstance(n.func, ast.Attribute) and U(n.func.value) == 'self.loader'}
                          | {n.value.attr for m in seen for n in ast.walk(M[m]) if isinstance(n, ast.Assign)
                             and isinstance(n.value, ast.Attribute) and U(n.value.value) == 'self.loader'})
    # hand-modelled bodies (also pinned)
    need([U(x) for x in strip_doc(M['close'].body)] == ['self.loader.clear_cache()', 'self.close_sgz_file()'], 'SgzReader.close body')
    need([U(x) for x in strip_doc(M['close_sgz_file'].body)] == ['self.file.close()'], 'close_sgz_file body')
    need([U(x) for x in strip_doc(M['__exit__'].body)] == ['self.close()'], '__exit__ body')
    need([U(x) for x in strip_doc(M['get_unstructured_mask'].body)] == EXPECT_MASK, 'get_unstructured_mask body')
    need([U(x) for x in strip_doc(M['clear_variant_headers'].body)] == EXPECT_CLEAR_VH, 'clear_variant_headers body')
    need([U(x) for x in strip_doc(M['read_variant_headers'].body)] == EXPECT_RVH, 'read_variant_headers body')
    need(argnames(M['read_variant_headers'], allow_defaults=True) == ['self', 'include_padding', 'tracefields']
         and [U(d) for d in M['read_variant_headers'].args.defaults] == ['False', 'None'], 'read_variant_headers signature')
    # who loads the footer arrays, and how
    callers = {}
    for name, f in M.items():
        for n in ast.walk(f):
            if isinstance(n, ast.Call) and isinstance(n.func, ast.Attribute) and U(n.func.value) == 'self' \
                    and n.func.attr in ('read_variant_headers', '_load_variant_headers'):
                callers.setdefault(name, []).append(U(n))
    direct = {'get_tracefield_1d': ['self.read_variant_headers(include_padding=True, tracefields=[segyio.tracefield.TraceField(tracefield)])'],
              'gen_trace_header': ['self.read_variant_headers()']}
    patched = {'get_tracefield_1d': ['self._load_variant_headers(True, tracefields=[segyio.tracefield.TraceField(tracefield)])'],
               'gen_trace_header': ['self._load_variant_headers(False)'],
               '_load_variant_headers': ['self.read_variant_headers(include_padding=include_padding, tracefields=tracefields)']}
    if callers == direct and '_load_variant_headers' not in M:
        reload_on_switch = False
    elif callers == patched:
        f = M['_load_variant_headers']
        need(argnames(f, allow_defaults=True) == ['self', 'include_padding', 'tracefields'] and [U(d) for d in f.args.defaults] == ['None'],
             '_load_variant_headers signature')
        need([U(x) for x in strip_doc(f.body)] == EXPECT_LOAD_VH, '_load_variant_headers body')
        reload_on_switch = True
    else:
        raise Fail(f'callers of read_variant_headers inside SgzReader: {callers}')
    # results of the two header readers come from self.variant_headers right after the load
    need('return self.variant_headers[tracefield]' in [U(x) for x in strip_doc(M['get_tracefield_1d'].body)], 'get_tracefield_1d return')
    # users of mask / variant_headers / include_padding
    users = {a: sorted(name for name, f in M.items() if a in (self_uses(f)[0] | self_uses(f)[1])) for a in
             ('mask', 'variant_headers', 'include_padding')}
    return dict(wrapped=wrapped, wparams=wparams, call_args=call_args, mutable=sorted(mutable),
                sub_mut={k: sorted(v) for k, v in sorted(sub_mut.items())}, chunk_reads=sorted(cl_reads),
                chunk_reads_mutable=sorted(set(cl_reads) & (mutable | set().union(*sub_mut.values()) if sub_mut else mutable)),
                chunk_loader_calls=loader_calls, reload_on_switch=reload_on_switch, users=users, chunk_methods=sorted(seen))


def gen_utils(srcdir):
    tree = parse(srcdir, 'utils')
    fs = {n.name: n for n in tree.body if isinstance(n, ast.FunctionDef)}
    need('read_range_file' in fs and 'check_range_length' in fs, 'utils.read_range_file / check_range_length missing')
    need(argnames(fs['read_range_file']) == ['file', 'offset', 'length'], 'read_range_file signature')
    need([U(x) for x in strip_doc(fs['read_range_file'].body)] == EXPECT_RANGE_FILE, 'read_range_file is not seek; read')
    need([U(x) for x in strip_doc(fs['check_range_length'].body)] == EXPECT_CHECK_LEN, 'check_range_length body')


def gen_emulator(srcdir):
    tree = parse(srcdir, 'segyio_emulator')
    cl = classes(tree)
    need('SegyioEmulator' in cl and [U(b) for b in cl['SegyioEmulator'].bases] == ['SgzReader'], 'SegyioEmulator class')
    M = methods(cl['SegyioEmulator'])
    init = M['__init__']
    need(argnames(init, allow_defaults=True) == ['self', 'file', 'chunk_cache_size'], 'SegyioEmulator.__init__ signature')
    body = strip_doc(init.body)
    need(U(body[0]) == 'super(SegyioEmulator, self).__init__(file, chunk_cache_size=chunk_cache_size)', f'emulator super call {U(body[0])}')

    def accessor(s):
        """self.<attr> = <Class>(self.file).__enter__() -> (attr, Class)"""
        if isinstance(s, ast.Assign) and len(s.targets) == 1 and isinstance(s.value, ast.Call) \
                and isinstance(s.value.func, ast.Attribute) and s.value.func.attr == '__enter__' \
                and isinstance(s.value.func.value, ast.Call):
            c = s.value.func.value
            need(isinstance(c.func, ast.Name) and [U(a) for a in c.args] == ['self.file'] and not c.keywords, f'accessor construction {U(s)}')
            t = s.targets[0]
            need(isinstance(t, ast.Attribute) and U(t.value) == 'self', f'accessor target {U(t)}')
            return (t.attr, c.func.id)
        for n in ast.walk(s):
            if isinstance(n, ast.Call) and isinstance(n.func, ast.Name) and n.func.id.endswith('Accessor'):
                raise Fail(f'unrecognised accessor construction {U(s)}')
        return None
    always, only3d = [], []
    for s in body[1:]:
        if isinstance(s, ast.If):
            need(U(s.test) == 'self.is_3d', f'emulator condition {U(s.test)}')
            for t in s.body:
                a = accessor(t)
                if a:
                    only3d.append(a)
            for t in s.orelse:
                need(accessor(t) is None, 'accessor in the 2D branch')
        else:
            a = accessor(s)
            if a:
                always.append(a)
    ex = M['__exit__']
    exits = []
    for n in ast.walk(ex):
        if isinstance(n, ast.Call) and isinstance(n.func, ast.Attribute):
            exits.append(U(n.func))
    need(exits.count('self.close_sgz_file') == 1, f'emulator __exit__ calls {exits}')
    exits.remove('self.close_sgz_file')
    need(all(e.startswith('self.') and e.endswith('.__exit__') for e in exits)
         and sorted(e[5:-9] for e in exits) == sorted(a for a, _ in always + only3d), f'emulator __exit__ closes {exits}')
    # accessor constructors: only the handle goes to SgzReader.__init__
    t2 = parse(srcdir, 'accessors')
    c2 = classes(t2)
    for attr, cname in always + only3d:
        need(cname in c2, f'accessor class {cname} not in accessors.py')
        m2 = methods(c2[cname])
        need('__init__' in m2 and argnames(m2['__init__']) == ['self', 'file'], f'{cname}.__init__ signature')
        sup = [U(n) for n in ast.walk(m2['__init__']) if isinstance(n, ast.Call) and U(n.func).endswith('.__init__')]
        need(len(sup) == 1 and sup[0].endswith('.__init__(file)') and sup[0].startswith('super('), f'{cname}.__init__: {sup}')
    for cname, c in c2.items():
        for n in ast.walk(c):
            if isinstance(n, ast.Name) and n.id == 'lru_cache':
                raise Fail('lru_cache in accessors.py')
    return always, only3d


def scan_package(srcdir):
    """no cache machinery outside loader.py / read.py"""
    for fn in sorted(os.listdir(srcdir)):
        if not fn.endswith('.py') or fn in ('loader.py', 'read.py'):
            continue
        t = ast.parse(open(os.path.join(srcdir, fn)).read())
        for n in ast.walk(t):
            if isinstance(n, ast.Name) and n.id in ('lru_cache', 'cache', 'cached_property', 'functools'):
                raise Fail(f'{fn}: uses {n.id}')
            if isinstance(n, ast.Attribute) and n.attr in ('cache_clear', 'cache_info', '__wrapped__', '_read_containing_chunk_cached',
                                                           'compressed_volume', 'load_compressed_volume'):
                raise Fail(f'{fn}: uses .{n.attr}')
            if isinstance(n, (ast.Import, ast.ImportFrom)) and 'functools' in U(n):
                raise Fail(f'{fn}: {U(n)}')
            # <x>.loader.<attr> = ...
            if isinstance(n, ast.Attribute) and isinstance(n.ctx, ast.Store) and isinstance(n.value, ast.Attribute) and n.value.attr == 'loader':
                raise Fail(f'{fn}: assigns {U(n)}')
    t = parse(srcdir, 'read')
    for n in ast.walk(t):
        if isinstance(n, ast.Attribute) and isinstance(n.ctx, ast.Store) and isinstance(n.value, ast.Attribute) and n.value.attr == 'loader':
            raise Fail(f'read.py: assigns {U(n)}')
        if isinstance(n, ast.Attribute) and n.attr in ('compressed_volume', 'load_compressed_volume'):
            raise Fail(f'read.py: uses .{n.attr}')


def generate(srcdir):
    cached, clear, reads, lmut, per = gen_loader(srcdir)
    rd = gen_reader(srcdir, cached)
    gen_utils(srcdir)
    always, only3d = gen_emulator(srcdir)
    scan_package(srcdir)

    def table(rows):
        return '[' + ';\n   '.join(f'({coq_str(n)}, {ms}%nat, {coq_strs(ps)})' for n, ms, ps in rows) + ']'
    o = []
    o.append('(* GENERATED by tools/gen.py (plug-in tools/genx_caches.py) from seismic_zfp/loader.py, read.py, utils.py,\n'
             '   segyio_emulator.py, accessors.py -- DO NOT EDIT.  Regenerated on every check run. *)')
    o.append('From Coq Require Import List String Bool.\nImport ListNotations.\nLocal Open Scope string_scope.\n')
    o.append('(* methods decorated @lru_cache(maxsize=N): (name, N, parameters = the cache key, self first).  A cache made by a\n'
             '   decorator in the class body is ONE table per function, shared by every instance of the class. *)')
    o.append(f'Definition cached_methods_base : list (string * nat * list string) := {table(cached["SgzLoader"])}.')
    o.append(f'Definition cached_methods_2d : list (string * nat * list string) :=\n  {table(cached["SgzLoader2d"])}.')
    o.append(f'Definition cached_methods_3d : list (string * nat * list string) :=\n  {table(cached["SgzLoader3d"])}.')
    o.append('\n(* body of clear_cache (called by SgzReader.close): the methods whose cache_clear() is called, in order *)')
    o.append(f'Definition clear_cache_2d : list string := {coq_strs(clear["SgzLoader2d"])}.')
    o.append(f'Definition clear_cache_3d : list string := {coq_strs(clear["SgzLoader3d"])}.')
    o.append('\n(* attributes of the loader read (transitively) by the cached methods; those assigned outside __init__;\n'
             '   their intersection: the only mutable input of a cached function *)')
    o.append(f'Definition cached_reads : list string := {coq_strs(reads)}.')
    o.append(f'Definition loader_mutable : list string := {coq_strs(lmut)}.')
    o.append(f'Definition cached_reads_mutable : list string := {coq_strs(sorted(set(reads) & set(lmut)))}.')
    o.append('\n(* the per-reader chunk cache: lru_cache(maxsize=chunk_cache_size)(self.<method>): a cache per reader object, key =\n'
             '   the parameters after self; the single call site (in get_trace) and its arguments; reader attributes the chunk\n'
             '   function reads (transitively), reader attributes mutated outside __init__, their intersection *)')
    o.append(f'Definition chunk_cached_method : string := {coq_str(rd["wrapped"])}.')
    o.append(f'Definition chunk_key_params : list string := {coq_strs(rd["wparams"][1:])}.')
    o.append(f'Definition chunk_call_args : list string := {coq_strs(rd["call_args"])}.')
    o.append(f'Definition chunk_loader_calls : list string := {coq_strs(rd["chunk_loader_calls"])}.')
    o.append(f'Definition reader_mutable : list string := {coq_strs(rd["mutable"])}.')
    o.append(f'Definition chunk_reads_mutable : list string := {coq_strs(rd["chunk_reads_mutable"])}.')
    o.append('(* subclasses of SgzReader mutating attributes outside __init__: ' + repr(rd['sub_mut']).replace('*)', '* )') + ' *)')
    o.append('\n(* the three lazy reader caches and the methods that touch them *)')
    for a in ('mask', 'variant_headers', 'include_padding'):
        o.append(f'Definition users_{a} : list string := {coq_strs(rd["users"][a])}.')
    o.append('\n(* D18 repair: get_tracefield_1d / gen_trace_header load the footer arrays through _load_variant_headers, which\n'
             '   drops arrays held in the other padding mode (true), or call the sticky read_variant_headers directly (false) *)')
    o.append(f'Definition vh_reload_on_mode_switch : bool := {"true" if rd["reload_on_switch"] else "false"}.')
    o.append('\n(* seismic_zfp.open: accessor objects constructed on the emulator\'s own handle (attribute, class) *)')
    o.append(f'Definition emu_accessors_always : list (string * string) := [{"; ".join(f"({coq_str(a)}, {coq_str(c)})" for a, c in always)}].')
    o.append(f'Definition emu_accessors_3d : list (string * string) := [{"; ".join(f"({coq_str(a)}, {coq_str(c)})" for a, c in only3d)}].')
    o.append('\n(* checked statement by statement (generation fails otherwise): _get_compressed_bytes, load_compressed_volume,\n'
             '   read_range_file = seek; read; check_range_length, SgzReader.close = loader.clear_cache(); file.close(),\n'
             '   get_unstructured_mask, clear_variant_headers, read_variant_headers, accessor constructors *)')
    return {'Caches': '\n'.join(o) + '\n'}


if __name__ == '__main__':
    import sys
    print(generate(sys.argv[1] if len(sys.argv) > 1 else '/repo/seismic_zfp')['Caches'])
