#!/usr/bin/env python3
"""genx_window.py -- plug-in generator for property C11 (conversion with an inline/crossline window): emits
coq/Gen/Window.v.

Everything is read with Python `ast` from the CURRENT sources; the statement structure around each extracted expression
is checked and anything not recognised raises Fail (fail closed: Gen/Window.v is then removed and the proofs of C11 stop
building).  Extracted:

  conversion.SeismicFileConverter.__init__      w_window_accepted  (the condition under which the window is used: `is not
                                                None` tests or truthiness, whatever the code says), w_window_geom (the
                                                argument order of Geometry3d)
  conversion.SeismicFileConverter.detect_geometry  w_detect_2d, w_detect_geom (regular structured files)
  utils.Geometry3d.__init__                     w_geom_ilines / w_geom_xlines  (start, stop, step) of the two ranges
  conversion.SeismicFileConverter.get_blank_header_info   w_header_alloc (length of every header array), what each
                                                detection mode passes to HeaderwordInfo (w_mode_*)
  conversion_utils.make_header                  3D structured branch: n_il, n_xl, axis origins and increments (as
                                                subscripts of the axes that make_header_seismic_file passes: the
                                                SOURCE's), header-array byte length, trace-count field
  conversion_utils.seismic_file_producer        padded extents, number of plane sets, planes_to_read, when the reduced-I/O
                                                reader is used (incl. whether a failed self-test falls back), hash rows
  conversion_utils.io_thread_func               start_trace, the source line of every buffer row (both readers, populated
                                                and padding rows), the crossline slice, the header slice, t_xl / t_il /
                                                t_store, the two edge replications
  conversion_utils.MinimalInlineReader          seek offset, read length, number of headers of read_line

All emitted definitions are closed arithmetic over Z / bool (+ `pad` from Gen/Utils.v).
"""
import ast, os

OUTPUTS = ['Window']


class Fail(Exception):
    pass


def need(cond, msg):
    if not cond:
        raise Fail(msg)


def U(node):
    return ast.unparse(node)


def strip_doc(body):
    return [s for s in body if not (isinstance(s, ast.Expr) and isinstance(s.value, ast.Constant)
                                    and isinstance(s.value.value, str))]


def find_func(tree, qual):
    body, node = tree.body, None
    for p in qual.split('.'):
        node = next((n for n in body if isinstance(n, (ast.FunctionDef, ast.ClassDef)) and n.name == p), None)
        need(node is not None, f'{qual} not found')
        body = node.body
    return node


def zlit(k):
    return f'({k})' if k < 0 else str(k)


# ------------------------------------------------------------------------------------------ expression translator
def E(node, env):
    """integer expression -> Gallina term of type Z.  env: unparsed python text -> Coq term; a value that is a
    1-tuple ('fn', name) makes `text[expr]` the application (name expr)."""
    k = U(node)
    if k in env and isinstance(env[k], str):
        return env[k]
    if isinstance(node, ast.Constant):
        need(isinstance(node.value, int) and not isinstance(node.value, bool), f'constant {node.value!r}')
        return zlit(node.value)
    if isinstance(node, ast.UnaryOp) and isinstance(node.op, ast.USub):
        return f'(- {E(node.operand, env)})'
    if isinstance(node, ast.BinOp):
        op = {ast.Add: '+', ast.Sub: '-', ast.Mult: '*', ast.FloorDiv: '/', ast.Mod: 'mod'}.get(type(node.op))
        need(op is not None, f'operator {type(node.op).__name__} in {k}')
        return f'({E(node.left, env)} {op} {E(node.right, env)})'
    if isinstance(node, ast.Subscript):
        base = U(node.value)
        if base in env and isinstance(env[base], tuple) and env[base][0] == 'fn':
            need(not isinstance(node.slice, (ast.Slice, ast.Tuple)), f'slice of {base} in {k}')
            return f'({env[base][1]} {E(node.slice, env)})'
        raise Fail(f'subscript {k}')
    if isinstance(node, ast.Call):
        f = U(node.func)
        need(not node.keywords, f'keywords in call {k}')
        if f == 'pad' and len(node.args) == 2:
            return f'(pad {E(node.args[0], env)} {E(node.args[1], env)})'
        if f == 'int' and len(node.args) == 1:
            return E(node.args[0], env)
        raise Fail(f'call {k}')
    if isinstance(node, ast.IfExp):
        return f'(if {B(node.test, env)} then {E(node.body, env)} else {E(node.orelse, env)})'
    raise Fail(f'expression {k} ({type(node).__name__})')


def B(node, env):
    k = U(node)
    benv = env.get('#bool', {})
    if k in benv:
        return benv[k]
    if isinstance(node, ast.Constant) and isinstance(node.value, bool):
        return 'true' if node.value else 'false'
    if isinstance(node, ast.BoolOp):
        op = '&&' if isinstance(node.op, ast.And) else '||'
        return '(' + f' {op} '.join(B(v, env) for v in node.values) + ')'
    if isinstance(node, ast.UnaryOp) and isinstance(node.op, ast.Not):
        return f'(negb {B(node.operand, env)})'
    if isinstance(node, ast.Compare):
        parts, left = [], node.left
        for op, right in zip(node.ops, node.comparators):
            if isinstance(left, ast.Tuple) or isinstance(right, ast.Tuple) or U(left) in env.get('#tuple', {}) \
                    or U(right) in env.get('#tuple', {}):
                need(isinstance(op, ast.Eq), f'tuple comparison {k}')
                lt = env.get('#tuple', {}).get(U(left)) or [E(e, env) for e in left.elts]
                rt = env.get('#tuple', {}).get(U(right)) or [E(e, env) for e in right.elts]
                need(len(lt) == len(rt), f'tuple lengths in {k}')
                parts.append('(' + ' && '.join(f'({a} =? {b})' for a, b in zip(lt, rt)) + ')')
            else:
                o = {ast.Lt: '<?', ast.LtE: '<=?', ast.Gt: '>?', ast.GtE: '>=?', ast.Eq: '=?'}.get(type(op))
                if o is not None:
                    parts.append(f'({E(left, env)} {o} {E(right, env)})')
                elif isinstance(op, ast.NotEq):
                    parts.append(f'(negb ({E(left, env)} =? {E(right, env)}))')
                else:
                    raise Fail(f'comparison {k}')
            left = right
        return parts[0] if len(parts) == 1 else '(' + ' && '.join(parts) + ')'
    raise Fail(f'boolean expression {k} ({type(node).__name__})')


# ------------------------------------------------------------------------------------------ conversion.py
WIN = ['min_il', 'max_il', 'min_xl', 'max_xl']


def acceptance(test):
    """the window-acceptance condition as a term over four `option Z`"""
    def atom(n):
        # `x is not None`  or a bare name (truthiness)
        if isinstance(n, ast.Name) and n.id in WIN:
            return n.id, f'(w_truthy {n.id})'
        if isinstance(n, ast.Compare) and len(n.ops) == 1 and isinstance(n.ops[0], ast.IsNot) \
                and isinstance(n.left, ast.Name) and n.left.id in WIN \
                and isinstance(n.comparators[0], ast.Constant) and n.comparators[0].value is None:
            return n.left.id, f'(w_some {n.left.id})'
        raise Fail('window acceptance atom ' + U(n))
    names, terms = [], []
    if isinstance(test, ast.Call) and U(test.func) == 'all' and len(test.args) == 1 and not test.keywords:
        a = test.args[0]
        if isinstance(a, (ast.List, ast.Tuple)):
            for e in a.elts:
                nm, t = atom(e)
                names.append(nm); terms.append(t)
        elif isinstance(a, (ast.GeneratorExp, ast.ListComp)):
            need(len(a.generators) == 1 and not a.generators[0].ifs and isinstance(a.generators[0].target, ast.Name)
                 and isinstance(a.generators[0].iter, (ast.List, ast.Tuple)), 'window acceptance comprehension ' + U(test))
            var = a.generators[0].target.id
            for e in a.generators[0].iter.elts:
                need(isinstance(e, ast.Name) and e.id in WIN, 'window acceptance iterates over ' + U(e))
                if isinstance(a.elt, ast.Name) and a.elt.id == var:
                    t = f'(w_truthy {e.id})'
                elif isinstance(a.elt, ast.Compare) and len(a.elt.ops) == 1 and isinstance(a.elt.ops[0], ast.IsNot) \
                        and U(a.elt.left) == var and isinstance(a.elt.comparators[0], ast.Constant) \
                        and a.elt.comparators[0].value is None:
                    t = f'(w_some {e.id})'
                else:
                    raise Fail('window acceptance element ' + U(a.elt))
                names.append(e.id); terms.append(t)
        else:
            raise Fail('window acceptance argument ' + U(a))
    elif isinstance(test, ast.BoolOp) and isinstance(test.op, ast.And):
        for e in test.values:
            nm, t = atom(e)
            names.append(nm); terms.append(t)
    else:
        raise Fail('window acceptance condition ' + U(test))
    need(sorted(names) == sorted(WIN), 'window acceptance does not test each bound exactly once: ' + U(test))
    return '(' + ' && '.join(terms) + ')'


def geometry3d_args(call, env, what):
    need(isinstance(call, ast.Call) and U(call.func) == 'Geometry3d' and len(call.args) == 4 and not call.keywords,
         f'{what}: not Geometry3d(a, b, c, d): ' + U(call))
    return '(' + ', '.join(E(a, env) for a in call.args) + ')'


def gen_conversion(tree, out):
    init = find_func(tree, 'SeismicFileConverter.__init__')
    need([a.arg for a in init.args.args] == ['self', 'in_filename'] + WIN, 'SeismicFileConverter.__init__ parameters changed')
    need([U(d) for d in init.args.defaults] == ['None'] * 4, 'window bounds no longer default to None')
    body = strip_doc(init.body)
    idx = [k for k, s in enumerate(body) if isinstance(s, ast.If) and any('Geometry3d' in U(x) for x in s.body)]
    need(len(idx) == 1, '__init__: expected exactly one `if ...: self.geom = Geometry3d(...)`')
    k = idx[0]
    s = body[k]
    need(U(body[k - 1]) == 'self.geom = None', '__init__: statement before the window test: ' + U(body[k - 1]))
    need(len(s.body) == 1 and not s.orelse and isinstance(s.body[0], ast.Assign) and U(s.body[0].targets[0]) == 'self.geom',
         '__init__: body of the window test')
    out.append('(* conversion.SeismicFileConverter.__init__:  ' + U(s.test).replace('*)', '* )') + ' *)')
    out.append(f'Definition w_window_accepted (min_il max_il min_xl max_xl : option Z) : bool := {acceptance(s.test)}.')
    env = {n: n for n in WIN}
    out.append(f'Definition w_window_geom (min_il max_il min_xl max_xl : Z) : Z * Z * Z * Z := '
               f'{geometry3d_args(s.body[0].value, env, "__init__")}.')
    nxt = body[k + 1]
    need(isinstance(nxt, ast.If) and U(nxt.test) == 'self.geom is None' and 'self.detect_geometry(seismic)' in U(nxt)
         and not nxt.orelse, '__init__: geometry detection no longer runs exactly when no window was accepted')
    need(U(body[k + 2]) == 'self.is_2d = isinstance(self.geom, Geometry2d)', '__init__: is_2d: ' + U(body[k + 2]))

    det = find_func(tree, 'SeismicFileConverter.detect_geometry')
    b = strip_doc(det.body)
    need(len(b) == 1 and isinstance(b[0], ast.If) and U(b[0].test) == 'seismic.unstructured', 'detect_geometry: outer test')
    reg = b[0].orelse
    need(len(reg) == 1 and isinstance(reg[0], ast.If), 'detect_geometry: structured branch')
    env = {'len(seismic.ilines)': 'src_nil', 'len(seismic.xlines)': 'src_nxl',
           '#bool': {'seismic.ilines is not None': 'true', 'seismic.xlines is not None': 'true'}}
    tests, node = [], reg[0]
    while True:
        need(len(node.body) == 1 and isinstance(node.body[0], ast.Assign) and U(node.body[0].targets[0]) == 'self.geom'
             and U(node.body[0].value.func) == 'Geometry2d', 'detect_geometry: 2D branch: ' + U(node.body[0]))
        tests.append(B(node.test, env))
        if len(node.orelse) == 1 and isinstance(node.orelse[0], ast.If):
            node = node.orelse[0]
        else:
            break
    last = node.orelse
    need(len(last) == 1 and isinstance(last[0], ast.Assign) and U(last[0].targets[0]) == 'self.geom', 'detect_geometry: 3D branch')
    out.append('(* conversion.SeismicFileConverter.detect_geometry, structured files *)')
    out.append(f'Definition w_detect_2d (src_nil src_nxl : Z) : bool := ({" || ".join(tests)}).')
    out.append(f'Definition w_detect_geom (src_nil src_nxl : Z) : Z * Z * Z * Z := {geometry3d_args(last[0].value, env, "detect_geometry")}.')

    hi = find_func(tree, 'SeismicFileConverter.get_blank_header_info')
    b = strip_doc(hi.body)
    need(U(b[0]) == 'first_il_header_val = seismic.header[0][segyio.tracefield.TraceField.INLINE_3D]',
         'get_blank_header_info: first statement: ' + U(b[0]))
    env = {'seismic.tracecount': 'tracecount', 'first_il_header_val': 'first_il',
           'len(self.geom.ilines)': 'gni', 'len(self.geom.xlines)': 'gnx',
           '#bool': {'seismic.structured': 'structured', 'self.is_2d': 'is_2d'}}
    term, k = None, 1
    while k < len(b) and not (isinstance(b[k], ast.If) and U(b[k].test).startswith('header_detection')):
        s = b[k]
        if isinstance(s, ast.Assign) and U(s.targets[0]) == 'n_traces':
            term = E(s.value, env)
        elif isinstance(s, ast.If) and not s.orelse and len(s.body) == 1 and isinstance(s.body[0], ast.Assign) \
                and U(s.body[0].targets[0]) == 'n_traces' and term is not None:
            term = f'(if {B(s.test, env)} then {E(s.body[0].value, env)} else {term})'
        else:
            raise Fail('get_blank_header_info: unexpected statement ' + U(s))
        env['n_traces'] = term
        k += 1
    need(term is not None and k < len(b), 'get_blank_header_info: n_traces not assigned')
    out.append('(* conversion.SeismicFileConverter.get_blank_header_info: the length of every header array *)')
    out.append(f'Definition w_header_alloc (structured is_2d : bool) (tracecount first_il gni gnx : Z) : Z := {term}.')
    # the detection modes
    modes, node = {}, b[k]
    while isinstance(node, ast.If):
        t = node.test
        if len(node.body) == 3 and isinstance(node.body[0], ast.Assign) and U(node.body[0].targets[0]) == 'header_info' \
                and isinstance(node.body[1], ast.If) and U(node.body[1].test) == 'seismic.filetype == Filetype.ZGY' and not node.body[1].orelse \
                and U(node.body[2]) == 'return header_info':
            # D54 repair: the object is built, a ZGY-ONLY statement crops its generated arrays to the window (Props/C05a.v,
            # genx_routes), and the same object is returned: for a SEG-Y source this is `return HeaderwordInfo(...)`
            call = node.body[0].value
        else:
            need(len(node.body) == 1 and isinstance(node.body[0], ast.Return), 'get_blank_header_info: mode branch does not return a HeaderwordInfo')
            call = node.body[0].value
        need(isinstance(call, ast.Call) and U(call.func) == 'HeaderwordInfo', 'get_blank_header_info: mode branch does not return a HeaderwordInfo')
        kw = {x.arg: U(x.value) for x in call.keywords}
        need(kw.get('n_traces') == 'n_traces' and not call.args, 'get_blank_header_info: n_traces not passed on')
        if 'seismicfile' in kw:
            need(kw['seismicfile'] == 'seismic', 'heuristic mode source'); kind = 'WFromCorners'
        elif kw.get('variant_header_list') == 'segyio.TraceField.enums()[0:89]':
            kind = 'WAllFields'
        elif kw.get('variant_header_list') == '[]':
            kind = 'WNoFields'
        else:
            raise Fail('get_blank_header_info: unknown HeaderwordInfo arguments ' + repr(kw))
        if isinstance(t, ast.Compare) and isinstance(t.ops[0], ast.Eq):
            names = [t.comparators[0].value]
        elif isinstance(t, ast.Compare) and isinstance(t.ops[0], ast.In):
            names = [e.value for e in t.comparators[0].elts]
        else:
            raise Fail('get_blank_header_info: mode test ' + U(t))
        for nm in names:
            modes[nm] = kind
        node = node.orelse[0] if len(node.orelse) == 1 else None
    need(set(modes) == {'heuristic', 'thorough', 'exhaustive', 'strip'}, 'detection modes changed: ' + repr(sorted(modes)))
    out.append('Inductive w_field_source := WFromCorners | WAllFields | WNoFields.')
    for nm in ('heuristic', 'thorough', 'exhaustive', 'strip'):
        out.append(f'Definition w_mode_{nm} : w_field_source := {modes[nm]}.')
    run = find_func(tree, 'SeismicFileConverter.run')
    txt = [U(s) for s in ast.walk(run) if isinstance(s, ast.stmt)]
    need("store_headers = not header_detection == 'strip'" in txt, 'run: store_headers is no longer `not (header_detection == "strip")`')
    need('header_info = self.get_blank_header_info(seismic, header_detection)' in txt, 'run: header_info')
    wh = find_func(tree, 'SeismicFileConverter.write_headers')
    need("if header_detection == 'thorough':" in U(wh) and
         'if np.all(header_info.headers_dict[hw] == header_info.headers_dict[hw][0]):' in U(wh) and
         'header_info.update_table(hw, (header_info.headers_dict[hw][0], 0))' in U(wh) and
         'del header_info.headers_dict[hw]' in U(wh), 'write_headers: the thorough-mode pruning changed')


# ------------------------------------------------------------------------------------------ utils.py
def gen_utils(tree, out):
    init = find_func(tree, 'Geometry3d.__init__')
    need([a.arg for a in init.args.args] == ['self'] + WIN + ['il_step', 'xl_step'], 'Geometry3d.__init__ parameters changed')
    d = [U(x) for x in init.args.defaults]
    need(len(d) == 2, 'Geometry3d.__init__ defaults changed')
    env = {n: n for n in WIN}
    env['il_step'], env['xl_step'] = E(init.args.defaults[0], {}), E(init.args.defaults[1], {})
    b = strip_doc(init.body)
    need(len(b) == 2, 'Geometry3d.__init__ body changed')
    out.append('(* utils.Geometry3d.__init__ with the default steps (both call sites pass four arguments): (start, stop, step) *)')
    for s, nm in zip(b, ('ilines', 'xlines')):
        need(isinstance(s, ast.Assign) and U(s.targets[0]) == f'self.{nm}' and isinstance(s.value, ast.Call)
             and U(s.value.func) == 'range' and len(s.value.args) == 3, f'Geometry3d.{nm} is not range(a, b, c)')
        out.append(f'Definition w_geom_{nm} (min_il max_il min_xl max_xl : Z) : Z * Z * Z := '
                   f'({", ".join(E(a, env) for a in s.value.args)}).')


# ------------------------------------------------------------------------------------------ conversion_utils.py
IOP = '(gi0 gx0 gxl gni gnx sN bs0 p ptr i : Z)'
IOENV = {'geom.ilines[0]': 'gi0', 'geom.xlines[0]': 'gx0', 'geom.xlines[-1]': 'gxl', 'len(geom.ilines)': 'gni',
         'len(geom.xlines)': 'gnx', 'len(seismicfile.xlines)': 'sN', 'blockshape[0]': 'bs0', 'plane_set_id': 'p',
         'planes_to_read': 'ptr', 'i': 'i', 'trace_length': 'ns'}
BUF_ROW = 'seismic_buffer[i, 0:len(geom.xlines), 0:trace_length]'


def is_min_test(t):
    return U(t) == 'minimal_il_reader is not None'


def read_line_arg(call):
    need(isinstance(call, ast.Call) and U(call.func) == 'minimal_il_reader.read_line' and len(call.args) == 1 and not call.keywords,
         'io_thread_func: not minimal_il_reader.read_line(k): ' + U(call))
    return call.args[0]


def gen_io(tree, out):
    f = find_func(tree, 'io_thread_func')
    need([a.arg for a in f.args.args] == ['blockshape', 'store_headers', 'headers_dict', 'geom', 'plane_set_id', 'planes_to_read',
                                          'seismic_buffer', 'seismicfile', 'minimal_il_reader', 'trace_length'],
         'io_thread_func parameters changed')
    b = strip_doc(f.body)
    need(len(b) == 1 and isinstance(b[0], ast.For) and U(b[0].target) == 'i' and U(b[0].iter) == 'range(blockshape[0])',
         'io_thread_func: outer loop is not `for i in range(blockshape[0])`')
    L = b[0].body
    need(len(L) == 5, f'io_thread_func: loop body has {len(L)} statements, expected 5')
    need(U(L[0]) == 'headers = []', 'io_thread_func: ' + U(L[0]))
    need(isinstance(L[1], ast.Assign) and U(L[1].targets[0]) == 'start_trace', 'io_thread_func: start_trace')
    env = dict(IOENV)
    out.append('(* conversion_utils.io_thread_func; gi0 = geom.ilines[0], gx0 = geom.xlines[0], gxl = geom.xlines[-1], gni / gnx = their lengths,')
    out.append('   sN = len(seismicfile.xlines), p = plane_set_id, ptr = planes_to_read, i = buffer row *)')
    out.append(f'Definition w_start_trace {IOP} : Z := {E(L[1].value, env)}.')
    top = L[2]
    need(isinstance(top, ast.If) and U(top.test) == 'i < planes_to_read', 'io_thread_func: populated-row test: ' + U(top.test))
    # ---- populated rows
    pb = top.body
    need(len(pb) == 2 and isinstance(pb[0], ast.If) and is_min_test(pb[0].test), 'io_thread_func: populated branch structure')
    mn = pb[0].body
    need(len(mn) == 1 and isinstance(mn[0], ast.Assign) and isinstance(mn[0].targets[0], ast.Tuple)
         and [U(e) for e in mn[0].targets[0].elts] == ['headers', BUF_ROW], 'io_thread_func: reduced-I/O read target')
    out.append(f'Definition w_min_line {IOP} : Z := {E(read_line_arg(mn[0].value), env)}.')
    sg = pb[0].orelse
    need(len(sg) == 2 and isinstance(sg[0], ast.Assign) and U(sg[0].targets[0]) == BUF_ROW, 'io_thread_func: segyio read target')
    v = sg[0].value
    need(isinstance(v, ast.Subscript) and isinstance(v.slice, ast.Tuple) and len(v.slice.elts) == 2
         and isinstance(v.slice.elts[0], ast.Slice) and v.slice.elts[0].step is None and U(v.slice.elts[1]) == ':'
         and isinstance(v.value, ast.Call) and U(v.value.func) == 'np.asarray' and len(v.value.args) == 1,
         'io_thread_func: segyio read is not np.asarray(line)[lo:hi, :]')
    line = v.value.args[0]
    need(isinstance(line, ast.Subscript) and U(line.value) == 'seismicfile.iline' and isinstance(line.slice, ast.Subscript)
         and U(line.slice.value) == 'seismicfile.ilines', 'io_thread_func: line is not seismicfile.iline[seismicfile.ilines[k]]')
    out.append(f'Definition w_seg_line {IOP} : Z := {E(line.slice.slice, env)}.')
    out.append(f'Definition w_seg_xl_lo {IOP} : Z := {E(v.slice.elts[0].lower, env)}.')
    out.append(f'Definition w_seg_xl_hi {IOP} : Z := {E(v.slice.elts[0].upper, env)}.')
    hs = sg[1]
    need(isinstance(hs, ast.If) and U(hs.test) == 'store_headers' and len(hs.body) == 1 and not hs.orelse
         and isinstance(hs.body[0], ast.Assign) and U(hs.body[0].targets[0]) == 'headers', 'io_thread_func: header slice statement')
    hv = hs.body[0].value
    need(isinstance(hv, ast.Subscript) and U(hv.value) == 'seismicfile.header' and isinstance(hv.slice, ast.Slice) and hv.slice.step is None,
         'io_thread_func: headers is not seismicfile.header[a:b]')
    env2 = dict(env, start_trace='st')
    out.append(f'Definition w_hdr_lo {IOP} (st : Z) : Z := {E(hv.slice.lower, env2)}.')
    out.append(f'Definition w_hdr_hi {IOP} (st : Z) : Z := {E(hv.slice.upper, env2)}.')
    st = pb[1]
    need(isinstance(st, ast.If) and U(st.test) == 'store_headers' and not st.orelse and len(st.body) == 1
         and isinstance(st.body[0], ast.For) and U(st.body[0].target) == '(t, header)'
         and U(st.body[0].iter) == 'enumerate(headers, start_trace)', 'io_thread_func: header loop')
    hb = st.body[0].body
    need(len(hb) == 3 and isinstance(hb[0], ast.Assign) and U(hb[0].targets[0]) == '(t_xl, t_il)' and isinstance(hb[0].value, ast.Tuple),
         'io_thread_func: t_xl, t_il assignment')
    env3 = dict(env, t='t')
    out.append(f'Definition w_t_xl {IOP} (t : Z) : Z := {E(hb[0].value.elts[0], env3)}.')
    out.append(f'Definition w_t_il {IOP} (t : Z) : Z := {E(hb[0].value.elts[1], env3)}.')
    need(isinstance(hb[1], ast.Assign) and U(hb[1].targets[0]) == 't_store', 'io_thread_func: t_store')
    env4 = dict(env, t_xl='t_xl', t_il='t_il')
    out.append(f'Definition w_t_store {IOP} (t_xl t_il : Z) : Z := {E(hb[1].value, env4)}.')
    need(U(hb[2]) == 'for tracefield, array in headers_dict.items():\n    array[t_store] = header[tracefield]',
         'io_thread_func: header store loop: ' + U(hb[2]))
    # ---- padding rows
    ob = top.orelse
    need(len(ob) == 1 and isinstance(ob[0], ast.If) and is_min_test(ob[0].test), 'io_thread_func: padding branch structure')
    mn = ob[0].body
    need(len(mn) == 1 and isinstance(mn[0], ast.Assign) and isinstance(mn[0].targets[0], ast.Tuple)
         and [U(e) for e in mn[0].targets[0].elts] == ['_', BUF_ROW], 'io_thread_func: reduced-I/O padding target')
    out.append(f'Definition w_pad_min_line {IOP} : Z := {E(read_line_arg(mn[0].value), env)}.')
    sg = ob[0].orelse
    need(len(sg) == 4, 'io_thread_func: segyio padding branch')
    need(isinstance(sg[0], ast.Assign) and U(sg[0].targets[0]) == 'last_populated_inline_number', 'io_thread_func: last_populated_inline_number')
    out.append(f'Definition w_pad_seg_line {IOP} : Z := {E(sg[0].value, env)}.')
    need(U(sg[1]) == 'last_populated_inline = seismicfile.iline[seismicfile.ilines[last_populated_inline_number]]', 'io_thread_func: ' + U(sg[1]))
    need(isinstance(sg[2], ast.Assign) and U(sg[2].targets[0]) == 'il_shape' and isinstance(sg[2].value, ast.Tuple)
         and len(sg[2].value.elts) == 2 and U(sg[2].value.elts[1]) == 'slice(None)'
         and isinstance(sg[2].value.elts[0], ast.Call) and U(sg[2].value.elts[0].func) == 'slice' and len(sg[2].value.elts[0].args) == 2,
         'io_thread_func: il_shape')
    out.append(f'Definition w_pad_xl_lo {IOP} : Z := {E(sg[2].value.elts[0].args[0], env)}.')
    out.append(f'Definition w_pad_xl_hi {IOP} : Z := {E(sg[2].value.elts[0].args[1], env)}.')
    need(U(sg[3]) == BUF_ROW + ' = np.asarray(last_populated_inline)[il_shape]', 'io_thread_func: ' + U(sg[3]))
    # ---- edge replication
    s = L[3]
    need(isinstance(s, ast.Assign) and isinstance(s.targets[0], ast.Subscript) and U(s.targets[0].value) == 'seismic_buffer'
         and isinstance(s.value, ast.Subscript) and U(s.value.value) == 'seismic_buffer', 'io_thread_func: crossline replication')
    te, ve = s.targets[0].slice.elts, s.value.slice.elts
    need(U(te[0]) == 'i' and isinstance(te[1], ast.Slice) and te[1].upper is None and U(te[2]) == '0:trace_length'
         and U(ve[0]) == 'i' and U(ve[2]) == '0:trace_length', 'io_thread_func: crossline replication subscripts')
    out.append(f'Definition w_xpad_from {IOP} : Z := {E(te[1].lower, env)}.')
    out.append(f'Definition w_xpad_src {IOP} : Z := {E(ve[1], env)}.')
    need(U(L[4]) == 'seismic_buffer[i, :, trace_length:] = np.expand_dims(seismic_buffer[i, :, trace_length - 1], 1)',
         'io_thread_func: sample replication: ' + U(L[4]))


def gen_producer(tree, out):
    f = find_func(tree, 'seismic_file_producer')
    b = strip_doc(f.body)
    need(U(b[0]) == 'n_ilines, n_xlines, trace_length = (len(geom.ilines), len(geom.xlines), len(seismicfile.samples))',
         'seismic_file_producer: first statement: ' + U(b[0]))
    env = {'n_ilines': 'gni', 'n_xlines': 'gnx', 'trace_length': 'ns', 'blockshape[0]': 'bs0', 'blockshape[1]': 'bs1',
           'blockshape[2]': 'bs2', 'plane_set_id': 'p', 'planes_to_read': 'ptr'}
    need(isinstance(b[1], ast.Assign) and U(b[1].targets[0]) == 'padded_shape' and isinstance(b[1].value, ast.Tuple) and len(b[1].value.elts) == 3,
         'seismic_file_producer: padded_shape')
    pads = [E(e, env) for e in b[1].value.elts]
    for k in range(3):
        env[f'padded_shape[{k}]'] = pads[k]
    out.append('(* conversion_utils.seismic_file_producer *)')
    out.append(f'Definition w_padded0 (gni bs0 : Z) : Z := {pads[0]}.')
    out.append(f'Definition w_padded1 (gnx bs1 : Z) : Z := {pads[1]}.')
    need(U(b[2]) == 'minimal_il_reader = None', 'seismic_file_producer: ' + U(b[2]))
    r = b[3]
    need(isinstance(r, ast.If) and U(r.test) == 'reduce_iops' and not r.orelse and len(r.body) == 1 and isinstance(r.body[0], ast.If)
         and U(r.body[0].test) == 'isinstance(geom, InferredGeometry3d)', 'seismic_file_producer: reduce_iops block')
    need(not any('minimal_il_reader' in U(s) for s in r.body[0].body), 'seismic_file_producer: unstructured branch touches the reader')
    eb = r.body[0].orelse
    need(len(eb) == 3 and U(eb[0]) == 'minimal_il_reader = MinimalInlineReader(seismicfile)'
         and U(eb[1]) == 'seismicfile_shape = (len(seismicfile.ilines), len(seismicfile.xlines))' and isinstance(eb[2], ast.If),
         'seismic_file_producer: reader set-up')
    t = eb[2]
    need(len(t.body) == 1 and isinstance(t.body[0], ast.Pass), 'seismic_file_producer: self-test success branch is not `pass`')
    e2 = dict(env)
    e2['#bool'] = {'minimal_il_reader.self_test()': 'selftest'}
    e2['#tuple'] = {'seismicfile_shape': ['sI', 'sN']}
    cond = B(t.test, e2)
    fb = [U(s) for s in t.orelse]
    need(all(s.startswith('warnings.warn(') or s == 'minimal_il_reader = None' for s in fb), 'seismic_file_producer: failure branch: ' + repr(fb))
    falls_back = 'minimal_il_reader = None' in fb
    out.append('(* is the reduced-I/O reader used?  ' + ('a failed self-test falls back to segyio' if falls_back
               else 'NO FALLBACK: a failed self-test only warns') + ' *)')
    out.append(f'Definition w_use_minimal (reduce_iops selftest : bool) (sI sN gni gnx : Z) : bool := '
               + (f'(reduce_iops && {cond}).' if falls_back else 'reduce_iops.'))
    rest = b[4:]
    k = next((j for j, s in enumerate(rest) if isinstance(s, ast.Assign) and U(s.targets[0]) == 'n_plane_sets'), None)
    need(k is not None, 'seismic_file_producer: n_plane_sets')
    out.append(f'Definition w_n_plane_sets (gni bs0 : Z) : Z := {E(rest[k].value, env)}.')
    loop = next((s for s in rest if isinstance(s, ast.For) and U(s.target) == 'plane_set_id'), None)
    need(loop is not None and U(loop.iter) == 'range(n_plane_sets)', 'seismic_file_producer: plane-set loop')
    lb = [s for s in loop.body if not (isinstance(s, ast.If) and U(s.test) == 'verbose')]
    need(isinstance(lb[0], ast.If) and len(lb[0].body) == 1 and len(lb[0].orelse) == 1
         and U(lb[0].body[0].targets[0]) == 'planes_to_read' and U(lb[0].orelse[0].targets[0]) == 'planes_to_read',
         'seismic_file_producer: planes_to_read')
    out.append(f'Definition w_planes_to_read (gni bs0 p : Z) : Z := if {B(lb[0].test, env)} then {E(lb[0].body[0].value, env)} '
               f'else {E(lb[0].orelse[0].value, env)}.')
    need(U(lb[1]) == 'seismic_buffer = np.zeros((blockshape[0], padded_shape[1], padded_shape[2]), dtype=np.float32)',
         'seismic_file_producer: buffer allocation: ' + U(lb[1]))
    need(isinstance(lb[2], ast.If) and U(lb[2].test) == 'isinstance(geom, InferredGeometry3d)' and len(lb[2].orelse) == 1
         and U(lb[2].orelse[0]) == 'io_thread_func(blockshape, store_headers, headers_dict, geom, plane_set_id, planes_to_read, '
                                   'seismic_buffer, seismicfile, minimal_il_reader, trace_length)',
         'seismic_file_producer: call of io_thread_func: ' + U(lb[2].orelse[0] if lb[2].orelse else lb[2]))
    h = lb[3]
    need(isinstance(h, ast.For) and U(h.target) == 'i' and isinstance(h.iter, ast.Call) and U(h.iter.func) == 'range' and len(h.iter.args) == 1
         and len(h.body) == 1, 'seismic_file_producer: hash loop')
    hu = h.body[0]
    need(isinstance(hu, ast.Expr) and isinstance(hu.value, ast.Call) and U(hu.value.func) == 'hash_object.update', 'seismic_file_producer: hash update')
    sub = hu.value.args[0]
    need(isinstance(sub, ast.Call) and U(sub.func).endswith('.copy') and isinstance(sub.func.value, ast.Subscript)
         and U(sub.func.value.value) == 'seismic_buffer', 'seismic_file_producer: hashed slice')
    el = sub.func.value.slice.elts
    need(U(el[0]) == 'i' and isinstance(el[1], ast.Slice) and U(el[1].lower) == '0' and U(el[2]) == '0:trace_length', 'seismic_file_producer: hashed subscripts')
    out.append(f'Definition w_hash_rows (gni bs0 p ptr : Z) : Z := {E(h.iter.args[0], env)}.')
    out.append(f'Definition w_hash_x_hi (gni gnx : Z) : Z := {E(el[1].upper, env)}.')


def gen_make_header(tree, out):
    msf = find_func(tree, 'make_header_seismic_file')
    need('buffer = make_header(seismicfile.ilines, seismicfile.xlines, seismicfile.samples, seismicfile.tracecount, header_info, '
         'bits_per_voxel, blockshape, geom, unstructured=seismicfile.unstructured)' in [U(s) for s in msf.body],
         'make_header_seismic_file: arguments of make_header changed')
    f = find_func(tree, 'make_header')
    need([a.arg for a in f.args.args] == ['ilines', 'xlines', 'samples', 'tracecount', 'hw_info', 'bits_per_voxel', 'blockshape', 'geom', 'unstructured'],
         'make_header parameters changed')
    env = {'len(geom.xlines)': 'gnx', 'len(geom.ilines)': 'gni', 'geom.xlines[0]': 'gx0', 'geom.ilines[0]': 'gi0',
           'xlines': ('fn', 'xlines'), 'ilines': ('fn', 'ilines'), 'tracecount': 'tracecount',
           '#bool': {'unstructured': 'false', 'isinstance(geom, Geometry2d)': 'false'}}
    fields = {}

    def walk(stmts):
        for s in stmts:
            if isinstance(s, ast.If):
                t = U(s.test)
                if t == 'isinstance(geom, Geometry2d)':
                    walk(s.orelse)
                elif t == 'not unstructured':
                    walk(s.body)
                elif t in ('bits_per_voxel < 1',):
                    continue
                else:
                    raise Fail('make_header: unexpected test ' + t)
            elif isinstance(s, ast.Assign) and isinstance(s.targets[0], ast.Name):
                nm = s.targets[0].id
                if nm in ('n_xl', 'n_il', 'min_xl', 'min_il', 'header_entry_length_bytes'):
                    v = s.value
                    if isinstance(v, ast.IfExp) and U(v.test) == 'unstructured':
                        v = v.orelse
                    env[nm] = E(v, env)
            elif isinstance(s, ast.Assign) and isinstance(s.targets[0], ast.Subscript) and U(s.targets[0].value) == 'buffer' \
                    and isinstance(s.targets[0].slice, ast.Slice):
                lo = U(s.targets[0].slice.lower)
                if lo in ('8', '12', '20', '24', '32', '36', '60', '68'):
                    need(isinstance(s.value, ast.Call) and len(s.value.args) == 1, 'make_header: field encoder ' + U(s))
                    need(lo not in fields, f'make_header: field {lo} written twice in the structured 3D path')
                    a = s.value.args[0]
                    if isinstance(a, ast.IfExp) and U(a.test) == 'unstructured or isinstance(geom, Geometry2d)':
                        a = a.orelse
                    fields[lo] = (U(s.value.func), E(a, env), U(s.targets[0].slice.upper))
    walk(strip_doc(f.body))
    need(set(fields) == {'8', '12', '20', '24', '32', '36', '60', '68'}, 'make_header: fields found: ' + repr(sorted(fields)))
    enc = {'8': 'int_to_bytes', '12': 'int_to_bytes', '20': 'np_float_to_bytes_signed', '24': 'np_float_to_bytes_signed',
           '32': 'np_float_to_bytes_signed', '36': 'np_float_to_bytes_signed', '60': 'int_to_bytes', '68': 'int_to_bytes'}
    for lo, (fn, _, hi) in fields.items():
        need(fn == enc[lo] and int(hi) == int(lo) + 4, f'make_header: field {lo}:{hi} encoder {fn}')
    P = '(xlines ilines : Z -> Z) (gi0 gx0 gni gnx tracecount : Z)'
    out.append('(* conversion_utils.make_header, structured 3D path; xlines / ilines are the axes make_header_seismic_file passes:')
    out.append('   seismicfile.xlines / seismicfile.ilines (the SOURCE axes), as functions ordinal -> line number *)')
    for lo, nm in (('8', 'n_xl'), ('12', 'n_il'), ('20', 'origin_xl'), ('24', 'origin_il'), ('32', 'inc_xl'), ('36', 'inc_il'),
                   ('60', 'hel'), ('68', 'tracecount')):
        out.append(f'Definition w_hdr_{nm} {P} : Z := {fields[lo][1]}.   (* bytes {lo}:{fields[lo][2]} *)')


def gen_minimal(tree, consts, out):
    init = find_func(tree, 'MinimalInlineReader.__init__')
    t = [U(s) for s in init.body]
    need('self.n_xl = len(segyfile.xlines)' in t and 'self.n_samp = len(segyfile.samples)' in t and 'self.n_il = len(segyfile.ilines)' in t,
         'MinimalInlineReader.__init__ changed')
    st = find_func(tree, 'MinimalInlineReader.self_test')
    need([U(s) for s in strip_doc(st.body)] == [
        'headers, array = self.read_line(0)',
        'array_equal = np.array_equal(self.segyfile.iline[self.segyfile.ilines[0]], array)',
        'headers_equal = all([h1 == h2 for h1, h2 in zip(headers, self.segyfile.header[0:self.n_xl])])',
        'return array_equal and headers_equal'], 'MinimalInlineReader.self_test changed')
    rl = find_func(tree, 'MinimalInlineReader.read_line')
    b = strip_doc(rl.body)
    env = {'self.n_xl': 'n_xl', 'self.n_samp': 'n_samp', 'i': 'i'}
    env.update({k: str(v) for k, v in consts.items()})
    need(isinstance(b[0], ast.Expr) and U(b[0].value.func) == 'self.file.seek' and len(b[0].value.args) == 2 and U(b[0].value.args[1]) == '0',
         'read_line: seek')
    out.append('(* conversion_utils.MinimalInlineReader.read_line *)')
    out.append(f'Definition w_min_seek (n_xl n_samp i : Z) : Z := {E(b[0].value.args[0], env)}.')
    need(isinstance(b[1], ast.Assign) and U(b[1].targets[0]) == 'buf' and U(b[1].value.func) == 'self.file.read' and len(b[1].value.args) == 1,
         'read_line: read')
    out.append(f'Definition w_min_len (n_xl n_samp i : Z) : Z := {E(b[1].value.args[0], env)}.')
    hd = next((s for s in b if isinstance(s, ast.Assign) and U(s.targets[0]) == 'headers'), None)
    need(hd is not None and isinstance(hd.value, ast.ListComp) and len(hd.value.generators) == 1
         and U(hd.value.generators[0].target) == 'h' and U(hd.value.generators[0].iter.func) == 'range'
         and len(hd.value.generators[0].iter.args) == 1, 'read_line: headers comprehension')
    out.append(f'Definition w_min_nheaders (n_xl n_samp i : Z) : Z := {E(hd.value.generators[0].iter.args[0], env)}.')
    sl = hd.value.elt.args[0].slice
    env2 = dict(env, h='h')
    out.append(f'Definition w_min_hdr_lo (n_xl n_samp h : Z) : Z := {E(sl.lower, env2)}.')
    ar = next((s for s in b if isinstance(s, ast.Assign) and U(s.targets[0]) == 'array'), None)
    need(ar is not None and U(ar.value) == 'np.frombuffer(buf, dtype=dt).reshape((self.n_xl, self.n_samp + 60))[:, 60:]',
         'read_line: array: ' + (U(ar.value) if ar else 'missing'))


HEADER = '''(* GENERATED by tools/genx_window.py from seismic_zfp/conversion.py, conversion_utils.py, utils.py -- DO NOT EDIT.
   Regenerated on every check run. *)
From Coq Require Import ZArith List Bool.
Import ListNotations.
From SZ Require Import Lib.Py Gen.Utils.
Open Scope Z_scope.

Definition w_some (o : option Z) : bool := match o with Some _ => true | None => false end.
(* Python truthiness of an int-or-None argument *)
Definition w_truthy (o : option Z) : bool := match o with Some v => negb (v =? 0) | None => false end.

'''


def generate(srcdir):
    def tree(name):
        return ast.parse(open(os.path.join(srcdir, name + '.py')).read())
    out = []
    consts = {}
    for s in tree('sgzconstants').body:
        if isinstance(s, ast.Assign) and isinstance(s.value, ast.Constant) and isinstance(s.value.value, int):
            consts[s.targets[0].id] = s.value.value
    need('SEGY_FILE_HEADER_BYTES' in consts and 'SEGY_TRACE_HEADER_BYTES' in consts, 'sgzconstants changed')
    gen_conversion(tree('conversion'), out)
    out.append('')
    gen_utils(tree('utils'), out)
    out.append('')
    cu = tree('conversion_utils')
    gen_make_header(cu, out)
    out.append('')
    gen_producer(cu, out)
    out.append('')
    gen_io(cu, out)
    out.append('')
    gen_minimal(cu, consts, out)
    return {'Window': HEADER + '\n'.join(out) + '\n'}


if __name__ == '__main__':
    import sys
    print(generate(sys.argv[1] if len(sys.argv) > 1 else '/repo/seismic_zfp')['Window'])
