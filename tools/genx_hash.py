#!/usr/bin/env python3
"""genx_hash.py -- plug-in generator for property C20 (source-data hash): emits coq/Gen/Hash.v.

Extracted with Python `ast` from the CURRENT sources (fail closed: anything not recognised raises Fail, the target is
then reported as a translation failure and Gen/Hash.v is removed so that the proofs of C20 stop building):

  conversion_utils.numpy_producer           np_*   loop bound, planes_to_read, range of the hashing loop, the subscript
                                                   given to hash_object.update, the np.pad() call that builds the buffer
  conversion_utils.seismic_file_producer    sf_*   the same + shape of the np.zeros buffer
  conversion_utils.io_thread_func           io_*   which source line goes to which buffer row (both readers), padding
  conversion_utils.seismic_file_producer_2d s2_*   groups, traces_to_read, the 2-D subscript given to update
  conversion_utils.io_thread_func_2d        io2_*  which trace goes to which buffer row
  conversion_utils.run_conversion_loop             structural checks only: one sha1 object, passed to each producer,
                                                   digest returned
  conversion.*.write_hash / run                    byte offset of the patch (hash_write_offset_*)
  read.SgzReader.get_source_data_hash              header slice returned (hash_read_lo / hash_read_hi)
  conversion.SgzConverter.convert_to_adv_sgz       header ranges the re-blocker overwrites (reblock_patches)

All emitted definitions are closed arithmetic over Z (+ `pad` from Gen/Utils.v).
"""
import ast, os

OUTPUTS = ['Hash']


class Fail(Exception):
    pass


def need(cond, msg):
    if not cond:
        raise Fail(msg)


def U(node):
    return ast.unparse(node)


def strip_doc(body):
    return [s for s in body if not (isinstance(s, ast.Expr) and isinstance(s.value, ast.Constant)
                                    and isinstance(s.value.value, str))]


def find_func(tree, qual):
    parts = qual.split('.')
    scope = tree.body
    node = None
    for p in parts:
        cands = [n for n in scope if isinstance(n, (ast.FunctionDef, ast.ClassDef)) and n.name == p]
        need(len(cands) == 1, f'{qual}: expected exactly one definition of {p}, found {len(cands)}')
        node = cands[0]
        scope = node.body
    need(isinstance(node, ast.FunctionDef), f'{qual} is not a function')
    return node


def argnames(f):
    a = f.args
    need(not a.vararg and not a.kwarg and not a.posonlyargs and not a.kwonlyargs, f'{f.name}: unusual signature')
    return [x.arg for x in a.args]


# ------------------------------------------------------------------------------------------- expressions
class Tx:
    """integer expression translator.  env: python name -> Gallina term (str) or list of terms (a tuple);
    textmap: unparsed python sub-expression -> Gallina term (attribute / len() expressions with a fixed meaning)."""
    def __init__(self, env, textmap=None, where=''):
        self.env = env
        self.textmap = textmap or {}
        self.where = where

    def fail(self, e, why):
        raise Fail(f'{self.where}: cannot translate `{U(e)}`: {why}')

    def z(self, e):
        t = U(e)
        if t in self.textmap:
            return self.textmap[t]
        if isinstance(e, ast.Constant):
            if type(e.value) is int:
                return str(e.value) if e.value >= 0 else f'(- ({-e.value}))'
            self.fail(e, 'non-integer constant')
        if isinstance(e, ast.Name):
            v = self.env.get(e.id)
            if isinstance(v, str):
                return v
            self.fail(e, 'name is not a known integer')
        if isinstance(e, ast.UnaryOp) and isinstance(e.op, ast.USub):
            return f'(- {self.z(e.operand)})'
        if isinstance(e, ast.BinOp):
            ops = {ast.Add: '+', ast.Sub: '-', ast.Mult: '*', ast.FloorDiv: '/', ast.Mod: 'mod'}
            for k, s in ops.items():
                if isinstance(e.op, k):
                    return f'({self.z(e.left)} {s} {self.z(e.right)})'
            self.fail(e, 'operator')
        if isinstance(e, ast.Subscript) and isinstance(e.value, ast.Name) and isinstance(self.env.get(e.value.id), list):
            tup = self.env[e.value.id]
            if isinstance(e.slice, ast.Constant) and type(e.slice.value) is int and 0 <= e.slice.value < len(tup):
                return tup[e.slice.value]
            self.fail(e, 'tuple index')
        if isinstance(e, ast.Call) and isinstance(e.func, ast.Name) and e.func.id == 'pad' and len(e.args) == 2 \
                and not e.keywords:
            return f'(pad {self.z(e.args[0])} {self.z(e.args[1])})'
        self.fail(e, 'unsupported expression')

    def b(self, e):
        if isinstance(e, ast.Compare) and len(e.ops) == 1:
            ops = {ast.Gt: '>?', ast.Lt: '<?', ast.GtE: '>=?', ast.LtE: '<=?', ast.Eq: '=?'}
            for k, s in ops.items():
                if isinstance(e.ops[0], k):
                    return f'({self.z(e.left)} {s} {self.z(e.comparators[0])})'
        self.fail(e, 'unsupported condition')

    def zslice(self, s, what):
        """a `lo:hi` subscript with explicit upper bound, no step -> (lo, hi)"""
        need(isinstance(s, ast.Slice) and s.step is None and s.upper is not None,
             f'{self.where}: {what}: expected a slice lo:hi, got `{U(s)}`')
        return ('0' if s.lower is None else self.z(s.lower)), self.z(s.upper)


def merge(c, a, b, where):
    """value of a variable after `if c: (a) else: (b)`"""
    if type(a) != type(b):
        raise Fail(f'{where}: branches assign values of different kinds')
    if isinstance(a, str):
        return a if a == b else f'(if {c} then {a} else {b})'
    if isinstance(a, list):
        need(len(a) == len(b), f'{where}: tuples of different length')
        return [merge(c, x, y, where) for x, y in zip(a, b)]
    if isinstance(a, dict):
        need(a.keys() == b.keys(), f'{where}: buffers built differently in the two branches')
        return {k: merge(c, a[k], b[k], where) for k in a}
    raise Fail(f'{where}: cannot merge')


def stores(node):
    return {n.id for n in ast.walk(node) if isinstance(n, ast.Name) and isinstance(n.ctx, (ast.Store, ast.Del))}


def mentions(node, name):
    return any(isinstance(n, ast.Name) and n.id == name for n in ast.walk(node))


def no_flow_escape(f):
    for n in ast.walk(f):
        if isinstance(n, (ast.Break, ast.Continue, ast.Return, ast.Raise, ast.Try, ast.While, ast.Yield, ast.YieldFrom,
                          ast.Global, ast.Nonlocal, ast.FunctionDef, ast.Lambda, ast.With)) and n is not f:
            raise Fail(f'{f.name}: control flow the generator does not model: {type(n).__name__}')


def inert(st, tracked, where):
    """a statement the hash does not depend on: it may not mention the hash object nor rebind a tracked name"""
    need(not mentions(st, 'hash_object'), f'{where}: unexpected use of hash_object in `{U(st)[:80]}`')
    bad = stores(st) & tracked
    need(not bad, f'{where}: statement rebinds {sorted(bad)}: `{U(st)[:80]}`')


def range1(node, where):
    need(isinstance(node, ast.For) and isinstance(node.target, ast.Name) and not node.orelse
         and isinstance(node.iter, ast.Call) and isinstance(node.iter.func, ast.Name) and node.iter.func.id == 'range'
         and len(node.iter.args) == 1 and not node.iter.keywords, f'{where}: expected `for v in range(n)`')
    return node.target.id, node.iter.args[0]


def simple_assign(st):
    return isinstance(st, ast.Assign) and len(st.targets) == 1 and isinstance(st.targets[0], ast.Name)


def parse_np_pad(e, tx, where):
    need(isinstance(e, ast.Call) and U(e.func) == 'np.pad' and len(e.args) == 3 and not e.keywords,
         f'{where}: buffer is not built by np.pad(array, widths, mode)')
    arr, widths, mode = e.args
    need(isinstance(mode, ast.Constant) and mode.value == 'edge', f'{where}: np.pad mode is not "edge"')
    need(isinstance(arr, ast.Subscript) and isinstance(arr.value, ast.Name) and arr.value.id == 'in_array'
         and isinstance(arr.slice, ast.Tuple) and len(arr.slice.elts) == 3, f'{where}: np.pad source is not in_array[a:b, :, :]')
    s0, s1, s2 = arr.slice.elts
    for s in (s1, s2):
        need(isinstance(s, ast.Slice) and s.lower is None and s.upper is None and s.step is None,
             f'{where}: np.pad source restricts the crossline / sample axis')
    lo, hi = tx.zslice(s0, 'np.pad source')
    need(isinstance(widths, ast.Tuple) and len(widths.elts) == 3 and
         all(isinstance(w, ast.Tuple) and len(w.elts) == 2 for w in widths.elts), f'{where}: np.pad widths')
    d = {'lo': lo, 'hi': hi}
    for k, w in enumerate(widths.elts):
        d[f'before{k}'] = tx.z(w.elts[0])
        d[f'after{k}'] = tx.z(w.elts[1])
    return d


def exec_simple(stmts, env, tx_of, where, padbuf=False):
    """straight-line assignments of integer expressions (and np.pad buffers) to names; mutates env"""
    for st in stmts:
        need(simple_assign(st), f'{where}: expected a simple assignment, got `{U(st)[:80]}`')
        name = st.targets[0].id
        tx = tx_of(env)
        if padbuf and isinstance(st.value, ast.Call) and U(st.value.func) == 'np.pad':
            env[name] = parse_np_pad(st.value, tx, where)
        else:
            env[name] = tx.z(st.value)


def exec_if(st, env, tx_of, where, padbuf=False):
    """`if c: assignments else: assignments` -> merged values"""
    need(isinstance(st, ast.If) and st.orelse, f'{where}: expected if/else')
    c = tx_of(env).b(st.test)
    ea, eb = dict(env), dict(env)
    exec_simple(st.body, ea, tx_of, where, padbuf)
    exec_simple(st.orelse, eb, tx_of, where, padbuf)
    for k in set(ea) | set(eb):
        if k in ea and k in eb:
            if ea[k] != eb[k]:
                env[k] = merge(c, ea[k], eb[k], where)
            else:
                env[k] = ea[k]
        else:
            env.pop(k, None)      # bound in one branch only: not usable afterwards


class Emit:
    def __init__(self):
        self.lines = []

    def comment(self, t):
        t = t.replace('(*', '( *').replace('*)', '* )')      # never open or close a Coq comment from quoted source
        self.lines.append(f'(* {t} *)')

    def defn(self, name, params, body, ty='Z'):
        ps = ' '.join(params)
        self.lines.append(f'Definition {name} ({ps} : Z) : {ty} :=\n  {body}.')

    def raw(self, t):
        self.lines.append(t)


def update_call(st, where):
    """`hash_object.update(<buffer>[...].copy())` -> (buffer name, subscript node)"""
    need(isinstance(st, ast.Expr) and isinstance(st.value, ast.Call), f'{where}: expected hash_object.update(...)')
    c = st.value
    need(U(c.func) == 'hash_object.update' and len(c.args) == 1 and not c.keywords, f'{where}: expected hash_object.update(x)')
    a = c.args[0]
    need(isinstance(a, ast.Call) and isinstance(a.func, ast.Attribute) and a.func.attr == 'copy' and not a.args and not a.keywords
         and isinstance(a.func.value, ast.Subscript) and isinstance(a.func.value.value, ast.Name),
         f'{where}: update argument is not <buffer>[...].copy(): `{U(a)}`')
    return a.func.value.value.id, a.func.value.slice


DIMS3 = ['n_ilines', 'n_xlines', 'trace_length', 'bs0', 'bs1', 'bs2']
DIMS2 = ['n_traces', 'trace_length', 'bs0', 'bs1', 'bs2']


def producer_prologue(f, body, first_text, dims, where):
    need(U(body[0]) == first_text, f'{where}: first statement changed: `{U(body[0])}`')
    env = {d: d for d in dims if not d.startswith('bs')}
    env['blockshape'] = ['bs0', 'bs1', 'bs2']
    return env


# ------------------------------------------------------------------------------------------- numpy_producer
def gen_numpy(f, em):
    W = 'numpy_producer'
    need(argnames(f) == ['queue', 'in_array', 'blockshape', 'hash_object'], f'{W}: signature changed')
    no_flow_escape(f)
    need(sum(1 for n in ast.walk(f) if isinstance(n, ast.Name) and n.id == 'hash_object') == 1,
         f'{W}: hash_object must be used exactly once')
    body = strip_doc(f.body)
    need(len(body) == 4, f'{W}: expected 4 top-level statements, found {len(body)}')
    env = producer_prologue(f, body, 'n_ilines, n_xlines, trace_length = in_array.shape', DIMS3, W)
    tx_of = lambda e: Tx(e, where=W)
    st = body[1]
    need(simple_assign(st) and st.targets[0].id == 'padded_shape' and isinstance(st.value, ast.Tuple)
         and len(st.value.elts) == 3, f'{W}: padded_shape assignment changed')
    env['padded_shape'] = [tx_of(env).z(x) for x in st.value.elts]
    st = body[2]
    need(simple_assign(st) and st.targets[0].id == 'n_plane_sets', f'{W}: n_plane_sets assignment changed')
    env['n_plane_sets'] = tx_of(env).z(st.value)
    var, hi = range1(body[3], W)
    need(var == 'plane_set_id', f'{W}: loop variable changed')
    P = DIMS3
    em.comment(f'{W}: `{U(body[3].iter)}` with {U(body[2])}')
    em.defn('np_n_plane_sets', P, tx_of(env).z(hi))
    for k in range(3):
        em.defn(f'np_padded_shape{k}', P, env['padded_shape'][k])
    env['plane_set_id'] = 'plane_set_id'
    tracked = {'n_ilines', 'n_xlines', 'trace_length', 'padded_shape', 'n_plane_sets', 'plane_set_id', 'blockshape',
               'buffer', 'planes_to_read', 'in_array', 'hash_object'}
    hashed = None
    PK = P + ['plane_set_id']
    for st in body[3].body:
        if isinstance(st, ast.If) and st.orelse and all(simple_assign(s) for s in st.body + st.orelse) \
                and (stores(st) & {'buffer', 'planes_to_read'}):
            need(hashed is None, f'{W}: buffer / planes_to_read rebound after hashing')
            exec_if(st, env, tx_of, W, padbuf=True)
        elif isinstance(st, ast.For) and mentions(st, 'hash_object'):
            need(hashed is None, f'{W}: more than one hashing loop')
            ivar, cnt = range1(st, W)
            need(len(st.body) == 1, f'{W}: hashing loop body changed')
            bufname, sub = update_call(st.body[0], W)
            need(bufname == 'buffer' and isinstance(env.get('buffer'), dict), f'{W}: hashed object is not the np.pad buffer')
            need(isinstance(env.get('planes_to_read'), str), f'{W}: planes_to_read not assigned before the hashing loop')
            need(isinstance(sub, ast.Tuple) and len(sub.elts) == 3, f'{W}: hashed subscript is not 3-D')
            e2 = dict(env)
            e2[ivar] = 'i'
            t = tx_of(e2)
            em.comment(f'{W}: value of planes_to_read at the hashing loop')
            em.defn('np_planes_to_read', PK, env['planes_to_read'])
            em.comment(f'{W}: `for {ivar} in {U(st.iter)}: {U(st.body[0])}`')
            em.defn('np_hash_count', PK, tx_of(env).z(cnt))
            PI = PK + ['i']
            em.defn('np_hash_row', PI, t.z(sub.elts[0]))
            for ax, nm in ((1, 'x'), (2, 'z')):
                lo, hi_ = t.zslice(sub.elts[ax], 'hashed subscript')
                em.defn(f'np_hash_{nm}_lo', PI, lo)
                em.defn(f'np_hash_{nm}_hi', PI, hi_)
            b = env['buffer']
            em.comment(f'{W}: buffer = np.pad(in_array[lo:hi, :, :], ((before0, after0), (before1, after1), (before2, after2)), "edge")')
            for k in ('lo', 'hi', 'before0', 'after0', 'before1', 'after1', 'before2', 'after2'):
                em.defn(f'np_buf_{k}', PK, b[k])
            hashed = True
        else:
            inert(st, tracked, W)
    need(hashed, f'{W}: no hashing loop found')


# ------------------------------------------------------------------------------------------- io_thread_func
IO_PARAMS = ['blockshape', 'store_headers', 'headers_dict', 'geom', 'plane_set_id', 'planes_to_read',
             'seismic_buffer', 'seismicfile', 'minimal_il_reader', 'trace_length']
IO_TEXTMAP = {'geom.ilines[0]': 'il0', 'geom.xlines[0]': 'xl0', 'geom.xlines[-1]': '((xl0 + n_xlines) - 1)',
              'len(geom.xlines)': 'n_xlines', 'len(geom.ilines)': 'n_ilines'}
DST3 = 'seismic_buffer[i, 0:len(geom.xlines), 0:trace_length]'


def gen_io(f, em):
    W = 'io_thread_func'
    need(argnames(f) == IO_PARAMS, f'{W}: signature changed')
    no_flow_escape(f)
    body = strip_doc(f.body)
    need(len(body) == 1, f'{W}: expected a single loop')
    ivar, hi = range1(body[0], W)
    need(ivar == 'i', f'{W}: loop variable changed')
    env = {'n_ilines': 'n_ilines', 'n_xlines': 'n_xlines', 'trace_length': 'trace_length',
           'blockshape': ['bs0', 'bs1', 'bs2'], 'plane_set_id': 'plane_set_id', 'planes_to_read': 'planes_to_read', 'i': 'i'}
    tx = Tx(env, IO_TEXTMAP, W)
    P = DIMS3 + ['il0', 'xl0', 'plane_set_id', 'planes_to_read', 'i']
    em.comment(f'{W}: `for i in {U(body[0].iter)}`; il0 = geom.ilines[0], xl0 = geom.xlines[0] (conversion window origin)')
    em.defn('io_loop_hi', DIMS3, tx.z(hi))
    L = body[0].body
    tracked = {'seismic_buffer', 'i', 'planes_to_read', 'plane_set_id', 'trace_length', 'blockshape', 'geom'}
    # locate the four roles
    main = [s for s in L if isinstance(s, ast.If) and mentions(s, 'seismic_buffer')]
    need(len(main) == 1, f'{W}: expected exactly one if-statement filling the buffer')
    main = main[0]
    pads = [s for s in L if not isinstance(s, ast.If) and mentions(s, 'seismic_buffer')]
    need([U(s) for s in pads] == [
        'seismic_buffer[i, len(geom.xlines):, 0:trace_length] = seismic_buffer[i, len(geom.xlines) - 1, 0:trace_length]',
        'seismic_buffer[i, :, trace_length:] = np.expand_dims(seismic_buffer[i, :, trace_length - 1], 1)'],
        f'{W}: edge replication statements changed')
    need(L.index(main) < L.index(pads[0]) < L.index(pads[1]) == len(L) - 1, f'{W}: statement order changed')
    for s in L:
        if s is not main and s not in pads:
            inert(s, tracked, W)
    em.defn('io_real_cond', P, tx.b(main.test), 'bool')

    def dst_of(target):
        need(U(target) == DST3, f'{W}: buffer assignment target changed: `{U(target)}`')
        return target

    def split_reader(stmts, what):
        need(len(stmts) >= 1 and isinstance(stmts[0], ast.If) and U(stmts[0].test) == 'minimal_il_reader is not None'
             and stmts[0].orelse, f'{W}: {what}: reader dispatch changed')
        for s in stmts[1:]:
            need(not mentions(s, 'seismic_buffer'), f'{W}: {what}: extra buffer access')
            inert(s, tracked, W)
        return stmts[0].body, stmts[0].orelse

    def read_line_stmt(stmts, what, first):
        need(len(stmts) == 1 and isinstance(stmts[0], ast.Assign) and len(stmts[0].targets) == 1
             and isinstance(stmts[0].targets[0], ast.Tuple) and len(stmts[0].targets[0].elts) == 2,
             f'{W}: {what}: minimal reader statement changed')
        a = stmts[0]
        need(isinstance(a.targets[0].elts[0], ast.Name) and a.targets[0].elts[0].id == first, f'{W}: {what}: first target changed')
        dst_of(a.targets[0].elts[1])
        v = a.value
        need(isinstance(v, ast.Call) and U(v.func) == 'minimal_il_reader.read_line' and len(v.args) == 1 and not v.keywords,
             f'{W}: {what}: not a read_line(k) call')
        return tx.z(v.args[0])

    real_min, real_sio = split_reader(main.body, 'real planes')
    rep_min, rep_sio = split_reader(main.orelse, 'replicated planes')
    em.comment(f'{W}: every assignment of source data targets {DST3}')
    dst = ast.parse(DST3, mode='eval').body.slice.elts
    em.defn('io_dst_row', P, tx.z(dst[0]))
    for ax, nm in ((1, 'x'), (2, 'z')):
        lo, hi_ = tx.zslice(dst[ax], 'destination')
        em.defn(f'io_dst_{nm}_lo', P, lo)
        em.defn(f'io_dst_{nm}_hi', P, hi_)
    em.comment(f'{W}: source inline ordinal, reduced-I/O reader (read_line argument)')
    em.defn('io_line_minimal', P, read_line_stmt(real_min, 'real planes', 'headers'))
    em.defn('io_rep_line_minimal', P, read_line_stmt(rep_min, 'replicated planes', '_'))
    # segyio reader, real planes
    need(len(real_sio) >= 1 and isinstance(real_sio[0], ast.Assign) and len(real_sio[0].targets) == 1, f'{W}: segyio read changed')
    a = real_sio[0]
    dst_of(a.targets[0])
    for s in real_sio[1:]:
        need(not mentions(s, 'seismic_buffer'), f'{W}: extra buffer access in the segyio branch')
        inert(s, tracked, W)
    v = a.value
    ok = (isinstance(v, ast.Subscript) and isinstance(v.slice, ast.Tuple) and len(v.slice.elts) == 2
          and isinstance(v.value, ast.Call) and U(v.value.func) == 'np.asarray' and len(v.value.args) == 1 and not v.value.keywords)
    need(ok, f'{W}: segyio read is not np.asarray(...)[xlo:xhi, :]')
    src = v.value.args[0]
    ok = (isinstance(src, ast.Subscript) and U(src.value) == 'seismicfile.iline' and isinstance(src.slice, ast.Subscript)
          and U(src.slice.value) == 'seismicfile.ilines')
    need(ok, f'{W}: segyio read is not seismicfile.iline[seismicfile.ilines[k]]')
    em.comment(f'{W}: source inline ordinal and crossline window, segyio reader')
    em.defn('io_line_segyio', P, tx.z(src.slice.slice))
    xs, zs = v.slice.elts
    need(isinstance(zs, ast.Slice) and zs.lower is None and zs.upper is None and zs.step is None, f'{W}: segyio read restricts samples')
    lo, hi_ = tx.zslice(xs, 'segyio crossline window')
    em.defn('io_src_x_lo', P, lo)
    em.defn('io_src_x_hi', P, hi_)
    # segyio reader, replicated planes: pinned shape, the line number is translated
    need(len(rep_sio) == 4 and simple_assign(rep_sio[0]) and rep_sio[0].targets[0].id == 'last_populated_inline_number'
         and [U(s) for s in rep_sio[1:]] == [
             'last_populated_inline = seismicfile.iline[seismicfile.ilines[last_populated_inline_number]]',
             'il_shape = (slice(geom.xlines[0], geom.xlines[-1] + 1), slice(None))',
             f'{DST3} = np.asarray(last_populated_inline)[il_shape]'], f'{W}: segyio replication branch changed')
    em.defn('io_rep_line_segyio', P, tx.z(rep_sio[0].value))
    em.comment(f'{W}: `{U(pads[0])}`')
    em.defn('io_xpad_from', P, tx.z(pads[0].targets[0].slice.elts[1].lower))
    em.defn('io_xpad_src', P, tx.z(pads[0].value.slice.elts[1]))
    em.comment(f'{W}: `{U(pads[1])}`')
    em.defn('io_zpad_from', P, tx.z(pads[1].targets[0].slice.elts[2].lower))
    em.defn('io_zpad_src', P, tx.z(pads[1].value.args[0].slice.elts[2]))


# ------------------------------------------------------------------------------------------- seismic_file_producer
def check_passthrough_call(st, callee, params, where):
    need(isinstance(st, ast.Expr) and isinstance(st.value, ast.Call) and isinstance(st.value.func, ast.Name)
         and st.value.func.id == callee and not st.value.keywords, f'{where}: expected a call of {callee}')
    got = [U(a) for a in st.value.args]
    need(got == params, f'{where}: arguments of {callee} are not its parameter names in order: {got}')


def gen_segy3d(f, em):
    W = 'seismic_file_producer'
    need(argnames(f) == ['queue', 'seismicfile', 'blockshape', 'store_headers', 'headers_dict', 'geom', 'hash_object',
                         'reduce_iops', 'verbose'], f'{W}: signature changed')
    no_flow_escape(f)
    need(sum(1 for n in ast.walk(f) if isinstance(n, ast.Name) and n.id == 'hash_object') == 1,
         f'{W}: hash_object must be used exactly once')
    body = strip_doc(f.body)
    env = producer_prologue(f, body, 'n_ilines, n_xlines, trace_length = (len(geom.ilines), len(geom.xlines), len(seismicfile.samples))',
                            DIMS3, W)
    tx_of = lambda e: Tx(e, where=W)
    tracked = {'n_ilines', 'n_xlines', 'trace_length', 'padded_shape', 'n_plane_sets', 'plane_set_id', 'blockshape',
               'seismic_buffer', 'planes_to_read', 'hash_object', 'geom', 'seismicfile'}
    loop = None
    for st in body[1:]:
        if simple_assign(st) and st.targets[0].id == 'padded_shape':
            need(isinstance(st.value, ast.Tuple) and len(st.value.elts) == 3 and loop is None, f'{W}: padded_shape changed')
            env['padded_shape'] = [tx_of(env).z(x) for x in st.value.elts]
        elif simple_assign(st) and st.targets[0].id == 'n_plane_sets':
            need(loop is None, f'{W}: n_plane_sets assigned after the loop')
            env['n_plane_sets'] = tx_of(env).z(st.value)
        elif isinstance(st, ast.For) and mentions(st, 'hash_object'):
            need(loop is None, f'{W}: two loops use the hash object')
            loop = st
        else:
            inert(st, tracked, W)
    need(loop is not None and 'padded_shape' in env and 'n_plane_sets' in env, f'{W}: main loop not found')
    need(loop is body[-1], f'{W}: statements after the main loop')
    var, hi = range1(loop, W)
    need(var == 'plane_set_id', f'{W}: loop variable changed')
    P = DIMS3
    PK = P + ['plane_set_id']
    em.comment(f'{W}: `for plane_set_id in {U(loop.iter)}`')
    em.defn('sf_n_plane_sets', P, tx_of(env).z(hi))
    for k in range(3):
        em.defn(f'sf_padded_shape{k}', P, env['padded_shape'][k])
    env['plane_set_id'] = 'plane_set_id'
    stage = 0      # 0: before planes_to_read, 1: before zeros, 2: before fill, 3: before hashing, 4: after
    for st in loop.body:
        if isinstance(st, ast.If) and st.orelse and all(simple_assign(s) for s in st.body + st.orelse) \
                and 'planes_to_read' in stores(st):
            need(stage == 0, f'{W}: planes_to_read assigned out of order')
            exec_if(st, env, tx_of, W)
            need(isinstance(env.get('planes_to_read'), str), f'{W}: planes_to_read not assigned in both branches')
            stage = 1
        elif simple_assign(st) and st.targets[0].id == 'seismic_buffer':
            need(stage == 1, f'{W}: buffer allocated out of order')
            v = st.value
            ok = (isinstance(v, ast.Call) and U(v.func) == 'np.zeros' and len(v.args) == 1 and isinstance(v.args[0], ast.Tuple)
                  and len(v.args[0].elts) == 3 and [(k.arg, U(k.value)) for k in v.keywords] == [('dtype', 'np.float32')])
            need(ok, f'{W}: buffer is not np.zeros((a, b, c), dtype=np.float32)')
            env['seismic_buffer'] = {'shape': [tx_of(env).z(x) for x in v.args[0].elts]}
            stage = 2
        elif isinstance(st, ast.If) and mentions(st, 'io_thread_func'):
            need(stage == 2, f'{W}: buffer filled out of order')
            need(U(st.test) == 'isinstance(geom, InferredGeometry3d)' and len(st.body) == 1 and len(st.orelse) == 1,
                 f'{W}: reader dispatch changed')
            need(isinstance(st.body[0], ast.Expr) and isinstance(st.body[0].value, ast.Call)
                 and U(st.body[0].value.func) == 'unstructured_io_thread_func' and not mentions(st.body[0], 'hash_object'),
                 f'{W}: irregular branch changed')
            check_passthrough_call(st.orelse[0], 'io_thread_func', IO_PARAMS, W)
            stage = 3
        elif isinstance(st, ast.For) and mentions(st, 'hash_object'):
            need(stage == 3, f'{W}: hashing loop out of order')
            ivar, cnt = range1(st, W)
            need(len(st.body) == 1, f'{W}: hashing loop body changed')
            bufname, sub = update_call(st.body[0], W)
            need(bufname == 'seismic_buffer', f'{W}: hashed object is not the plane-set buffer')
            need(isinstance(sub, ast.Tuple) and len(sub.elts) == 3, f'{W}: hashed subscript is not 3-D')
            e2 = dict(env)
            e2[ivar] = 'i'
            t = tx_of(e2)
            em.comment(f'{W}: value of planes_to_read passed to io_thread_func and used by the hashing loop')
            em.defn('sf_planes_to_read', PK, env['planes_to_read'])
            em.comment(f'{W}: np.zeros buffer shape')
            for k in range(3):
                em.defn(f'sf_buf_shape{k}', PK, env['seismic_buffer']['shape'][k])
            em.comment(f'{W}: `for {ivar} in {U(st.iter)}: {U(st.body[0])}`')
            em.defn('sf_hash_count', PK, tx_of(env).z(cnt))
            PI = PK + ['i']
            em.defn('sf_hash_row', PI, t.z(sub.elts[0]))
            for ax, nm in ((1, 'x'), (2, 'z')):
                lo, hi_ = t.zslice(sub.elts[ax], 'hashed subscript')
                em.defn(f'sf_hash_{nm}_lo', PI, lo)
                em.defn(f'sf_hash_{nm}_hi', PI, hi_)
            stage = 4
        else:
            inert(st, tracked, W)
    need(stage == 4, f'{W}: hashing loop not found')


# ------------------------------------------------------------------------------------------- 2D
IO2_PARAMS = ['blockshape', 'store_headers', 'headers_dict', 'trace_group_id', 'traces_to_read', 'seismic_buffer',
              'seismicfile', 'trace_length']
DST2 = 'seismic_buffer[i, 0:trace_length]'


def gen_io2(f, em):
    W = 'io_thread_func_2d'
    need(argnames(f) == IO2_PARAMS, f'{W}: signature changed')
    no_flow_escape(f)
    body = strip_doc(f.body)
    need(len(body) == 1, f'{W}: expected a single loop')
    ivar, hi = range1(body[0], W)
    need(ivar == 'i', f'{W}: loop variable changed')
    env = {'n_traces': 'n_traces', 'trace_length': 'trace_length', 'blockshape': ['bs0', 'bs1', 'bs2'],
           'trace_group_id': 'trace_group_id', 'traces_to_read': 'traces_to_read', 'i': 'i'}
    tx = Tx(env, {}, W)
    P = DIMS2 + ['trace_group_id', 'traces_to_read', 'i']
    em.comment(f'{W}: `for i in {U(body[0].iter)}`')
    em.defn('io2_loop_hi', DIMS2, tx.z(hi))
    L = body[0].body
    need(len(L) == 2 and isinstance(L[0], ast.If) and L[0].orelse, f'{W}: loop body changed')
    need(U(L[1]) == 'seismic_buffer[i, trace_length:] = np.expand_dims(seismic_buffer[i, trace_length - 1], 0)',
         f'{W}: edge replication statement changed')
    em.defn('io2_real_cond', P, tx.b(L[0].test), 'bool')
    real, rep = L[0].body, L[0].orelse
    need(len(real) >= 2 and simple_assign(real[0]) and real[0].targets[0].id == 'trace_id', f'{W}: trace_id assignment changed')
    e2 = dict(env)
    e2['trace_id'] = tx.z(real[0].value)
    need(U(real[1]) == f'{DST2} = np.asarray(seismicfile.trace[trace_id])', f'{W}: trace read changed: `{U(real[1])}`')
    for s in real[2:]:
        need(not mentions(s, 'seismic_buffer'), f'{W}: extra buffer access')
        inert(s, {'seismic_buffer', 'i', 'trace_id', 'traces_to_read', 'trace_group_id'}, W)
    need(len(rep) == 1 and isinstance(rep[0], ast.Assign) and U(rep[0].targets[0]) == DST2, f'{W}: replication branch changed')
    v = rep[0].value
    ok = (isinstance(v, ast.Call) and U(v.func) == 'np.asarray' and len(v.args) == 1 and isinstance(v.args[0], ast.Subscript)
          and U(v.args[0].value) == 'seismicfile.trace')
    need(ok, f'{W}: replication source changed')
    dst = ast.parse(DST2, mode='eval').body.slice.elts
    em.comment(f'{W}: every assignment of source data targets {DST2}')
    em.defn('io2_dst_row', P, tx.z(dst[0]))
    lo, hi_ = tx.zslice(dst[1], 'destination')
    em.defn('io2_dst_z_lo', P, lo)
    em.defn('io2_dst_z_hi', P, hi_)
    em.comment(f'{W}: source trace ordinal of a real row; of a replicated row (Python index: negative counts from the end)')
    em.defn('io2_trace_id', P, e2['trace_id'])
    em.defn('io2_rep_trace', P, tx.z(v.args[0].slice))
    em.comment(f'{W}: `{U(L[1])}`')
    em.defn('io2_zpad_from', P, tx.z(L[1].targets[0].slice.elts[1].lower))
    em.defn('io2_zpad_src', P, tx.z(L[1].value.args[0].slice.elts[1]))


def gen_segy2d(f, em):
    W = 'seismic_file_producer_2d'
    need(argnames(f) == ['queue', 'seismicfile', 'blockshape', 'store_headers', 'headers_dict', 'geom', 'hash_object',
                         'verbose'], f'{W}: signature changed')
    no_flow_escape(f)
    need(sum(1 for n in ast.walk(f) if isinstance(n, ast.Name) and n.id == 'hash_object') == 1,
         f'{W}: hash_object must be used exactly once')
    body = strip_doc(f.body)
    env = producer_prologue(f, body, 'n_traces, trace_length = (len(geom.traces), len(seismicfile.samples))', DIMS2, W)
    tx_of = lambda e: Tx(e, where=W)
    tracked = {'n_traces', 'trace_length', 'padded_shape', 'n_trace_groups', 'trace_group_id', 'blockshape',
               'seismic_buffer', 'traces_to_read', 'hash_object', 'geom', 'seismicfile'}
    loop = None
    for st in body[1:]:
        if simple_assign(st) and st.targets[0].id == 'padded_shape':
            need(isinstance(st.value, ast.Tuple) and len(st.value.elts) == 3 and loop is None, f'{W}: padded_shape changed')
            env['padded_shape'] = [tx_of(env).z(x) for x in st.value.elts]
        elif simple_assign(st) and st.targets[0].id == 'n_trace_groups':
            need(loop is None, f'{W}: n_trace_groups assigned after the loop')
            env['n_trace_groups'] = tx_of(env).z(st.value)
        elif isinstance(st, ast.For) and mentions(st, 'hash_object'):
            need(loop is None, f'{W}: two loops use the hash object')
            loop = st
        else:
            inert(st, tracked, W)
    need(loop is not None and 'padded_shape' in env and 'n_trace_groups' in env, f'{W}: main loop not found')
    need(loop is body[-1], f'{W}: statements after the main loop')
    var, hi = range1(loop, W)
    need(var == 'trace_group_id', f'{W}: loop variable changed')
    P = DIMS2
    PK = P + ['trace_group_id']
    em.comment(f'{W}: `for trace_group_id in {U(loop.iter)}`')
    em.defn('s2_n_trace_groups', P, tx_of(env).z(hi))
    for k in range(3):
        em.defn(f's2_padded_shape{k}', P, env['padded_shape'][k])
    env['trace_group_id'] = 'trace_group_id'
    stage = 0
    for st in loop.body:
        if isinstance(st, ast.If) and st.orelse and all(simple_assign(s) for s in st.body + st.orelse) \
                and 'traces_to_read' in stores(st):
            need(stage == 0, f'{W}: traces_to_read assigned out of order')
            exec_if(st, env, tx_of, W)
            need(isinstance(env.get('traces_to_read'), str), f'{W}: traces_to_read not assigned in both branches')
            stage = 1
        elif simple_assign(st) and st.targets[0].id == 'seismic_buffer':
            need(stage == 1, f'{W}: buffer allocated out of order')
            v = st.value
            ok = (isinstance(v, ast.Call) and U(v.func) == 'np.zeros' and len(v.args) == 1 and isinstance(v.args[0], ast.Tuple)
                  and len(v.args[0].elts) == 2 and [(k.arg, U(k.value)) for k in v.keywords] == [('dtype', 'np.float32')])
            need(ok, f'{W}: buffer is not np.zeros((a, b), dtype=np.float32)')
            env['seismic_buffer'] = {'shape': [tx_of(env).z(x) for x in v.args[0].elts]}
            stage = 2
        elif isinstance(st, ast.Expr) and mentions(st, 'io_thread_func_2d'):
            need(stage == 2, f'{W}: buffer filled out of order')
            check_passthrough_call(st, 'io_thread_func_2d', IO2_PARAMS, W)
            stage = 3
        elif isinstance(st, ast.Expr) and mentions(st, 'hash_object'):
            need(stage == 3, f'{W}: hashing statement out of order')
            bufname, sub = update_call(st, W)
            need(bufname == 'seismic_buffer', f'{W}: hashed object is not the trace-group buffer')
            need(isinstance(sub, ast.Tuple) and len(sub.elts) == 2, f'{W}: hashed subscript is not 2-D')
            t = tx_of(env)
            em.comment(f'{W}: value of traces_to_read passed to io_thread_func_2d and used by the hashing statement')
            em.defn('s2_traces_to_read', PK, env['traces_to_read'])
            em.comment(f'{W}: np.zeros buffer shape')
            for k in range(2):
                em.defn(f's2_buf_shape{k}', PK, env['seismic_buffer']['shape'][k])
            em.comment(f'{W}: `{U(st)}`')
            for ax, nm in ((0, 'row'), (1, 'z')):
                lo, hi_ = t.zslice(sub.elts[ax], 'hashed subscript')
                em.defn(f's2_hash_{nm}_lo', PK, lo)
                em.defn(f's2_hash_{nm}_hi', PK, hi_)
            stage = 4
        else:
            need(not isinstance(st, ast.For) or not mentions(st, 'hash_object'), f'{W}: hashing moved into a loop')
            inert(st, tracked, W)
    need(stage == 4, f'{W}: hashing statement not found')


# ------------------------------------------------------------------------------------------- plumbing
def check_run_conversion_loop(f, tree, em):
    W = 'run_conversion_loop'
    body = strip_doc(f.body)
    uses = [s for s in body if mentions(s, 'hash_object')]
    need(len(uses) == 3, f'{W}: expected 3 statements using hash_object, found {len(uses)}')
    need(U(uses[0]) == "hash_object = hashlib.new('sha1')", f'{W}: hash construction changed: `{U(uses[0])}`')
    need(U(uses[2]) == 'return hash_object.digest()' and uses[2] is body[-1], f'{W}: digest is not what is returned')
    disp = uses[1]
    tests, calls = [], []
    node = disp
    while isinstance(node, ast.If):
        tests.append(U(node.test))
        need(len(node.body) == 1, f'{W}: dispatch branch changed')
        calls.append(node.body[0])
        if len(node.orelse) == 1 and isinstance(node.orelse[0], ast.If):
            node = node.orelse[0]
        else:
            need(len(node.orelse) == 1, f'{W}: dispatch else-branch changed')
            calls.append(node.orelse[0])
            node = None
    need(tests == ['isinstance(source, CubeWithAxes)', 'isinstance(geom, Geometry2d)'], f'{W}: dispatch tests changed: {tests}')
    want = ['numpy_producer', 'seismic_file_producer_2d', 'seismic_file_producer']
    for c, w in zip(calls, want):
        need(isinstance(c, ast.Expr) and isinstance(c.value, ast.Call) and isinstance(c.value.func, ast.Name)
             and c.value.func.id == w, f'{W}: dispatch does not call {w}')
        callee = find_func(tree, w)
        params = argnames(callee)
        pos = params.index('hash_object')
        args = c.value.args
        kw = {k.arg: k.value for k in c.value.keywords}
        got = args[pos] if pos < len(args) else kw.get('hash_object')
        need(got is not None and U(got) == 'hash_object', f'{W}: {w} does not receive the hash object')
        need(sum(1 for n in ast.walk(c) if isinstance(n, ast.Name) and n.id == 'hash_object') == 1,
             f'{W}: hash object passed twice to {w}')
        if w == 'seismic_file_producer':
            need(U(kw.get('reduce_iops')) == 'reduce_iops' if 'reduce_iops' in kw else False, f'{W}: reduce_iops not forwarded')
        bpos = params.index('blockshape')
        need(U(args[bpos]) == 'blockshape', f'{W}: {w} does not receive blockshape')
    # the producers must be called between creation and digest, nothing else touches the object
    need(body.index(uses[0]) < body.index(disp) < body.index(uses[2]), f'{W}: statement order changed')
    em.comment(f'{W}: one hashlib.new("sha1") object, handed to exactly one producer, digest() returned (checked structurally)')


def const_int(e, where):
    need(isinstance(e, ast.Constant) and type(e.value) is int, f'{where}: expected an integer constant, got `{U(e)}`')
    return e.value


def gen_header(conv, rd, em):
    for cls, handle in (('SeismicFileConverter', 'out_file'), ('NumpyConverter', 'out_filehandle')):
        f = find_func(conv, f'{cls}.write_hash')
        W = f'{cls}.write_hash'
        need(argnames(f) == ['hash', 'out_filehandle'], f'{W}: signature changed')
        body = strip_doc(f.body)
        ok = (len(body) == 1 and isinstance(body[0], ast.With) and len(body[0].items) == 1
              and U(body[0].items[0].context_expr) == "open(out_filehandle.name, 'r+b')"
              and U(body[0].items[0].optional_vars) == 'f' and len(body[0].body) == 2)
        need(ok, f'{W}: body changed')
        s, w = body[0].body
        ok = (isinstance(s, ast.Expr) and isinstance(s.value, ast.Call) and U(s.value.func) == 'f.seek' and len(s.value.args) == 1
              and U(w) == 'f.write(hash)')
        need(ok, f'{W}: seek/write changed')
        off = const_int(s.value.args[0], W)
        em.comment(f'{W}: `{U(s)}; {U(w)}`')
        em.raw(f'Definition hash_write_offset_{"segy" if cls == "SeismicFileConverter" else "numpy"} : Z := {off}.')
        run = find_func(conv, f'{cls}.run')
        texts = [U(n) for n in ast.walk(run) if isinstance(n, (ast.Assign, ast.Expr))]
        need(sum(1 for t in texts if t.startswith('hash_bytes = run_conversion_loop(')) == 1, f'{cls}.run: digest not taken from run_conversion_loop')
        need(sum(1 for t in texts if t == f'self.write_hash(hash_bytes, {handle})') == 1, f'{cls}.run: write_hash call changed')
        need(sum(1 for n in ast.walk(run) if isinstance(n, ast.Name) and n.id == 'hash_bytes') == 2, f'{cls}.run: hash_bytes used elsewhere')
    g = find_func(rd, 'SgzReader.get_source_data_hash')
    body = strip_doc(g.body)
    need(len(body) == 1 and isinstance(body[0], ast.Return), 'get_source_data_hash: body changed')
    v = body[0].value
    ok = (isinstance(v, ast.Call) and isinstance(v.func, ast.Attribute) and v.func.attr == 'hex' and not v.args
          and isinstance(v.func.value, ast.Subscript) and U(v.func.value.value) == 'self.headerbytes'
          and isinstance(v.func.value.slice, ast.Slice) and v.func.value.slice.step is None)
    need(ok, f'get_source_data_hash: not self.headerbytes[a:b].hex(): `{U(v)}`')
    sl = v.func.value.slice
    em.comment(f'SgzReader.get_source_data_hash: `{U(body[0])}`')
    em.raw(f'Definition hash_read_lo : Z := {const_int(sl.lower, "get_source_data_hash")}.')
    em.raw(f'Definition hash_read_hi : Z := {const_int(sl.upper, "get_source_data_hash")}.')
    init = find_func(rd, 'SgzReader.__init__')
    need(any(U(s) == 'self.headerbytes = self.file.read_range(self.file, 0, DISK_BLOCK_BYTES)' for s in ast.walk(init)
             if isinstance(s, ast.Assign)), 'SgzReader.__init__: headerbytes no longer read from offset 0')
    # re-blocker
    W = 'SgzConverter.convert_to_adv_sgz'
    r = find_func(conv, W)
    body = strip_doc(r.body)
    news = [s for s in body if simple_assign(s) and s.targets[0].id == 'new_header']
    need(len(news) == 1 and U(news[0].value) == 'bytearray(self.headerbytes)', f'{W}: new_header is not a copy of the source header')
    patches = []
    for n in ast.walk(r):
        if isinstance(n, (ast.Assign, ast.AugAssign, ast.Delete)):
            tg = n.targets if not isinstance(n, ast.AugAssign) else [n.target]
            for t in tg:
                if mentions(t, 'new_header') and n is not news[0]:
                    ok = (isinstance(n, ast.Assign) and isinstance(t, ast.Subscript) and U(t.value) == 'new_header'
                          and isinstance(t.slice, ast.Slice) and t.slice.step is None
                          and isinstance(n.value, ast.Call) and U(n.value.func) == 'int_to_bytes')
                    need(ok, f'{W}: unrecognised modification of new_header: `{U(n)}`')
                    a, b = const_int(t.slice.lower, W), const_int(t.slice.upper, W)
                    need(b - a == 4, f'{W}: patch `{U(n)}` is not 4 bytes wide')
                    patches.append((a, b))
    others = [n for n in ast.walk(r) if isinstance(n, ast.Call) and any(mentions(a, 'new_header') for a in n.args)
              and U(n.func) not in ('int_to_bytes',)]
    need([U(n) for n in others] == ['outfile.write(new_header)'], f'{W}: new_header passed to {[U(n) for n in others]}')
    withs = [s for s in body if isinstance(s, ast.With)]
    need(len(withs) == 1 and U(withs[0].items[0].context_expr) == "open(out_file, 'wb')"
         and U(withs[0].body[0]) == 'outfile.write(new_header)', f'{W}: header is not the first thing written')
    need(body.index(withs[0]) == len(body) - 1, f'{W}: statements after the output file is closed')
    for s in ast.walk(withs[0]):
        if isinstance(s, ast.Call) and U(s.func) in ('outfile.seek', 'outfile.truncate'):
            raise Fail(f'{W}: output file is repositioned')
    em.comment(f'{W}: the output header is bytearray(self.headerbytes) with these byte ranges [a, b) overwritten')
    em.raw('Definition reblock_patches : list (Z * Z) := [' + '; '.join(f'({a}, {b})' for a, b in patches) + '].')


HEADER = '''(* GENERATED by tools/genx_hash.py (via tools/gen.py) from seismic_zfp/conversion_utils.py, conversion.py, read.py
   -- DO NOT EDIT.  Regenerated on every check run.  Property C20 (source-data hash). *)
From Coq Require Import ZArith List Bool.
Import ListNotations.
From SZ Require Import Lib.Py Gen.Utils.
Open Scope Z_scope.

'''


def generate(srcdir):
    def parse(name):
        return ast.parse(open(os.path.join(srcdir, name)).read())
    cu, conv, rd = parse('conversion_utils.py'), parse('conversion.py'), parse('read.py')
    # `pad` must be the one translated in Gen/Utils.v
    imp = [n for n in cu.body if isinstance(n, ast.ImportFrom) and n.module == 'utils' and n.level == 1]
    need(len(imp) == 1 and any(a.name == 'pad' and a.asname is None for a in imp[0].names),
         'conversion_utils: pad is not imported from .utils')
    need(sum(1 for n in ast.walk(cu) if isinstance(n, ast.Name) and n.id == 'pad' and isinstance(n.ctx, ast.Store)) == 0,
         'conversion_utils: pad is rebound')
    need(any(isinstance(n, ast.Import) and any(a.name == 'hashlib' and a.asname is None for a in n.names) for n in cu.body),
         'conversion_utils: hashlib import changed')
    em = Emit()
    gen_numpy(find_func(cu, 'numpy_producer'), em)
    gen_segy3d(find_func(cu, 'seismic_file_producer'), em)
    gen_io(find_func(cu, 'io_thread_func'), em)
    gen_segy2d(find_func(cu, 'seismic_file_producer_2d'), em)
    gen_io2(find_func(cu, 'io_thread_func_2d'), em)
    check_run_conversion_loop(find_func(cu, 'run_conversion_loop'), cu, em)
    gen_header(conv, rd, em)
    return {'Hash': HEADER + '\n'.join(em.lines) + '\n'}


if __name__ == '__main__':
    import sys
    print(generate(sys.argv[1] if len(sys.argv) > 1 else '/repo/seismic_zfp')['Hash'])
