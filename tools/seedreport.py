#!/usr/bin/env python3
"""seedreport.py -- (maintainer) table of seeded changes vs checks from seeded/*/meta.json (markdown on stdout)"""
import json, glob, os
V = os.path.dirname(os.path.dirname(os.path.abspath(__file__)))
rows = []
for mp in sorted(glob.glob(os.path.join(V, 'seeded', '*', 'meta.json'))):
    m = json.load(open(mp))
    own = m.get('checks', {}).get(m['property'], {})
    others = [p for p, c in m.get('checks', {}).items() if p != m['property'] and c.get('detected')]
    def st(c):
        if not c:
            return 'not run'
        if c.get('detected'):
            return 'caught, failing input replayed' if c.get('with_failing_input') else 'caught (obligation broke, no-failing-input-found)'
        return 'MISSED'
    rows.append((m['seed'], m['property'], m.get('what', ''), 'yes' if m.get('confirmed') else 'NO', st(own), ', '.join(others)))
print('| seed | property | change (needs ... to manifest) | confirmed | own check | also caught by |')
print('|---|---|---|---|---|---|')
for r in rows:
    print('| ' + ' | '.join(r) + ' |')
