#!/usr/bin/env python3
"""mkseedround.py <dir> <k> [ids...] : (maintainer) prepare a seeding round: one scratch worktree of /repo HEAD per property under
<dir>, the property text, and the brief for a fresh sub-agent (which gets nothing from /verif).  The ideas of earlier kept
changes are listed in the brief so that the round looks for other mechanisms."""
import sys, os, json, glob, subprocess, shutil
VERIF = os.path.dirname(os.path.dirname(os.path.abspath(__file__)))
D, K = sys.argv[1], int(sys.argv[2])
ids = sys.argv[3:]
props = {json.loads(l)['id']: json.loads(l) for l in open(os.path.join(VERIF, 'properties.jsonl'))}
ids = ids or sorted(props)
os.makedirs(D, exist_ok=True)
shutil.copy(os.path.join(VERIF, 'tools', 'baseline.py'), os.path.join(D, 'baseline.py'))
env = open('/tmp/seed2/README_ENV.md').read().replace('/tmp/seed2', D) if os.path.exists('/tmp/seed2/README_ENV.md') else open(os.path.join(VERIF, 'tools', 'README_ENV.seed.md')).read().replace('@D@', D)
open(os.path.join(D, 'README_ENV.md'), 'w').write(env)
NUM = {1: 'ONE', 2: 'TWO', 3: 'THREE'}[K]
for pid in ids:
    p = props[pid]
    wt = os.path.join(D, pid)
    if not os.path.exists(wt):
        subprocess.check_call(['git', '-C', '/repo', 'worktree', 'add', '-q', '--detach', wt])
    text = f"{pid}: {p['title']}\n\nSTATEMENT: {p['statement']}\n\nQUANTIFIED OVER: {p['quantifier']['text']}\n"
    open(os.path.join(D, f'{pid}.property.txt'), 'w').write(text)
    earlier = []
    for m in sorted(glob.glob(os.path.join(VERIF, 'seeded', pid + '_*', 'meta.json'))):
        w = json.load(open(m)).get('what')
        if w:
            earlier.append('  - ' + w.strip())
    prompt = f"""You are testing how well a Python library's existing test-suite pins down one of its semantic properties. The library is equinor/seismic-zfp (SGZ seismic container format: ZFP-compressed cubes, readers, converters). You work ONLY in the scratch git worktree {wt} (a checkout of the library; the package is `seismic_zfp/`, tests in `tests/`, docs in `docs/` and README.md). Never read or touch /repo or /verif. First read {D}/README_ENV.md (how to run the test-suite and how to run writers in this sandbox).

The property (also in {D}/{pid}.property.txt):

{text}

Earlier attempts already used these ideas for this property; find DIFFERENT mechanisms (other functions, other code paths such as a different reader path / writer route / accessor / file kind / backend, state carried between calls, interaction of two features, a clause of the statement none of these touches), not variations of these:
{chr(10).join(earlier)}

Your task: produce {NUM} independent, realistic code change(s) ("mutations") to the library (files under {wt}/seismic_zfp only), each of which BREAKS this property while (a) the package still imports, and (b) the existing test-suite still passes exactly as before (`python3 {D}/baseline.py {wt}` prints `baseline: 93/93 stable tests pass`). Prefer changes that look like plausible maintenance mistakes or "optimisations" (an off-by-one on a boundary nobody tests, a wrong residue class, a reordered pair of statements, a condition that is right for the common case, two sites that each look fine alone, a cache or memo that outlives what it caches) and that need something SPECIFIC to manifest: a particular size / residue modulo 4 or the block shape, an unusual but valid setting, a particular interleaving or crash point, a multi-step sequence of operations, an unusual input. Do NOT make changes that ordinary use would expose at once (e.g. every read returns garbage), and do not change tests.

For each mutation k in 1..{K}:
1. Start from a clean worktree (`git -C {wt} checkout -- .`), make the change, run the test-suite command above and confirm 93/93.
2. Write a demonstration script {D}/{pid}_m<k>_demo.py (run with `/venv/bin/python`, takes the worktree path as argv[1] and puts it first on sys.path as README_ENV.md shows) that checks the property on a concrete input and exits 0 when the property holds and 1 when it is violated. It must exit 1 on the mutated worktree and exit 0 on the clean worktree -- run both and confirm.
3. Save the change as {D}/{pid}_m<k>.diff (`git -C {wt} diff > ...`), then restore the worktree (`git -C {wt} checkout -- .`).
Leave the worktree clean at the end. Final report (short): for each mutation: the file/function changed, one sentence on why the tests do not notice, what exactly is needed for the violation to manifest, and the observed output of the demo on mutated vs clean tree. If after a serious attempt you cannot find {'as many' if K > 1 else 'one'}, deliver what you have and say so.
"""
    open(os.path.join(D, f'{pid}.prompt.txt'), 'w').write(prompt)
print('prepared', len(ids), 'in', D)
