"""coqeval: evaluate closed Gallina terms inside Coq (vm_compute) for the correspondence checks.

    from coqeval import coq_eval
    vals = coq_eval(['SZ.Model.Foo'], ['foo 3 4', 'bar [1;2]%Z'])      # -> list of strings, one per term

The harness writes a cases file, one `Eval vm_compute in (<term>).` per case (sharded, <= 400 cases per file,
shards compiled in parallel), and parses Coq's output. Values come back as Coq-printed text with all whitespace
runs collapsed to one blank; use `parse_z`, `parse_zlist`, `parse_bool` ... or compare text directly.
A term that fails to type-check makes the whole shard fail: coq_eval raises CoqEvalError with the log (a model that no
longer compiles is a broken correspondence, never a silent pass).
"""
import os, re, subprocess, tempfile, shutil, concurrent.futures

VERIF = os.path.dirname(os.path.dirname(os.path.abspath(__file__)))
COQ = os.path.join(VERIF, 'coq')


class CoqEvalError(Exception):
    pass


def _run_shard(args):
    idx, header, terms, workdir = args
    name = f'cases_{idx}'
    path = os.path.join(workdir, name + '.v')
    with open(path, 'w') as f:
        f.write(header)
        f.write('Set Printing Width 1000000.\nSet Printing Depth 1000000.\n')
        for k, t in enumerate(terms):
            f.write(f'Definition case_{k} := Eval vm_compute in ({t}).\nPrint case_{k}.\n')
    env = dict(os.environ, OCAMLRUNPARAM='s=4M')
    p = subprocess.run(f'ulimit -s unlimited 2>/dev/null; timeout 1200 coqc -Q {COQ} SZ -Q {workdir} Cases {path}', shell=True, env=env,
                       stdout=subprocess.PIPE, stderr=subprocess.STDOUT, text=True)
    if p.returncode != 0:
        raise CoqEvalError(f'coqc failed on shard {idx}:\n' + p.stdout[-3000:])
    out = p.stdout
    vals = []
    # "case_k = VALUE\n     : TYPE"
    parts = re.split(r'^case_(\d+) =', out, flags=re.M)
    got = {}
    for i in range(1, len(parts), 2):
        k = int(parts[i])
        body = parts[i + 1]
        # the type annotation starts at the last "\n     : " of the body
        m = list(re.finditer(r'\n\s+: ', body))
        if m:
            body = body[:m[-1].start()]
        got[k] = re.sub(r'\s+', ' ', body).strip()
    for k in range(len(terms)):
        if k not in got:
            raise CoqEvalError(f'no output for case {k} of shard {idx}:\n' + out[-2000:])
        vals.append(got[k])
    return vals


def coq_eval(requires, terms, shard=400, jobs=8, preamble=''):
    """requires: list of logical module names (e.g. 'SZ.Model.Hash'); terms: list of Gallina term strings."""
    if not terms:
        return []
    header = 'From Coq Require Import ZArith List Bool String.\nImport ListNotations.\nOpen Scope Z_scope.\n'
    for r in requires:
        header += f'Require Import {r}.\n'
    header += preamble + '\n'
    base = '/dev/shm' if os.path.isdir('/dev/shm') else '/var/tmp'
    workdir = tempfile.mkdtemp(prefix='szv_cases_', dir=base)
    try:
        shards = [(i, header, terms[s:s + shard], workdir) for i, s in enumerate(range(0, len(terms), shard))]
        with concurrent.futures.ThreadPoolExecutor(max_workers=jobs) as ex:
            res = list(ex.map(_run_shard, shards))
        return [v for r in res for v in r]
    finally:
        shutil.rmtree(workdir, ignore_errors=True)


# ---- parsing of printed values -------------------------------------------------------------------------------
def parse_z(s):
    s = s.strip()
    s = re.sub(r'%[A-Za-z]+', '', s)
    s = s.replace('(', ' ').replace(')', ' ').replace(' ', '')
    return int(s)


def parse_bool(s):
    return s.strip() == 'true'


def _split_top(s, sep):
    out, depth, cur = [], 0, ''
    for ch in s:
        if ch in '([':
            depth += 1
        elif ch in ')]':
            depth -= 1
        if ch == sep and depth == 0:
            out.append(cur)
            cur = ''
        else:
            cur += ch
    out.append(cur)
    return out


def parse_value(s):
    """generic: Coq lists -> python lists, tuples -> tuples, integers -> int, true/false -> bool, other -> str
    (constructor applications stay strings, e.g. 'Return 3' or 'Raise IndexError')."""
    s = re.sub(r'%[A-Za-z]+', '', s.strip())
    while s.startswith('(') and s.endswith(')') and _balanced(s[1:-1]):
        inner = s[1:-1]
        parts = _split_top(inner, ',')
        if len(parts) > 1:
            return tuple(parse_value(p) for p in parts)
        s = inner.strip()
    if s.startswith('[') and s.endswith(']') and _balanced(s[1:-1]):
        inner = s[1:-1].strip()
        if not inner:
            return []
        return [parse_value(p) for p in _split_top(inner, ';')]
    if s == 'true':
        return True
    if s == 'false':
        return False
    t = s.replace(' ', '')
    if re.fullmatch(r'-?\d+', t):
        return int(t)
    if re.fullmatch(r'-\(?\d+\)?', t):
        return -int(re.sub(r'[^\d]', '', t))
    parts = _split_top(s, ',')
    if len(parts) > 1:
        return tuple(parse_value(p) for p in parts)
    return s


def _balanced(s):
    d = 0
    for ch in s:
        if ch in '([':
            d += 1
        elif ch in ')]':
            d -= 1
            if d < 0:
                return False
    return d == 0


def zlit(n):
    """Python int -> Coq Z literal"""
    return f'({n})' if n < 0 else str(n)


def zlist(xs):
    return '[' + '; '.join(zlit(int(x)) for x in xs) + ']'


if __name__ == '__main__':
    print(coq_eval([], ['1 + 2', '[1; 2; -3]', '(1, true, [(2,3)])', 'Some (-4)']))
    print([parse_value(v) for v in coq_eval([], ['1 + 2', '[1; 2; -3]', '(1, true, [(2,3)])'])])
