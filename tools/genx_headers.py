"""genx_headers.py -- plug-in generator for C04 (trace-header / file-header preservation): coq/Gen/Headers.v.

Fail-closed `ast` extraction.  Every function the header path depends on is matched, statement by statement, against a
TEMPLATE written here (a Python source text).  Identifiers of the form  H_<name>  in a template are holes: they capture the
expression found at that place, which is then translated to Gallina by a small expression translator that knows only
integer constants, named integers, + - * // %, unary minus, comparisons, and/or/not and a fixed list of recognised
sub-expressions (e.g. `len(stored_header_keys)` is the variable `k`).  A template statement `ANY_BLOCK` matches the rest
of a statement list (used for branches that do not concern SEG-Y/NumPy headers, e.g. ZGY).  Everything else must agree
with the template node for node; any difference raises (the target `Headers` is then reported as a translation failure
and every C04 theorem that depends on it is not re-established).

What is extracted (see the comments in the generated file):
  headers.py          table entries written per class, classification predicates, duplicate search predicate, table codec
                      layout (89 x 3 x 4 bytes), get_header_array_count predicate, template decoding predicate and the
                      footer offset expression of get_header_dict
  conversion.py       detection-mode dispatch, 'thorough' re-classification rule and the two in-place patch offsets,
                      footer padding expressions of both writers, the NumPy route's ordering / int32 conversion (patched D15)
  conversion_utils.py header_entry_length expressions, positions of count/table/file header in the 8 kB header, header
                      capture arithmetic (start_trace, t_xl, t_il, t_store, planes_to_read, 2D trace id, irregular slot)
  read.py             reader stride, text/binary header slices, gen_trace_header guard / path choice / word offset,
                      mask rule and masking condition of read_variant_headers
"""
import ast, os

OUTPUTS = ['Headers']


class GenFail(Exception):
    pass


# --------------------------------------------------------------------------------------------------------------------
# source access
def _load(srcdir, mod):
    p = os.path.join(srcdir, mod + '.py')
    return ast.parse(open(p).read(), filename=p)


def _find_def(tree, qual):
    node = tree
    for part in qual.split('.'):
        found = [n for n in node.body if isinstance(n, (ast.FunctionDef, ast.ClassDef)) and n.name == part]
        if len(found) != 1:
            raise GenFail(f'{qual}: {len(found)} definitions of {part}')
        node = found[0]
    return node


def _strip_doc(body):
    if body and isinstance(body[0], ast.Expr) and isinstance(getattr(body[0], 'value', None), ast.Constant) \
            and isinstance(body[0].value.value, str):
        return body[1:]
    return body


def _consts(srcdir):
    out = {}
    for st in _load(srcdir, 'sgzconstants').body:
        if isinstance(st, ast.Assign) and len(st.targets) == 1 and isinstance(st.targets[0], ast.Name) \
                and isinstance(st.value, ast.Constant) and isinstance(st.value.value, int):
            out[st.targets[0].id] = st.value.value
    for k in ('DISK_BLOCK_BYTES', 'SEGY_FILE_HEADER_BYTES', 'SEGY_TEXT_HEADER_BYTES'):
        if k not in out:
            raise GenFail(f'sgzconstants.{k} is not an integer literal')
    return out


# --------------------------------------------------------------------------------------------------------------------
# template matching
def _is_any_block(st):
    return isinstance(st, ast.Expr) and isinstance(st.value, ast.Name) and st.value.id == 'ANY_BLOCK'


def _match(t, a, holes, where):
    """t: template node, a: actual node"""
    if isinstance(t, ast.Name) and t.id.startswith('H_'):
        if t.id in holes and ast.dump(holes[t.id]) != ast.dump(a):
            raise GenFail(f'{where}: hole {t.id} bound to two different expressions')
        holes[t.id] = a
        return
    if type(t) is not type(a):
        raise GenFail(f'{where}: expected {type(t).__name__}, found {type(a).__name__} at line {getattr(a, "lineno", "?")}')
    for field, tv in ast.iter_fields(t):
        if field in ('lineno', 'col_offset', 'end_lineno', 'end_col_offset', 'ctx', 'type_comment', 'kind'):
            continue
        av = getattr(a, field, None)
        if isinstance(tv, list):
            _match_list(tv, av, holes, where, field)
        elif isinstance(tv, ast.AST):
            if not isinstance(av, ast.AST):
                raise GenFail(f'{where}: field {field} missing at line {getattr(a, "lineno", "?")}')
            _match(tv, av, holes, where)
        else:
            if tv != av:
                raise GenFail(f'{where}: {type(t).__name__}.{field} is {av!r}, expected {tv!r} (line {getattr(a, "lineno", "?")})')


def _match_list(tl, al, holes, where, field):
    if not isinstance(al, list):
        raise GenFail(f'{where}: field {field} is not a list')
    if field in ('body', 'orelse', 'finalbody'):
        al = _strip_doc(al) if field == 'body' else al
        if tl and _is_any_block(tl[-1]):
            if len(al) < len(tl) - 1:
                raise GenFail(f'{where}: statement list too short')
            al = al[:len(tl) - 1]
            tl = tl[:-1]
    if len(tl) != len(al):
        ln = getattr(al[0], 'lineno', '?') if al else '?'
        raise GenFail(f'{where}: {field} has {len(al)} elements, expected {len(tl)} (near line {ln})')
    for x, y in zip(tl, al):
        if isinstance(x, ast.AST):
            _match(x, y, holes, where)
        elif x != y:
            raise GenFail(f'{where}: {field} element {y!r}, expected {x!r}')


def match_function(tree, qual, template, where=None):
    """the function `qual` of module tree must equal the template (a source text of the complete def) up to holes"""
    f = _find_def(tree, qual)
    t = ast.parse(template).body[0]
    holes = {}
    _match(t, f, holes, where or qual)
    return holes


def match_unique_stmt(body, template, where):
    """exactly one top-level statement of `body` matches the template; return its holes"""
    t = ast.parse(template).body[0]
    hits = []
    for st in body:
        h = {}
        try:
            _match(t, st, h, where)
            hits.append(h)
        except GenFail:
            pass
    if len(hits) != 1:
        raise GenFail(f'{where}: {len(hits)} statements match the expected form `{template.strip().splitlines()[0]} ...`')
    return hits[0]


def assigned_names_targets(body, target_src):
    """all statements anywhere under body that assign to target_src (to check that a matched statement is the only writer)"""
    want = _dump(ast.parse(target_src).body[0].value)
    n = 0
    for st in body:
        for node in ast.walk(st):
            if isinstance(node, (ast.Assign, ast.AugAssign)):
                tg = node.targets if isinstance(node, ast.Assign) else [node.target]
                for x in tg:
                    for y in ast.walk(x):
                        if isinstance(y, ast.expr) and _dump(y) == want:
                            n += 1
    return n


def _dump(node):
    return ast.dump(node).replace('ctx=Store()', 'ctx=Load()').replace('ctx=Del()', 'ctx=Load()')


# --------------------------------------------------------------------------------------------------------------------
# expression translation
class Tr:
    def __init__(self, consts, subst=None, names=None):
        self.consts = consts
        self.subst = [(_dump(ast.parse(s).body[0].value), v) for s, v in (subst or {}).items()]
        self.names = names or {}

    def z(self, e):
        d = _dump(e)
        for pat, v in self.subst:
            if d == pat:
                return v
        if isinstance(e, ast.Constant) and isinstance(e.value, int) and not isinstance(e.value, bool):
            return str(e.value) if e.value >= 0 else f'({e.value})'
        if isinstance(e, ast.Name):
            if e.id in self.names:
                return self.names[e.id]
            if e.id in self.consts:
                return str(self.consts[e.id])
            raise GenFail(f'unknown name {e.id}')
        if isinstance(e, ast.UnaryOp) and isinstance(e.op, ast.USub):
            return f'(- {self.z(e.operand)})'
        if isinstance(e, ast.BinOp):
            op = {ast.Add: '+', ast.Sub: '-', ast.Mult: '*', ast.FloorDiv: '/', ast.Mod: 'mod'}.get(type(e.op))
            if op is None:
                raise GenFail(f'unsupported operator {type(e.op).__name__}')
            return f'({self.z(e.left)} {op} {self.z(e.right)})'
        raise GenFail(f'unsupported integer expression {ast.unparse(e)}')

    def b(self, e):
        d = _dump(e)
        for pat, v in self.subst:
            if d == pat:
                return v
        if isinstance(e, ast.Name) and e.id in self.names:
            return self.names[e.id]
        if isinstance(e, ast.Compare):
            parts = []
            left = e.left
            for op, right in zip(e.ops, e.comparators):
                l, r = self.z(left), self.z(right)
                s = {ast.Eq: f'({l} =? {r})', ast.NotEq: f'(negb ({l} =? {r}))', ast.Lt: f'({l} <? {r})',
                     ast.LtE: f'({l} <=? {r})', ast.Gt: f'({l} >? {r})', ast.GtE: f'({l} >=? {r})'}.get(type(op))
                if s is None:
                    raise GenFail(f'unsupported comparison {type(op).__name__}')
                parts.append(s)
                left = right
            return parts[0] if len(parts) == 1 else '(' + ' && '.join(parts) + ')'
        if isinstance(e, ast.BoolOp):
            op = ' && ' if isinstance(e.op, ast.And) else ' || '
            return '(' + op.join(self.b(v) for v in e.values) + ')'
        if isinstance(e, ast.UnaryOp) and isinstance(e.op, ast.Not):
            return f'(negb {self.b(e.operand)})'
        raise GenFail(f'unsupported boolean expression {ast.unparse(e)}')

    def pair(self, e):
        if not (isinstance(e, ast.Tuple) and len(e.elts) == 2):
            raise GenFail(f'expected a 2-tuple, found {ast.unparse(e)}')
        return f'({self.z(e.elts[0])}, {self.z(e.elts[1])})'


def _int(e, consts=None, what='integer literal'):
    if isinstance(e, ast.Constant) and isinstance(e.value, int) and not isinstance(e.value, bool):
        return e.value
    if isinstance(e, ast.UnaryOp) and isinstance(e.op, ast.USub) and isinstance(e.operand, ast.Constant):
        return -e.operand.value
    if consts is not None:
        try:
            return int(eval(compile(ast.parse(ast.unparse(e), mode='eval'), '<c>', 'eval'), {'__builtins__': {}}, dict(consts)))
        except Exception:
            pass
    raise GenFail(f'expected {what}, found {ast.unparse(e)}')


# --------------------------------------------------------------------------------------------------------------------
# templates.  headers.py
T_INIT = '''
def __init__(self, n_traces, seismicfile=None, variant_header_list=None, variant_header_dict=None,
             header_detection=None, buffer=None):
    if sum([_ is not None for _ in [seismicfile, variant_header_list, variant_header_dict, buffer]]) != 1:
        raise RuntimeError("Must specify at least one of seismicfile and variant_header_list for constructor")
    self.header_detection = header_detection
    self.table = {self._get_hw_code(hw): H_default for hw in segyio.segy.Field(bytearray(240), kind='trace')}
    if seismicfile is not None:
        self.seismicfile = seismicfile
        if self.seismicfile.filetype in [Filetype.SEGY, Filetype.VDS]:
            self.unique_variant_nonzero_header_words = self._get_unique_headerwords()
            self.duplicate_header_words = self._find_duplicated_headerwords()
            for hw in self.seismicfile.header[0]:
                if hw in self._get_invariant_nonzero_headerwords():
                    self.table[self._get_hw_code(hw)] = H_invariant
                if hw in self.unique_variant_nonzero_header_words:
                    self.table[self._get_hw_code(hw)] = H_unique
                elif hw in self.duplicate_header_words.keys():
                    self.table[self._get_hw_code(hw)] = H_duplicate
            self.headers_dict = collections.OrderedDict.fromkeys(self.unique_variant_nonzero_header_words)
            for k in self.unique_variant_nonzero_header_words:
                self.headers_dict[k] = np.zeros(n_traces, dtype=np.int32)
        elif seismicfile.filetype == Filetype.ZGY:
            ANY_BLOCK
        else:
            raise RuntimeError("Only SEG-Y and ZGY files supported for header generation")
    elif variant_header_list is not None:
        self.unique_variant_nonzero_header_words = variant_header_list
        for hw in variant_header_list:
            self.table[self._get_hw_code(hw)] = H_listed
        self.headers_dict = collections.OrderedDict.fromkeys(self.unique_variant_nonzero_header_words)
        for k in self.unique_variant_nonzero_header_words:
            self.headers_dict[k] = np.zeros(n_traces, dtype=np.int32)
    elif variant_header_dict is not None:
        self.unique_variant_nonzero_header_words = variant_header_dict.keys()
        for hw in variant_header_dict.keys():
            self.table[self._get_hw_code(hw)] = H_dict
        self.headers_dict = variant_header_dict
    elif buffer is not None:
        template = [tuple((bytes_to_signed_int(buffer[H_declo:H_dechi])
                           for j in range(H_j0, H_j1, H_jstep))) for i in range(H_nentries)]
        for hv in template:
            self.table[hv[H_ka]] = (hv[H_kb], hv[H_kc])
'''
T_GET_HEADER_DICT = '''
def get_header_dict(self, n_header_arrays, n_header_blocks, compressed_data_diskblocks, padded_header_entry_length_bytes):
    header_dict = {}
    stored_header_keys = []
    for k, v in self.table.items():
        tf = segyio.tracefield.TraceField(k)
        if H_isinv:
            header_dict[tf] = v[0]
        elif segyio.tracefield.TraceField(v[1]) in header_dict.keys():
            header_dict[tf] = header_dict[segyio.tracefield.TraceField(v[1])]
        else:
            header_dict[tf] = FileOffset(H_offset)
            stored_header_keys.append(tf)
    assert(len(stored_header_keys) == n_header_arrays)
    return header_dict
'''
T_UPDATE = '''
def update_table(self, key, new_value):
    self.table[key] = new_value
'''
T_TO_LIST = '''
def to_list(self):
    return [(key, value[0], value[1]) for key, value in self.table.items()]
'''
T_TO_BUFFER = '''
def to_buffer(self):
    buf = bytearray(H_buflen)
    for i, hw_info in enumerate(self.to_list()):
        start = H_start
        buf[start + H_o0:start + H_e0] = signed_int_to_bytes(hw_info[H_c0])
        buf[start + H_o1:start + H_e1] = signed_int_to_bytes(hw_info[H_c1])
        buf[start + H_o2:start + H_e2] = signed_int_to_bytes(hw_info[H_c2])
    return buf
'''
T_COUNT = '''
def get_header_array_count(self):
    return sum(H_stored for hw in self.to_list())
'''
T_HWCODE = '''
@staticmethod
def _get_hw_code(hw):
    return segyio.tracefield.keys[str(segyio.tracefield.TraceField(hw))]
'''
T_FIRST_LAST = '''
def _get_first_last_headers(self):
    return self.seismicfile.header[0].items(), self.seismicfile.header[H_lastidx].items()
'''
T_NONZERO = '''
def _get_nonzero_headerwords(self):
    return [k for k, v in self.seismicfile.header[0].items() if H_nonzero]
'''
T_INVARIANT = '''
def _get_invariant_headerwords(self):
    first_header, last_header = self._get_first_last_headers()
    return [k1 for (k1, v1), (kl, vl) in zip(first_header, last_header) if H_inv]
'''
T_VARIANT = '''
def _get_variant_headerwords(self):
    first_header, last_header = self._get_first_last_headers()
    return [k1 for (k1, v1), (kl, vl) in zip(first_header, last_header) if H_var]
'''
T_INV_NONZERO = '''
def _get_invariant_nonzero_headerwords(self):
    return [header_word for header_word in self._get_nonzero_headerwords()
            if header_word in self._get_invariant_headerwords()]
'''
T_FIND_DUP = '''
def _find_duplicated_headerwords(self):
    variant_nonzero_header_words = self._get_variant_headerwords()
    first_header, last_header = self.seismicfile.header[0], self.seismicfile.header[H_lastidx]
    hw_mappings = {}
    for i, hw in enumerate(variant_nonzero_header_words):
        for hw2 in variant_nonzero_header_words[:i]:
            if H_same:
                hw_mappings[hw] = hw2
                break
    return hw_mappings
'''
T_UNIQUE = '''
def _get_unique_headerwords(self):
    variant_header_words = self._get_variant_headerwords()
    duplicate_header_words = self._find_duplicated_headerwords()
    for i, hw in enumerate(variant_header_words):
        if hw in duplicate_header_words.keys():
            variant_header_words[i] = duplicate_header_words[hw]
    variant_header_words = list(set(variant_header_words))
    variant_header_word_codes = [self._get_hw_code(header_words) for header_words in variant_header_words]
    return [x for _, x in sorted(zip(variant_header_word_codes, variant_header_words))]
'''
# conversion.py
T_BLANK = '''
def get_blank_header_info(self, seismic, header_detection):
    first_il_header_val = seismic.header[0][segyio.tracefield.TraceField.INLINE_3D]
    n_traces = seismic.tracecount if seismic.structured or first_il_header_val == 0 else 0
    if seismic.structured and not self.is_2d:
        n_traces = H_reglen
    if header_detection == 'heuristic':
        header_info = HeaderwordInfo(n_traces=n_traces, seismicfile=seismic, header_detection=header_detection)
        if seismic.filetype == Filetype.ZGY:
            ANY_BLOCK
        return header_info
    elif header_detection in ['thorough', 'exhaustive']:
        return HeaderwordInfo(n_traces=n_traces, variant_header_list=segyio.TraceField.enums()[H_lo:H_hi],
                              header_detection=header_detection)
    elif header_detection == 'strip':
        return HeaderwordInfo(n_traces=n_traces, variant_header_list=[], header_detection=header_detection)
    else:
        raise NotImplementedError(H_msg)
'''
T_WRITE_HEADERS = '''
@staticmethod
def write_headers(header_detection, header_info, out_filehandle):
    if header_detection == 'thorough':
        for hw in list(header_info.headers_dict.keys()):
            if np.all(header_info.headers_dict[hw] == header_info.headers_dict[hw][0]):
                header_info.update_table(hw, H_const)
                del header_info.headers_dict[hw]
        with open(out_filehandle.name, 'r+b') as f:
            f.seek(H_seek_count)
            f.write(int_to_bytes(header_info.get_header_array_count()))
            f.seek(H_seek_table)
            f.write(header_info.to_buffer())
    if header_detection != 'strip':
        for header_array in header_info.headers_dict.values():
            out_filehandle.write(header_array.tobytes() + bytes(H_pad))
'''
T_NP_WRITE_HEADERS = '''
@staticmethod
def write_headers(header_info, out_filehandle):
    for header_array in header_info.headers_dict.values():
        out_filehandle.write(header_array.tobytes() + bytes(H_pad))
'''
T_RUN_TAIL = '''
with open(out_filename, 'wb') as out_file:
    hash_bytes = run_conversion_loop(seismic, out_file, bits_per_voxel, blockshape, header_info, self.geom,
                                     queue_size=max_queue_length, reduce_iops=reduce_iops, store_headers=store_headers)
    self.write_headers(header_detection, header_info, out_file)
    self.write_hash(hash_bytes, out_file)
'''
T_NP_INIT = '''
def __init__(self, data_array, ilines=None, xlines=None, samples=None, trace_headers={}):
    self.geom = None
    if segyio.tracefield.TraceField.INLINE_3D in trace_headers:
        self.ilines = trace_headers[segyio.tracefield.TraceField.INLINE_3D][:, 0]
        if ilines is not None:
            assert np.array_equal(self.ilines, ilines)
    else:
        self.ilines = np.arange(data_array.shape[0]) if ilines is None else ilines
    if segyio.tracefield.TraceField.CROSSLINE_3D in trace_headers:
        self.xlines = trace_headers[segyio.tracefield.TraceField.CROSSLINE_3D][0, :]
        if xlines is not None:
            assert np.array_equal(self.xlines, xlines)
    else:
        self.xlines = np.arange(data_array.shape[1]) if xlines is None else xlines
    self.samples = 4*np.arange(data_array.shape[2]) if samples is None else samples
    self.trace_headers = collections.OrderedDict(sorted(trace_headers.items()))
    shape = (len(self.ilines), len(self.xlines))
    tf_il = segyio.tracefield.TraceField.INLINE_3D
    tf_xl = segyio.tracefield.TraceField.CROSSLINE_3D
    if tf_il not in self.trace_headers:
        self.trace_headers[tf_il] = np.broadcast_to(np.expand_dims(self.ilines, 1), shape)
    if tf_xl not in self.trace_headers:
        self.trace_headers[tf_xl] = np.broadcast_to(self.xlines, shape)
    assert data_array.dtype == np.float32
    assert data_array.shape == (len(self.ilines), len(self.xlines), len(self.samples))
    for tracefield, header_array in self.trace_headers.items():
        assert tracefield in segyio.tracefield.keys.values()
        assert header_array.shape == data_array[:, :, 0].shape
    self.trace_headers = collections.OrderedDict(
        (tracefield, header_array.astype(np.int32))
        for tracefield, header_array in sorted(self.trace_headers.items()))
    self.data_array = data_array
'''
T_NP_RUN = '''
def run(self, out_filename, bits_per_voxel=4, blockshape=(4, 4, -1)):
    bits_per_voxel, blockshape = define_blockshape_3d(bits_per_voxel, blockshape)
    self.geom = Geometry3d(0, len(self.ilines), 0, len(self.xlines))
    input_cube = CubeWithAxes(self.data_array, self.ilines, self.xlines, self.samples)
    header_info = HeaderwordInfo(n_traces=len(self.ilines)*len(self.xlines), variant_header_dict=self.trace_headers)
    with open(out_filename, 'wb') as out_filehandle:
        hash_bytes = run_conversion_loop(input_cube, out_filehandle, bits_per_voxel, blockshape, header_info, self.geom)
        self.write_headers(header_info, out_filehandle)
        self.write_hash(hash_bytes, out_filehandle)
'''
# conversion_utils.py
T_MK_SEISMIC = '''
def make_header_seismic_file(seismicfile, bits_per_voxel, blockshape, geom, header_info):
    buffer = make_header(seismicfile.ilines, seismicfile.xlines, seismicfile.samples, seismicfile.tracecount,
                         header_info, bits_per_voxel, blockshape, geom, unstructured=seismicfile.unstructured)
    if seismicfile.filetype == Filetype.SEGY:
        with open(seismicfile.filename, "rb") as f:
            segy_file_header = f.read(H_readlen)
            buffer[H_lo:H_hi] = segy_file_header
    elif seismicfile.filetype == Filetype.ZGY:
        ANY_BLOCK
    buffer[H_a0:H_a1] = int_to_bytes(seismicfile.filetype.value)
    buffer[H_b0:H_b1] = int_to_bytes(HEADER_DETECTION_CODES[header_info.header_detection])
    return buffer
'''
T_HEL = '''
if isinstance(geom, Geometry2d):
    header_entry_length_bytes = H_hel2d
else:
    header_entry_length_bytes = H_hel3d
'''
T_IO_3D = '''
def io_thread_func(blockshape, store_headers, headers_dict, geom, plane_set_id, planes_to_read,
                   seismic_buffer, seismicfile, minimal_il_reader, trace_length):
    for i in range(blockshape[0]):
        headers = []
        start_trace = H_start_trace
        if i < planes_to_read:
            if minimal_il_reader is not None:
                headers, seismic_buffer[i, 0:len(geom.xlines), 0:trace_length] \\
                    = minimal_il_reader.read_line(plane_set_id * blockshape[0] + i)
            else:
                seismic_buffer[i, 0:len(geom.xlines), 0:trace_length] = np.asarray(
                    seismicfile.iline[seismicfile.ilines[geom.ilines[0] + plane_set_id * blockshape[0] + i]]
                )[geom.xlines[0]:geom.xlines[-1]+1, :]
                if store_headers:
                    headers = seismicfile.header[start_trace: start_trace + len(geom.xlines)]
            if store_headers:
                for t, header in enumerate(headers, start_trace):
                    t_xl, t_il = H_t_xl, H_t_il
                    t_store = H_t_store
                    for tracefield, array in headers_dict.items():
                        array[t_store] = header[tracefield]
        else:
            ANY_BLOCK
        ANY_BLOCK
'''
T_IO_2D = '''
def io_thread_func_2d(blockshape, store_headers, headers_dict, trace_group_id,
                      traces_to_read, seismic_buffer, seismicfile, trace_length):
    for i in range(blockshape[1]):
        if i < traces_to_read:
            trace_id = H_trace_id
            seismic_buffer[i, 0:trace_length] = np.asarray(seismicfile.trace[trace_id])
            if store_headers:
                for tracefield, array in headers_dict.items():
                    array[trace_id] = seismicfile.header[trace_id][tracefield]
        else:
            ANY_BLOCK
        ANY_BLOCK
'''
T_IO_IRR = '''
def unstructured_io_thread_func(blockshape, store_headers, headers_dict, geom, plane_set_id,
                                segy_buffer, segyfile, trace_length):
    for i in range(blockshape[0]):
        for xl_id, xl_num in enumerate(geom.xlines):
            index = (H_il_number, xl_num)
            if index in geom.traces_ref:
                trace_id = geom.traces_ref[index]
                trace, header = segyfile.trace[trace_id], segyfile.header[trace_id]
                segy_buffer[i, xl_id, 0:trace_length] = trace
                t_store = H_t_store
                if store_headers:
                    for tracefield, array in headers_dict.items():
                        array[t_store] = header[tracefield]
'''
T_PLANES = '''
if (plane_set_id+1)*blockshape[0] > n_ilines:
    planes_to_read = H_rem
else:
    planes_to_read = H_full
'''
T_TRACES = '''
if (trace_group_id+1)*blockshape[1] > n_traces:
    traces_to_read = H_rem
else:
    traces_to_read = H_full
'''
T_IRR_ALLOC = '''
if isinstance(geom, InferredGeometry3d):
    for tracefield, array in headers_dict.items():
        headers_dict[tracefield] = np.zeros(H_len, dtype=np.int32)
'''
# read.py
T_RD_STRIDE = '''
if self.file_version > SeismicZfpVersion("0.2.1"):
    self.tracecount = bytes_to_int(self.headerbytes[68:72])
    self.padded_header_entry_length_bytes = H_padded
else:
    self.tracecount = self.n_ilines * self.n_xlines
    self.padded_header_entry_length_bytes = self.header_entry_length_bytes
'''
T_RD_STRUCT = '''
if self.is_2d:
    self.structured = False
else:
    self.structured = H_structured
'''
T_RD_DECODE = '''
def _decode_traceheader_template(self):
    raw_template = self.headerbytes[H_lo:H_hi]
    self.hw_info = HeaderwordInfo(self.tracecount, buffer=raw_template)
    return self.hw_info.get_header_dict(self.n_header_arrays, self.n_header_blocks, self.compressed_data_diskblocks,
                                        self.padded_header_entry_length_bytes)
'''
T_RD_SIZES = '''
def _parse_data_sizes(self):
    compressed_data_diskblocks = bytes_to_int(self.headerbytes[H_a0:H_a1])
    header_entry_length_bytes = bytes_to_int(self.headerbytes[H_b0:H_b1])
    n_header_arrays = bytes_to_int(self.headerbytes[H_c0:H_c1])
    return compressed_data_diskblocks, header_entry_length_bytes, n_header_arrays
'''
T_RD_GEN = '''
def gen_trace_header(self, index, load_all_headers=False):
    if not H_guard:
        raise IndexError(self.range_error.format(index, 0, self.tracecount))
    header = self.segy_traceheader_template.copy()
    for k, v in header.items():
        if isinstance(v, FileOffset):
            if H_viaarrays:
                self._load_variant_headers(False)
                header[k] = self.variant_headers[k][index]
            else:
                buf = self.file.read_range(self.file, H_wordoff, H_wordlen)
                header[k] = np.frombuffer(buf, dtype=np.int32)[0]
    return header
'''
# the D42 repair: header words that alias one stored array are read once per call (same value either way)
T_RD_GEN_MEMO = '''
def gen_trace_header(self, index, load_all_headers=False):
    if not H_guard:
        raise IndexError(self.range_error.format(index, 0, self.tracecount))
    header = self.segy_traceheader_template.copy()
    words = {}
    for k, v in header.items():
        if isinstance(v, FileOffset):
            if H_viaarrays:
                self._load_variant_headers(False)
                header[k] = self.variant_headers[k][index]
            else:
                if v not in words:
                    buf = self.file.read_range(self.file, H_wordoff, H_wordlen)
                    words[v] = np.frombuffer(buf, dtype=np.int32)[0]
                header[k] = words[v]
    return header
'''
T_RD_VARIANT = '''
def read_variant_headers(self, include_padding=False, tracefields=None):
    if self.include_padding is None:
        self.include_padding = include_padding
    if not self.structured:
        assert self.include_padding == include_padding
    tracefild_list = self.segy_traceheader_template if tracefields is None else tracefields
    for k in tracefild_list:
        if k not in self.variant_headers:
            offset = self.segy_traceheader_template[k]
            if isinstance(offset, FileOffset) and k not in self.variant_headers:
                use_mask = H_usemask
                if use_mask:
                    self.get_unstructured_mask()
                buffer = self.file.read_range(self.file, offset, self.header_entry_length_bytes)
                values = np.frombuffer(buffer, dtype=np.int32)
                self.variant_headers[k] = values[self.mask] if use_mask else values
'''
T_RD_LOAD = '''
def _load_variant_headers(self, include_padding, tracefields=None):
    if not self.structured and self.include_padding not in (None, include_padding):
        self.clear_variant_headers()
    self.read_variant_headers(include_padding=include_padding, tracefields=tracefields)
'''
T_RD_CLEAR = '''
def clear_variant_headers(self):
    self.variant_headers.clear()
    self.include_padding = None
'''
T_RD_MASK = '''
def get_unstructured_mask(self):
    if self.mask is None:
        buffer = self.file.read_range(self.file, self.segy_traceheader_template[H_maskfield], self.header_entry_length_bytes)
        self.mask = H_maskrule
    else:
        pass
'''
T_RD_1D = '''
def get_tracefield_1d(self, tracefield):
    self._load_variant_headers(True, tracefields=[segyio.tracefield.TraceField(tracefield)])
    if tracefield not in self.variant_headers:
        values = np.full(H_filllen, self.segy_traceheader_template[tracefield], dtype=np.int32)
        if H_fillmask:
            self.get_unstructured_mask()
            values[~self.mask] = 0
        return values
    return self.variant_headers[tracefield]
'''
T_RD_VALUES = '''
def get_tracefield_values(self, tracefield):
    header_array = self.get_tracefield_1d(tracefield)
    if self.is_2d:
        return header_array
    else:
        return header_array.reshape((self.n_ilines, self.n_xlines))
'''
T_RD_BIN = '''
def get_file_binary_header(self):
    return segyio.segy.Field(self.file_binary_header, kind='binary')
'''
T_RD_TEXTSL = '''
self.file_text_header = self.headerbytes[H_lo:H_hi]
'''
T_RD_BINSL = '''
self.file_binary_header = self.headerbytes[H_lo:H_hi]
'''
T_RD_DATASTART = '''
self.data_start_bytes = self.n_header_blocks * DISK_BLOCK_BYTES
'''


def _defn(name, params, ty, body, comment=None):
    ps = ' '.join(f'({p} : {t})' for p, t in params)
    c = f'(* {comment} *)\n' if comment else ''
    return f'{c}Definition {name}{" " + ps if ps else ""} : {ty} := {body}.\n'


def generate(srcdir):
    C = _consts(srcdir)
    hd, cv, cu, rd = (_load(srcdir, m) for m in ('headers', 'conversion', 'conversion_utils', 'read'))
    out = []
    emit = out.append
    emit('(* GENERATED by tools/genx_headers.py from seismic_zfp/{headers,conversion,conversion_utils,read}.py -- do not edit.\n'
         '   Expressions, predicates and constants of the trace-header path; the statement structure around them was matched\n'
         '   against the templates in the generator (fail closed). *)\n'
         'From Coq Require Import ZArith List Bool.\nImport ListNotations.\nOpen Scope Z_scope.\n\n')

    # ------------------------------------------------------------------ headers.py
    H = 'HeaderwordInfo.'
    h = match_function(hd, H + '__init__', T_INIT)
    tr0 = Tr(C)
    emit('(* ---- headers.py: HeaderwordInfo.__init__ : the (value, reference) pair written to the table per class ---- *)\n')
    emit(_defn('hx_tbl_default', [], 'Z * Z', tr0.pair(h['H_default']), 'every field starts as'))
    tr = Tr(C, {'self.seismicfile.header[0][hw]': 'fv', 'self._get_hw_code(hw)': 'code',
                'self._get_hw_code(self.duplicate_header_words[hw])': 'tgt'})
    emit(_defn('hx_tbl_invariant', [('fv', 'Z')], 'Z * Z', tr.pair(h['H_invariant']),
               'hw in invariant-nonzero: fv = value in the first trace'))
    emit(_defn('hx_tbl_unique', [('code', 'Z')], 'Z * Z', tr.pair(h['H_unique']), 'hw in unique variant words'))
    emit(_defn('hx_tbl_duplicate', [('tgt', 'Z')], 'Z * Z', tr.pair(h['H_duplicate']),
               'elif hw is a duplicate: tgt = code of the word it duplicates'))
    emit(_defn('hx_tbl_listed', [('code', 'Z')], 'Z * Z', tr.pair(h['H_listed']), 'variant_header_list route (thorough / exhaustive / strip)'))
    emit(_defn('hx_tbl_dict', [('code', 'Z')], 'Z * Z', tr.pair(h['H_dict']), 'variant_header_dict route (NumPy)'))
    # table decoding in the buffer branch
    nent = _int(h['H_nentries'])
    j0, j1, js = _int(h['H_j0']), _int(h['H_j1']), _int(h['H_jstep'])
    trd = Tr(C, names={'i': 'i', 'j': 'j'})
    declo, dechi = trd.z(h['H_declo']), trd.z(h['H_dechi'])
    ka, kb, kc = _int(h['H_ka']), _int(h['H_kb']), _int(h['H_kc'])
    if sorted((ka, kb, kc)) != [0, 1, 2]:
        raise GenFail('table decode does not use the three words of an entry')
    # headers.py: remaining small functions
    g = match_function(hd, H + 'get_header_dict', T_GET_HEADER_DICT)
    trg = Tr(C, {'v[0]': 'v0', 'v[1]': 'v1', 'len(stored_header_keys)': 'k'},
             names={'n_header_blocks': 'nhb', 'compressed_data_diskblocks': 'ndb', 'padded_header_entry_length_bytes': 'padded'})
    match_function(hd, H + 'update_table', T_UPDATE)
    match_function(hd, H + 'to_list', T_TO_LIST)
    match_function(hd, H + '_get_hw_code', T_HWCODE)
    b = match_function(hd, H + 'to_buffer', T_TO_BUFFER)
    buflen = _int(b['H_buflen'])
    trs = Tr(C, names={'i': 'i'})
    start = trs.z(b['H_start'])
    offs = [(_int(b[f'H_o{n}']), _int(b[f'H_e{n}']), _int(b[f'H_c{n}'])) for n in range(3)]
    for o, e, c in offs:
        if e - o != 4:
            raise GenFail('table entry word is not 4 bytes')
    if sorted(c for _, _, c in offs) != [0, 1, 2]:
        raise GenFail('to_buffer does not write the three components of a row')
    cnt = match_function(hd, H + 'get_header_array_count', T_COUNT)
    trc = Tr(C, {'hw[0]': 'r0', 'hw[1]': 'r1', 'hw[2]': 'r2'})
    emit('\n(* ---- headers.py: table codec.  to_list row = (key, value[0], value[1]) = (r0, r1, r2) ---- *)\n')
    emit(_defn('hx_n_entries', [], 'Z', str(nent), 'entries decoded by the reader'))
    emit(_defn('hx_buf_len', [], 'Z', str(buflen), 'bytearray(...) allocated by to_buffer'))
    emit(_defn('hx_enc_start', [('i', 'Z')], 'Z', start, 'byte position of entry i in to_buffer'))
    emit(_defn('hx_enc_layout', [('r0', 'Z'), ('r1', 'Z'), ('r2', 'Z')], 'list (Z * Z)',
               '[' + '; '.join(f'({o}, r{c})' for o, e, c in offs) + ']',
               'to_buffer: (byte offset after the entry start, row component written there as a signed 32-bit LE word)'))
    emit(_defn('hx_dec_word_lo', [('i', 'Z'), ('j', 'Z')], 'Z', declo, 'decode: word j of entry i is buffer[lo:hi]'))
    emit(_defn('hx_dec_word_hi', [('i', 'Z'), ('j', 'Z')], 'Z', dechi))
    js_list = list(range(j0, j1, js))
    if len(js_list) != 3:
        raise GenFail('table decode does not read three words per entry')
    emit(_defn('hx_dec_js', [], 'list Z', '[' + '; '.join(map(str, js_list)) + ']', f'range({j0}, {j1}, {js})'))
    comp = {ka: 'w_key', kb: 'w_v0', kc: 'w_v1'}
    emit(_defn('hx_dec_entry', [('hv0', 'Z'), ('hv1', 'Z'), ('hv2', 'Z')], 'Z * (Z * Z)',
               f'(hv{ka}, (hv{kb}, hv{kc}))', 'self.table[hv[a]] = (hv[b], hv[c])'))
    emit(_defn('hx_is_stored', [('r0', 'Z'), ('r1', 'Z'), ('r2', 'Z')], 'bool', trc.b(cnt['H_stored']),
               'get_header_array_count: rows counted as stored arrays'))
    emit('\n(* ---- headers.py: get_header_dict (the reader\'s template): v = (v0, v1); k = len(stored_header_keys) ---- *)\n')
    emit(_defn('hx_tpl_invariant', [('v0', 'Z'), ('v1', 'Z')], 'bool', trg.b(g['H_isinv']), 'first branch: header_dict[tf] = v0'))
    emit(_defn('hx_tpl_offset', [('nhb', 'Z'), ('ndb', 'Z'), ('k', 'Z'), ('padded', 'Z')], 'Z', trg.z(g['H_offset']),
               'third branch: FileOffset(...) of a new stored array'))

    fl = match_function(hd, H + '_get_first_last_headers', T_FIRST_LAST)
    lastidx = _int(fl['H_lastidx'])
    nz = match_function(hd, H + '_get_nonzero_headerwords', T_NONZERO)
    iv = match_function(hd, H + '_get_invariant_headerwords', T_INVARIANT)
    vr = match_function(hd, H + '_get_variant_headerwords', T_VARIANT)
    match_function(hd, H + '_get_invariant_nonzero_headerwords', T_INV_NONZERO)
    fd = match_function(hd, H + '_find_duplicated_headerwords', T_FIND_DUP)
    if _int(fd['H_lastidx']) != lastidx:
        raise GenFail('first/last trace chosen differently in _find_duplicated_headerwords')
    match_function(hd, H + '_get_unique_headerwords', T_UNIQUE)
    trv = Tr(C, names={'v': 'v', 'v1': 'v1', 'vl': 'vl'})
    trf = Tr(C, {'first_header[hw]': 'f1', 'first_header[hw2]': 'f2', 'last_header[hw]': 'l1', 'last_header[hw2]': 'l2'})
    emit('\n(* ---- headers.py: classification from the first trace (index 0) and the last trace ---- *)\n')
    emit(_defn('hx_last_index', [], 'Z', f'({lastidx})' if lastidx < 0 else str(lastidx), 'header[...] of the "last" trace (Python index)'))
    emit(_defn('hx_cls_nonzero', [('v', 'Z')], 'bool', trv.b(nz['H_nonzero']), '_get_nonzero_headerwords: v = value in the first trace'))
    emit(_defn('hx_cls_invariant', [('v1', 'Z'), ('vl', 'Z')], 'bool', trv.b(iv['H_inv']), '_get_invariant_headerwords'))
    emit(_defn('hx_cls_variant', [('v1', 'Z'), ('vl', 'Z')], 'bool', trv.b(vr['H_var']), '_get_variant_headerwords'))
    emit(_defn('hx_cls_same', [('f1', 'Z'), ('l1', 'Z'), ('f2', 'Z'), ('l2', 'Z')], 'bool', trf.b(fd['H_same']),
               '_find_duplicated_headerwords: hw (f1,l1) duplicates the earlier variant word hw2 (f2,l2); first hit wins (break)'))

    # ------------------------------------------------------------------ conversion.py
    S = 'SeismicFileConverter.'
    bl = match_function(cv, S + 'get_blank_header_info', T_BLANK)
    lo, hi = _int(bl['H_lo']), _int(bl['H_hi'])
    wh = match_function(cv, S + 'write_headers', T_WRITE_HEADERS)
    trw = Tr(C, {'header_info.headers_dict[hw][0]': 'a0', 'len(header_array.tobytes())': 'len'})
    run = _find_def(cv, S + 'run')
    # the footer is written right after the conversion loop, by write_headers, before the hash patch
    withs = [st for st in ast.walk(run) if isinstance(st, ast.With)]
    tt = ast.parse(T_RUN_TAIL).body[0]
    ok = 0
    for w in withs:
        try:
            _match(tt, w, {}, S + 'run')
            ok += 1
        except GenFail:
            pass
    if ok != 1:
        raise GenFail('SeismicFileConverter.run: conversion loop / write_headers / write_hash sequence not recognised')
    emit('\n(* ---- conversion.py: detection modes.  heuristic -> HeaderwordInfo(seismicfile=...); thorough, exhaustive ->\n'
         '   variant_header_list = TraceField.enums()[lo:hi]; strip -> variant_header_list = [] (matched structurally) ---- *)\n')
    trbl = Tr(C, {'len(self.geom.ilines)': 'g_nil', 'len(self.geom.xlines)': 'g_nxl'})
    emit(_defn('hx_reg_array_len', [('g_nil', 'Z'), ('g_nxl', 'Z')], 'Z', trbl.z(bl['H_reglen']),
               'get_blank_header_info: elements per header array for a structured 3D source (geom = the window, or the whole file)'))
    emit(_defn('hx_list_lo', [], 'Z', str(lo)))
    emit(_defn('hx_list_hi', [], 'Z', str(hi)))
    emit(_defn('hx_thorough_const', [('a0', 'Z')], 'Z * Z', trw.pair(wh['H_const']),
               "thorough: a stored array with np.all(arr == arr[0]) becomes update_table(hw, ...), a0 = arr[0], and is deleted"))
    emit(_defn('hx_patch_count_at', [], 'Z', str(_int(wh['H_seek_count'])), 'thorough: f.seek(..) before writing get_header_array_count()'))
    emit(_defn('hx_patch_table_at', [], 'Z', str(_int(wh['H_seek_table'])), 'thorough: f.seek(..) before writing to_buffer()'))
    emit(_defn('hx_wr_pad', [('len', 'Z')], 'Z', trw.z(wh['H_pad']), 'SEG-Y route: zero bytes appended after each header array of len bytes'))
    nw = match_function(cv, 'NumpyConverter.write_headers', T_NP_WRITE_HEADERS)
    emit(_defn('hx_np_pad', [('len', 'Z')], 'Z', trw.z(nw['H_pad']), 'NumPy route: the same'))
    try:        # D36 repair: keys are checked against the 89 fields of the table
        match_function(cv, 'NumpyConverter.__init__', T_NP_INIT.replace(
            '''    for tracefield, header_array in self.trace_headers.items():
        assert tracefield in segyio.tracefield.keys.values()
''', '''    table_fields = [int(hw) for hw in segyio.segy.Field(bytearray(240), kind='trace')]
    for tracefield, header_array in self.trace_headers.items():
        assert int(tracefield) in table_fields
'''))
        np_keys_in_table = True
    except GenFail:
        match_function(cv, 'NumpyConverter.__init__', T_NP_INIT)
        np_keys_in_table = False
    match_function(cv, 'NumpyConverter.run', T_NP_RUN)
    emit('(* NumpyConverter.__init__ matched: OrderedDict(sorted(items)), defaults for 189 / 193 appended when absent, then\n'
         '   OrderedDict((tf, a.astype(np.int32)) for tf, a in sorted(items)): arrays are int32 and in ascending key order. *)\n'
         'Definition hx_np_sorted_int32 : bool := true.\n'
         '(* header keys asserted to be fields of the table (true) or merely members of segyio.tracefield.keys (false: 233 and\n'
         '   237 are accepted and the file written is unreadable, D36); the NumPy theorem assumes the keys are table fields *)\n'
         f'Definition hx_np_keys_in_table : bool := {"true" if np_keys_in_table else "false"}.\n'
         'Definition hx_np_default_il : Z := 189.\nDefinition hx_np_default_xl : Z := 193.\n')

    # ------------------------------------------------------------------ conversion_utils.py
    mk = _find_def(cu, 'make_header')
    body = _strip_doc(mk.body)
    hb = match_unique_stmt(body, 'header_blocks = H_n', 'make_header')
    hel = match_unique_stmt(body, T_HEL, 'make_header')
    helpos = match_unique_stmt(body, 'buffer[H_lo:H_hi] = int_to_bytes(header_entry_length_bytes)', 'make_header')
    cntpos = match_unique_stmt(body, 'buffer[H_lo:H_hi] = int_to_bytes(hw_info.get_header_array_count())', 'make_header')
    tblpos = match_unique_stmt(body, 'buffer[H_lo:H_hi] = hw_info.to_buffer()', 'make_header')
    match_unique_stmt(body, 'buffer = bytearray(DISK_BLOCK_BYTES * header_blocks)', 'make_header')
    match_unique_stmt(body, 'buffer[0:4] = int_to_bytes(header_blocks)', 'make_header')
    if assigned_names_targets(body, 'header_entry_length_bytes') != 2:
        raise GenFail('make_header: header_entry_length_bytes assigned elsewhere')
    trh = Tr(C, {'len(geom.xlines)': 'n_xl', 'len(geom.ilines)': 'n_il', 'len(geom.traces)': 'n_tr'})
    ms = match_function(cu, 'make_header_seismic_file', T_MK_SEISMIC)
    emit('\n(* ---- conversion_utils.py: make_header / make_header_seismic_file ---- *)\n')
    emit(_defn('hx_header_blocks', [], 'Z', str(_int(hb['H_n']))))
    emit(_defn('hx_hel_3d', [('n_xl', 'Z'), ('n_il', 'Z')], 'Z', trh.z(hel['H_hel3d']), 'bytes of one header array, 3D'))
    emit(_defn('hx_hel_2d', [('n_tr', 'Z')], 'Z', trh.z(hel['H_hel2d']), 'bytes of one header array, 2D'))
    for nm, hh in (('hel', helpos), ('count', cntpos), ('table', tblpos)):
        emit(_defn(f'hx_hdr_{nm}_lo', [], 'Z', str(_int(hh['H_lo'], C))))
        emit(_defn(f'hx_hdr_{nm}_hi', [], 'Z', str(_int(hh['H_hi'], C))))
    emit(_defn('hx_filehdr_read', [], 'Z', str(_int(ms['H_readlen'], C)), 'f.read(...) from the start of the SEG-Y file'))
    emit(_defn('hx_filehdr_lo', [], 'Z', str(_int(ms['H_lo'], C)), 'buffer[lo:hi] = those bytes'))
    emit(_defn('hx_filehdr_hi', [], 'Z', str(_int(ms['H_hi'], C))))
    emit(_defn('hx_hdr_later_writes', [], 'list (Z * Z)',
               f"[({_int(ms['H_a0'], C)}, {_int(ms['H_a1'], C)}); ({_int(ms['H_b0'], C)}, {_int(ms['H_b1'], C)})]",
               'slices of the header buffer assigned after the file header was copied'))
    io3 = match_function(cu, 'io_thread_func', T_IO_3D)
    tri = Tr(C, {'blockshape[0]': 'bs0', 'blockshape[1]': 'bs1', 'len(seismicfile.xlines)': 'sf_nxl', 'geom.xlines[0]': 'gx0',
                 'geom.ilines[0]': 'gi0', 'len(geom.xlines)': 'g_nxl', 'len(geom.ilines)': 'g_nil'},
             names={'plane_set_id': 'ps', 'i': 'i', 't': 't', 't_xl': 't_xl', 't_il': 't_il', 'trace_group_id': 'grp',
                    'xl_id': 'xl_id', 'n_ilines': 'n_il', 'n_traces': 'n_tr'})
    io2 = match_function(cu, 'io_thread_func_2d', T_IO_2D)
    ioi = match_function(cu, 'unstructured_io_thread_func', T_IO_IRR)
    prod = _find_def(cu, 'seismic_file_producer')
    loops = [st for st in _strip_doc(prod.body) if isinstance(st, ast.For)]
    if len(loops) != 1 or ast.unparse(loops[0].iter) != 'range(n_plane_sets)':
        raise GenFail('seismic_file_producer: plane-set loop not recognised')
    pl = match_unique_stmt(loops[0].body, T_PLANES, 'seismic_file_producer')
    alloc = match_unique_stmt(_strip_doc(prod.body), T_IRR_ALLOC, 'seismic_file_producer')
    match_unique_stmt(_strip_doc(prod.body), 'n_ilines, n_xlines, trace_length = len(geom.ilines), len(geom.xlines), len(seismicfile.samples)',
                      'seismic_file_producer')
    match_unique_stmt(_strip_doc(prod.body), 'n_plane_sets = padded_shape[0] // blockshape[0]', 'seismic_file_producer')
    prod2 = _find_def(cu, 'seismic_file_producer_2d')
    loops2 = [st for st in _strip_doc(prod2.body) if isinstance(st, ast.For)]
    if len(loops2) != 1 or ast.unparse(loops2[0].iter) != 'range(n_trace_groups)':
        raise GenFail('seismic_file_producer_2d: trace-group loop not recognised')
    tr2 = match_unique_stmt(loops2[0].body, T_TRACES, 'seismic_file_producer_2d')
    match_unique_stmt(_strip_doc(prod2.body), 'n_traces, trace_length = len(geom.traces), len(seismicfile.samples)', 'seismic_file_producer_2d')
    match_unique_stmt(_strip_doc(prod2.body), 'n_trace_groups = padded_shape[1] // blockshape[1]', 'seismic_file_producer_2d')
    emit('\n(* ---- conversion_utils.py: header capture while planes are read ---- *)\n')
    emit(_defn('hx_start_trace', [('ps', 'Z'), ('bs0', 'Z'), ('i', 'Z'), ('sf_nxl', 'Z'), ('gx0', 'Z'), ('gi0', 'Z')], 'Z', tri.z(io3['H_start_trace']),
               'io_thread_func: first source trace of plane i of plane set ps; headers = header[start_trace : start_trace + len(geom.xlines)]'))
    emit(_defn('hx_t_xl', [('t', 'Z'), ('sf_nxl', 'Z')], 'Z', tri.z(io3['H_t_xl'])))
    emit(_defn('hx_t_il', [('t', 'Z'), ('sf_nxl', 'Z')], 'Z', tri.z(io3['H_t_il'])))
    emit(_defn('hx_t_store', [('t_xl', 'Z'), ('t_il', 'Z'), ('gx0', 'Z'), ('gi0', 'Z'), ('g_nxl', 'Z')], 'Z', tri.z(io3['H_t_store']),
               'array[t_store] = header[tracefield]'))
    emit(_defn('hx_planes_to_read', [('ps', 'Z'), ('bs0', 'Z'), ('n_il', 'Z')], 'Z',
               f"if ((ps + 1) * bs0 >? n_il) then {tri.z(pl['H_rem'])} else {tri.z(pl['H_full'])}",
               'seismic_file_producer: planes i < planes_to_read are read (and their headers captured)'))
    emit(_defn('hx_trace_id_2d', [('grp', 'Z'), ('bs1', 'Z'), ('i', 'Z')], 'Z', tri.z(io2['H_trace_id']),
               'io_thread_func_2d: array[trace_id] = header[trace_id][tracefield]'))
    emit(_defn('hx_traces_to_read', [('grp', 'Z'), ('bs1', 'Z'), ('n_tr', 'Z')], 'Z',
               f"if ((grp + 1) * bs1 >? n_tr) then {tri.z(tr2['H_rem'])} else {tri.z(tr2['H_full'])}"))
    emit(_defn('hx_t_store_irr', [('xl_id', 'Z'), ('ps', 'Z'), ('bs0', 'Z'), ('i', 'Z'), ('g_nxl', 'Z')], 'Z', tri.z(ioi['H_t_store']),
               'unstructured_io_thread_func: grid slot of the trace found at (inline ps*bs0+i, crossline ordinal xl_id)'))
    emit(_defn('hx_irr_array_len', [('g_nil', 'Z'), ('g_nxl', 'Z')], 'Z', tri.z(alloc['H_len']), 'irregular: arrays re-allocated as zeros(...)'))

    # ------------------------------------------------------------------ read.py
    R = 'SgzReader.'
    init = _strip_doc(_find_def(rd, R + '__init__').body)
    st = match_unique_stmt(init, T_RD_STRIDE, R + '__init__')
    sc = match_unique_stmt(init, T_RD_STRUCT, R + '__init__')
    tx = match_unique_stmt(init, T_RD_TEXTSL, R + '__init__')
    bn = match_unique_stmt(init, T_RD_BINSL, R + '__init__')
    match_unique_stmt(init, T_RD_DATASTART, R + '__init__')
    match_unique_stmt(init, 'self.segy_traceheader_template = self._decode_traceheader_template()', R + '__init__')
    match_unique_stmt(init, 'self.compressed_data_diskblocks, self.header_entry_length_bytes, self.n_header_arrays = self._parse_data_sizes()',
                      R + '__init__')
    for tgt in ('self.padded_header_entry_length_bytes', 'self.structured', 'self.file_text_header', 'self.file_binary_header'):
        n = assigned_names_targets(init, tgt)
        if n != (2 if tgt in ('self.padded_header_entry_length_bytes', 'self.structured') else 1):
            raise GenFail(f'SgzReader.__init__: {tgt} assigned {n} times')
    dc = match_function(rd, R + '_decode_traceheader_template', T_RD_DECODE)
    sz = match_function(rd, R + '_parse_data_sizes', T_RD_SIZES)
    try:
        gn = match_function(rd, R + 'gen_trace_header', T_RD_GEN_MEMO)
    except GenFail:
        gn = match_function(rd, R + 'gen_trace_header', T_RD_GEN)
    vh = match_function(rd, R + 'read_variant_headers', T_RD_VARIANT)
    match_function(rd, R + '_load_variant_headers', T_RD_LOAD)     # = read_variant_headers(include_padding, tracefields) on a
    match_function(rd, R + 'clear_variant_headers', T_RD_CLEAR)    # cache that holds arrays of that padding mode only
    mk_ = match_function(rd, R + 'get_unstructured_mask', T_RD_MASK)
    f1d = match_function(rd, R + 'get_tracefield_1d', T_RD_1D)
    match_function(rd, R + 'get_tracefield_values', T_RD_VALUES)
    match_function(rd, R + 'get_file_binary_header', T_RD_BIN)
    trr = Tr(C, {'self.header_entry_length_bytes': 'hel', 'self.tracecount': 'tracecount', 'self.n_ilines': 'n_il',
                 'self.n_xlines': 'n_xl'},
             names={'index': 'index', 'v': 'v'})
    trb = Tr(C, {'self.structured': 'structured', 'self.is_3d': 'is_3d', 'self.include_padding': 'include_padding'},
             names={'load_all_headers': 'load_all'})
    emit('\n(* ---- read.py ---- *)\n')
    emit(_defn('hx_rd_padded', [('hel', 'Z')], 'Z', trr.z(st['H_padded']), 'stride between stored arrays (files newer than 0.2.1)'))
    emit(_defn('hx_rd_structured', [('tracecount', 'Z'), ('n_il', 'Z'), ('n_xl', 'Z')], 'bool', trr.b(sc['H_structured']), '3D files; 2D: False'))
    emit(_defn('hx_rd_table_lo', [], 'Z', str(_int(dc['H_lo'], C))))
    emit(_defn('hx_rd_table_hi', [], 'Z', str(_int(dc['H_hi'], C))))
    emit(_defn('hx_rd_hel_lo', [], 'Z', str(_int(sz['H_b0'], C))))
    emit(_defn('hx_rd_hel_hi', [], 'Z', str(_int(sz['H_b1'], C))))
    emit(_defn('hx_rd_count_lo', [], 'Z', str(_int(sz['H_c0'], C))))
    emit(_defn('hx_rd_count_hi', [], 'Z', str(_int(sz['H_c1'], C))))
    emit(_defn('hx_rd_text_lo', [], 'Z', str(_int(tx['H_lo'], C))))
    emit(_defn('hx_rd_text_hi', [], 'Z', str(_int(tx['H_hi'], C))))
    emit(_defn('hx_rd_bin_lo', [], 'Z', str(_int(bn['H_lo'], C))))
    emit(_defn('hx_rd_bin_hi', [], 'Z', str(_int(bn['H_hi'], C))))
    emit(_defn('hx_rd_index_ok', [('index', 'Z'), ('tracecount', 'Z')], 'bool', trr.b(gn['H_guard']), 'gen_trace_header: IndexError unless'))
    emit(_defn('hx_rd_via_arrays', [('load_all', 'bool'), ('structured', 'bool')], 'bool', trb.b(gn['H_viaarrays']),
               'gen_trace_header: read_variant_headers() then variant_headers[k][index]; otherwise one word is read'))
    emit(_defn('hx_rd_word_off', [('v', 'Z'), ('index', 'Z')], 'Z', trr.z(gn['H_wordoff']), 'read_range(file, ..., wordlen)'))
    emit(_defn('hx_rd_word_len', [], 'Z', str(_int(gn['H_wordlen']))))
    emit(_defn('hx_rd_use_mask', [('is_3d', 'bool'), ('structured', 'bool'), ('include_padding', 'bool')], 'bool', trb.b(vh['H_usemask']),
               'read_variant_headers: values[self.mask] if use_mask else values; values = hel bytes at the FileOffset as int32'))
    emit(_defn('hx_rd_fill_len', [('hel', 'Z')], 'Z', trr.z(f1d['H_filllen']),
               'get_tracefield_1d: a field that is not stored returns np.full(..., template[field])'))
    emit(_defn('hx_rd_fill_masked', [('is_3d', 'bool'), ('structured', 'bool')], 'bool', trb.b(f1d['H_fillmask']),
               'get_tracefield_1d: ... with values[~mask] = 0 when'))
    emit(_defn('hx_rd_mask_field', [], 'Z', str(_int(mk_['H_maskfield'])), 'get_unstructured_mask reads the array of this field'))
    mr = mk_['H_maskrule']
    if ast.unparse(mr) != 'np.frombuffer(buffer, dtype=np.int32) != 0':
        raise GenFail('mask rule not recognised: ' + ast.unparse(mr))
    emit(_defn('hx_rd_mask_rule', [('v', 'Z')], 'bool', '(negb (v =? 0))', 'mask = (array != 0)'))
    return {'Headers': ''.join(out)}


if __name__ == '__main__':
    import sys
    print(generate(sys.argv[1] if len(sys.argv) > 1 else '/repo/seismic_zfp')['Headers'])
