"""genx_openio.py -- plug-in generator for C07c (I/O cost of everything that is not one cold sample read): coq/Gen/OpenIO.v.

Fail-closed `ast` extraction (the matcher of genx_headers.py: a function / statement must equal a TEMPLATE written here node
for node; identifiers H_<name> in a template are holes that capture the expression found there, translated to Gallina by
a translator that knows integer constants, named integers, + - * // %, unary minus, comparisons and and/or/not; ANY_BLOCK
matches the rest of a statement list).  Anything not recognised raises: the target OpenIO is then a translation failure,
Gen/OpenIO.v is removed and Model/IOCost.v, Proofs/IOCost.v, Props/C07c.v no longer build.

What is extracted
  read.py   SgzReader.__init__       the two header reads (offset, length), the guard of the second one, the position of the
                                     loader construction and its arguments, the chunk-cache construction
            SgzReader.gen_trace_header   index guard, path choice, the single-word read (offset, length); whether the words of
                                     one call are memoised by file offset (the D42 repair) or re-read per header word
            SgzReader.get_trace      (3D branch) index guard, (il, xl), the chunk key handed to the chunk LRU
            SgzReader.read_correlated_diagonal / read_anticorrelated_diagonal   id guards, cropping guards, loop range,
                                     the trace ordinal of diagonal step d in each of the four branches
  loader.py SgzLoader.__init__       compressed_volume starts as None; preload => (memory check) load_compressed_volume()
            SgzLoader.load_compressed_volume   guard and the one range read
            SgzLoader._get_compressed_bytes    the short-circuit condition, the in-memory slice, the file read
  utils.py  read_range_file / read_range_blob / check_range_length: one backend request (offset, length) per range read
and a CENSUS: the only places of read.py / loader.py that touch the file object are the ones listed above plus
get_unstructured_mask and read_variant_headers (whole-array footer reads, not part of C07c); the methods __init__ calls
before / between / after its reads do not touch self.file or self.loader; compressed_volume is assigned nowhere else.
"""
import ast, os, sys

sys.path.insert(0, os.path.dirname(os.path.abspath(__file__)))
import genx_headers as gh
from genx_headers import GenFail, Tr, match_function, match_unique_stmt, _match, _load, _find_def, _strip_doc, _int, _defn

OUTPUTS = ['OpenIO']

# ---------------------------------------------------------------------------------------------------------- templates
# read.py: the statements of SgzReader.__init__ that follow the file/blob dispatch (the dispatch itself is statement 0)
T_OPEN_1 = 'self.headerbytes = self.file.read_range(self.file, H_off1, H_len1)'
T_OPEN_CHECK = '''
if filetype_checking and self.headerbytes[0:2] == H_magic:
    msg = H_msg
    raise RuntimeError(msg)
'''
T_OPEN_NHB = 'self.n_header_blocks = bytes_to_int(self.headerbytes[H_lo:H_hi])'
T_OPEN_2 = '''
if H_guard2:
    self.headerbytes = self.file.read_range(self.file, H_off2, H_len2)
'''
T_LOADER_CTOR = '''
if self.is_2d:
    self.loader = SgzLoader2d(self.file, self.data_start_bytes, self.compressed_data_diskblocks,
                              self.shape_pad, self.blockshape, self.chunk_bytes, self.block_bytes,
                              self.unit_bytes, self.rate, self.local, preload)
else:
    self.loader = SgzLoader3d(self.file, self.data_start_bytes, self.compressed_data_diskblocks,
                              self.shape_pad, self.blockshape, self.chunk_bytes, self.block_bytes,
                              self.unit_bytes, self.rate, self.local, preload)
'''
T_CACHE_DEFAULT = '''
if chunk_cache_size is None:
    chunk_cache_size = get_chunk_cache_size(H_a0, H_a1)
'''
T_CACHE_WRAP = 'self._read_containing_chunk_cached = lru_cache(maxsize=chunk_cache_size)(self._read_containing_chunk)'
T_DATA_START = 'self.data_start_bytes = H_ds'
T_ASSERT_BLOCK = 'assert self.block_bytes == H_bb, H_msg'

T_GEN_PLAIN = '''
def gen_trace_header(self, index, load_all_headers=False):
    if not H_guard:
        raise IndexError(H_err)
    header = self.segy_traceheader_template.copy()
    for k, v in header.items():
        if isinstance(v, FileOffset):
            if H_viaarrays:
                self._load_variant_headers(False)
                header[k] = self.variant_headers[k][index]
            else:
                buf = self.file.read_range(self.file, H_wordoff, H_wordlen)
                header[k] = np.frombuffer(buf, dtype=np.int32)[0]
    return header
'''
# the D42 repair: one read per distinct file offset within a call
T_GEN_MEMO = '''
def gen_trace_header(self, index, load_all_headers=False):
    if not H_guard:
        raise IndexError(H_err)
    header = self.segy_traceheader_template.copy()
    words = {}
    for k, v in header.items():
        if isinstance(v, FileOffset):
            if H_viaarrays:
                self._load_variant_headers(False)
                header[k] = self.variant_headers[k][index]
            else:
                if v not in words:
                    buf = self.file.read_range(self.file, H_wordoff, H_wordlen)
                    words[v] = np.frombuffer(buf, dtype=np.int32)[0]
                header[k] = words[v]
    return header
'''
T_GET_TRACE = '''
def get_trace(self, index, min_sample_id=None, max_sample_id=None, override_unstructured_mapping=False):
    if self.is_2d:
        ANY_BLOCK
    else:
        if (not self.structured) and (not override_unstructured_mapping) and not 0 <= index < self.tracecount:
            raise IndexError(H_e0)
        if (not self.structured) and (not override_unstructured_mapping):
            self.get_unstructured_mask()
            index = int(np.arange(self.mask.shape[0])[self.mask != 0][index])
        if not H_index_ok:
            if platform.system() == 'Windows':
                print(H_haiku)
            raise IndexError(H_e1)
        il, xl = H_il, H_xl
        min_il = H_min_il
        min_xl = H_min_xl
        min_sample_id = 0 if min_sample_id is None else min_sample_id
        max_sample_id = self.n_samples if max_sample_id is None else max_sample_id
        if not H_samples_ok:
            raise IndexError(H_e2)
        min_z = H_min_z
        max_z = H_max_z
        chunk = self._read_containing_chunk_cached(H_k0, H_k1, H_k2, H_k3)
        trace = chunk[H_s0, H_s1, H_s2:H_s3]
        return trace
'''
T_CHUNK = '''
def _read_containing_chunk(self, ref_il, ref_xl, min_z, max_z):
    assert ref_il % self.blockshape[0] == 0
    assert ref_xl % self.blockshape[1] == 0
    assert min_z % self.blockshape[2] == 0
    assert max_z % self.blockshape[2] == 0
    return self.read_subvolume(ref_il, ref_il + self.blockshape[0],
                               ref_xl, ref_xl + self.blockshape[1],
                               min_z, max_z, access_padding=True, multithreading=False)
'''


def _diag_template(name, idn, pfx, lenfn, branch_hole):
    return f'''
def {name}(self, {idn}, min_{pfx}_idx=None, max_{pfx}_idx=None, min_sample_idx=None, max_sample_idx=None):
    if self.is_2d:
        raise WrongDimensionalityError(H_e0)
    if not H_id_ok:
        raise IndexError(H_e1)
    max_{pfx}_len = {lenfn}({idn}, self.n_ilines, self.n_xlines)
    if min_{pfx}_idx is None or max_{pfx}_idx is None:
        {pfx}_len = max_{pfx}_len
        min_{pfx}_idx = 0
    else:
        if not H_min_ok:
            raise IndexError(H_e2)
        if not H_max_ok:
            raise IndexError(H_e3)
        if not H_order_ok:
            raise IndexError(H_e4)
        {pfx}_len = H_len
    if min_sample_idx is None or max_sample_idx is None:
        {pfx} = np.zeros(({pfx}_len, self.n_samples))
    else:
        if not H_samples_ok:
            raise IndexError(H_e5)
        {pfx} = np.zeros(({pfx}_len, max_sample_idx - min_sample_idx))
    if {branch_hole}:
        for d in range(H_lo_a, H_hi_a):
            {pfx}[d - min_{pfx}_idx, :] = self.get_trace(H_idx_a, min_sample_id=min_sample_idx,
                                                   max_sample_id=max_sample_idx, override_unstructured_mapping=True)
    else:
        for d in range(H_lo_b, H_hi_b):
            {pfx}[d - min_{pfx}_idx, :] = self.get_trace(H_idx_b, min_sample_id=min_sample_idx,
                                                   max_sample_id=max_sample_idx, override_unstructured_mapping=True)
    return {pfx}
'''


T_CD = _diag_template('read_correlated_diagonal', 'cd_id', 'cd', 'get_correlated_diagonal_length', 'H_branch')
T_AD = _diag_template('read_anticorrelated_diagonal', 'ad_id', 'ad', 'get_anticorrelated_diagonal_length', 'H_branch')

# loader.py
T_LD_INIT = '''
def __init__(self, file, data_start_bytes, compressed_data_diskblocks, shape_pad, blockshape,
             chunk_bytes, block_bytes, unit_bytes, rate, local, preload=False):
    self.file = file
    self.local = local
    self.data_start_bytes = data_start_bytes
    self.compressed_data_diskblocks = compressed_data_diskblocks
    self.shape_pad = shape_pad
    self.blockshape = blockshape
    self.block_dims = tuple(map(floordiv, shape_pad, blockshape))
    self.chunk_bytes = chunk_bytes
    self.block_bytes = block_bytes
    self.unit_bytes = unit_bytes
    self.rate = rate
    self.n_workers = 1 if self.local else 20
    self.oom_msgs = H_msgs
    self.mem_limit = psutil.virtual_memory().total
    self.compressed_volume = None
    if preload:
        uncompressed_buf_size = H_size
        if uncompressed_buf_size > self.mem_limit:
            print(H_note)
            raise RuntimeError(random.choice(self.oom_msgs))
        self.load_compressed_volume()
'''
T_LD_LOAD = '''
def load_compressed_volume(self):
    if self.compressed_volume is None:
        self.compressed_volume = self.file.read_range(self.file, H_off, H_len)
    else:
        pass
'''
T_LD_GCB = '''
def _get_compressed_bytes(self, offset, length_bytes):
    if self.compressed_volume is not None:
        return self.compressed_volume[H_lo:H_hi]
    else:
        return self.file.read_range(self.file, H_off, H_len)
'''
# utils.py
T_U_CHECK = '''
def check_range_length(data, offset, length):
    if len(data) != length:
        raise IOError(H_msg)
    return data
'''
T_U_FILE = '''
def read_range_file(file, offset, length):
    file.seek(H_seek)
    return check_range_length(file.read(H_len), offset, length)
'''
T_U_BLOB = '''
def read_range_blob(file, offset, length):
    return check_range_length(file.download_blob(offset=H_off, length=H_len).readall(), offset, length)
'''

FILE_METHODS = ('read_range', 'read', 'readinto', 'readall', 'seek', 'download_blob', 'readline', 'readlines')


# ------------------------------------------------------------------------------------------------------------ census
def _methods(cls):
    return {n.name: n for n in cls.body if isinstance(n, ast.FunctionDef)}


def _file_calls(node):
    """calls of a file-access method anywhere under node: [(attr, lineno)]"""
    out = []
    for n in ast.walk(node):
        if isinstance(n, ast.Call) and isinstance(n.func, ast.Attribute) and n.func.attr in FILE_METHODS:
            out.append((n.func.attr, n.lineno))
        if isinstance(n, ast.Call) and isinstance(n.func, ast.Name) and n.func.id == 'open':
            out.append(('open', n.lineno))
    return out


def _self_attr_refs(node, attrs):
    return [n for n in ast.walk(node) if isinstance(n, ast.Attribute) and isinstance(n.value, ast.Name)
            and n.value.id == 'self' and n.attr in attrs]


def _self_calls(node):
    return sorted({n.func.attr for n in ast.walk(node) if isinstance(n, ast.Call) and isinstance(n.func, ast.Attribute)
                   and isinstance(n.func.value, ast.Name) and n.func.value.id == 'self'})


def census_reader(rd):
    cls = _find_def(rd, 'SgzReader')
    M = _methods(cls)
    want = {'__init__': ['read_range', 'read_range', 'seek'], 'open_sgz_file': ['open'], 'close_sgz_file': [],
            'get_unstructured_mask': ['read_range'], 'read_variant_headers': ['read_range'],
            'gen_trace_header': ['read_range']}
    for name, f in M.items():
        got = sorted(a for a, _ in _file_calls(f))
        if got != sorted(want.get(name, [])):
            raise GenFail(f'census: SgzReader.{name} performs file operations {got}, expected {sorted(want.get(name, []))}')
    # everything defined at module level of read.py besides the class: no file access
    for st in rd.body:
        if st is not cls and _file_calls(st):
            raise GenFail(f'census: module-level code of read.py performs file operations (line {st.lineno})')
    # the reader methods __init__ calls are pure header parsing: no self.file / self.loader, and they call nothing else
    init = M['__init__']
    called = _self_calls(init)
    expect = ['_decode_traceheader_template', '_parse_coordinates', '_parse_data_sizes', '_parse_dimensions',
              'get_file_version', 'open_sgz_file']
    if called != expect:
        raise GenFail(f'census: SgzReader.__init__ calls {called}, expected {expect}')
    for nm in expect:
        if nm == 'open_sgz_file':
            continue
        f = M[nm]
        if _self_attr_refs(f, ('file', 'loader')):
            raise GenFail(f'census: SgzReader.{nm} refers to self.file / self.loader')
        if _self_calls(f):
            raise GenFail(f'census: SgzReader.{nm} calls other reader methods: {_self_calls(f)}')
    # the loader is constructed exactly once in __init__ (the matched statement) and never replaced
    n_loader_assign = 0
    for f in M.values():
        for n in ast.walk(f):
            if isinstance(n, (ast.Assign, ast.AugAssign)):
                tg = n.targets if isinstance(n, ast.Assign) else [n.target]
                for t in tg:
                    for y in ast.walk(t):
                        if isinstance(y, ast.Attribute) and isinstance(y.value, ast.Name) and y.value.id == 'self' \
                                and y.attr == 'loader':
                            n_loader_assign += 1
    if n_loader_assign != 2:
        raise GenFail(f'census: self.loader assigned {n_loader_assign} times in SgzReader, expected 2 (the 2D / 3D construction)')
    # nobody but the loader's constructor asks for the volume to be loaded
    for f in M.values():
        for n in ast.walk(f):
            if isinstance(n, ast.Attribute) and n.attr in ('load_compressed_volume', 'compressed_volume'):
                raise GenFail(f'census: SgzReader.{f.name} refers to {n.attr}')
    # the chunk LRU is consulted by get_trace only, built in __init__ only
    for name, f in M.items():
        refs = [n for n in ast.walk(f) if isinstance(n, ast.Attribute) and n.attr == '_read_containing_chunk_cached']
        if refs and name not in ('__init__', 'get_trace'):
            raise GenFail(f'census: SgzReader.{name} refers to _read_containing_chunk_cached')


def census_loader(ld):
    base = _find_def(ld, 'SgzLoader')
    want = {'load_compressed_volume': ['read_range'], '_get_compressed_bytes': ['read_range']}
    n_vol_assign = {}
    for cls in [n for n in ld.body if isinstance(n, ast.ClassDef)]:
        for name, f in _methods(cls).items():
            got = sorted(a for a, _ in _file_calls(f))
            exp = sorted(want.get(name, [])) if cls is base else []
            if got != exp:
                raise GenFail(f'census: {cls.name}.{name} performs file operations {got}, expected {exp}')
            if cls is not base and _self_attr_refs(f, ('file',)):
                raise GenFail(f'census: {cls.name}.{name} refers to self.file (range reads must go through _get_compressed_bytes)')
            for n in ast.walk(f):
                if isinstance(n, (ast.Assign, ast.AugAssign, ast.Delete)):
                    tg = n.targets if isinstance(n, (ast.Assign, ast.Delete)) else [n.target]
                    for t in tg:
                        for y in ast.walk(t):
                            if isinstance(y, ast.Attribute) and y.attr == 'compressed_volume':
                                n_vol_assign[f'{cls.name}.{name}'] = n_vol_assign.get(f'{cls.name}.{name}', 0) + 1
            if name not in ('__init__', 'load_compressed_volume', '_get_compressed_bytes'):
                for n in ast.walk(f):
                    if isinstance(n, ast.Attribute) and n.attr in ('compressed_volume', 'load_compressed_volume'):
                        raise GenFail(f'census: {cls.name}.{name} refers to {n.attr}')
    if n_vol_assign != {'SgzLoader.__init__': 1, 'SgzLoader.load_compressed_volume': 1}:
        raise GenFail(f'census: compressed_volume assigned in {n_vol_assign}')
    for st in ld.body:
        if not isinstance(st, ast.ClassDef) and _file_calls(st):
            raise GenFail(f'census: module-level code of loader.py performs file operations (line {st.lineno})')
    # subclasses do not override the choke point or the constructor
    for cls in [n for n in ld.body if isinstance(n, ast.ClassDef) and n is not base]:
        if [b for b in cls.bases if not (isinstance(b, ast.Name) and b.id == 'SgzLoader')]:
            raise GenFail(f'census: {cls.name} has an unexpected base class')
        for nm in ('__init__', 'load_compressed_volume', '_get_compressed_bytes'):
            if nm in _methods(cls):
                raise GenFail(f'census: {cls.name} overrides {nm}')


def _pair(tr, a, b):
    return f'({tr.z(a)}, {tr.z(b)})'


def _stmt_index(body, template, where):
    t = ast.parse(template).body[0]
    hits = []
    for i, st in enumerate(body):
        try:
            _match(t, st, {}, where)
            hits.append(i)
        except GenFail:
            pass
    if len(hits) != 1:
        raise GenFail(f'{where}: {len(hits)} statements match `{template.strip().splitlines()[0]}`')
    return hits[0]


# ---------------------------------------------------------------------------------------------------------- generate
def generate(srcdir):
    C = gh._consts(srcdir)
    rd, ld, ut = (_load(srcdir, m) for m in ('read', 'loader', 'utils'))
    census_reader(rd)
    census_loader(ld)
    out = []
    emit = out.append
    emit('(* GENERATED by tools/genx_openio.py from seismic_zfp/{read,loader,utils}.py -- do not edit.\n'
         '   The I/O a reader performs besides the range reads of one cold sample read (C07c): opening, preload, the\n'
         '   choke point _get_compressed_bytes, the single-word footer read of gen_trace_header, the chunk key of get_trace\n'
         '   and the trace ordinals of the diagonal readers.  Statement structure matched against templates, file-access\n'
         '   census of read.py / loader.py checked (fail closed). *)\n'
         'From Coq Require Import ZArith List Bool.\nImport ListNotations.\nOpen Scope Z_scope.\n\n')

    # ------------------------------------------------------------------ SgzReader.__init__
    R = 'SgzReader.'
    init = _strip_doc(_find_def(rd, R + '__init__').body)
    first = init[0]
    if not (isinstance(first, ast.If) and ast.unparse(first.test) == "hasattr(file, 'download_blob')"):
        raise GenFail('SgzReader.__init__: first statement is not the file/blob dispatch')
    if sorted(a for a, _ in _file_calls(first)) != ['seek']:
        raise GenFail('SgzReader.__init__: the file/blob dispatch performs file operations other than seek(0)')
    seeks = [n for n in ast.walk(first) if isinstance(n, ast.Call) and isinstance(n.func, ast.Attribute) and n.func.attr == 'seek']
    if ast.unparse(seeks[0]) != 'self.file.seek(0)':
        raise GenFail('SgzReader.__init__: unexpected seek in the dispatch')
    w = R + '__init__'
    h1, hc, hn, h2 = {}, {}, {}, {}
    _match(ast.parse(T_OPEN_1).body[0], init[1], h1, w)
    _match(ast.parse(T_OPEN_CHECK).body[0], init[2], hc, w)
    _match(ast.parse(T_OPEN_NHB).body[0], init[3], hn, w)
    _match(ast.parse(T_OPEN_2).body[0], init[4], h2, w)
    if (_int(hn['H_lo']), _int(hn['H_hi'])) != (0, 4):
        raise GenFail('n_header_blocks is not bytes 0:4')
    tri = Tr(C, {'self.n_header_blocks': 'nhb'})
    emit('(* ---- read.py: SgzReader.__init__.  Statement 0 opens the file (no read; a handle passed in is rewound with seek(0)),\n'
         '   statement 1 is the first read, statement 3 takes n_header_blocks = bytes 0:4 of it, statement 4 the second read ---- *)\n')
    emit(_defn('ox_open_read1', [], 'Z * Z', _pair(tri, h1['H_off1'], h1['H_len1']), 'self.headerbytes = read_range(file, offset, length)'))
    emit(_defn('ox_open_reread', [('nhb', 'Z')], 'bool', tri.b(h2['H_guard2']), 'if ...: headerbytes is read again'))
    emit(_defn('ox_open_read2', [('nhb', 'Z')], 'Z * Z', _pair(tri, h2['H_off2'], h2['H_len2'])))
    ds = match_unique_stmt(init, T_DATA_START, w)
    emit(_defn('ox_data_start', [('nhb', 'Z')], 'Z', tri.z(ds['H_ds']), 'self.data_start_bytes'))
    ab = match_unique_stmt(init, T_ASSERT_BLOCK, w)
    emit(_defn('ox_block_bytes_asserted', [], 'Z', str(_int(ab['H_bb'], C)), 'assert self.block_bytes == ... (a reader that opens has this block size)'))
    i_loader = _stmt_index(init, T_LOADER_CTOR, w)
    cd = match_unique_stmt(init, T_CACHE_DEFAULT, w)
    i_wrap = _stmt_index(init, T_CACHE_WRAP, w)
    if not (4 < i_loader < i_wrap):
        raise GenFail('SgzReader.__init__: loader / chunk cache construction out of order')
    # no file read after statement 4 except through the loader constructor (census: exactly two read_range calls in __init__)
    trc = Tr(C, {'self.shape_pad[0]': 'sp0', 'self.shape_pad[1]': 'sp1', 'self.blockshape[0]': 'bs0', 'self.blockshape[1]': 'bs1'})
    emit('(* the loader is built after both header reads with (file, data_start_bytes, compressed_data_diskblocks, ..., block_bytes,\n'
         '   ..., preload) -- matched verbatim for SgzLoader2d and SgzLoader3d; the chunk LRU is\n'
         '   lru_cache(maxsize=chunk_cache_size)(self._read_containing_chunk), chunk_cache_size defaulting to\n'
         '   get_chunk_cache_size(a0, a1) (Gen/Utils.v) *)\n')
    emit(_defn('ox_cache_arg0', [('sp0', 'Z'), ('bs0', 'Z')], 'Z', trc.z(cd['H_a0'])))
    emit(_defn('ox_cache_arg1', [('sp1', 'Z'), ('bs1', 'Z')], 'Z', trc.z(cd['H_a1'])))

    # ------------------------------------------------------------------ loader.py
    L = 'SgzLoader.'
    match_function(ld, L + '__init__', T_LD_INIT)
    lv = match_function(ld, L + 'load_compressed_volume', T_LD_LOAD)
    gc = match_function(ld, L + '_get_compressed_bytes', T_LD_GCB)
    trl = Tr(C, {'self.data_start_bytes': 'data_start', 'self.compressed_data_diskblocks': 'ndb', 'self.block_bytes': 'block_bytes'},
             names={'offset': 'offset', 'length_bytes': 'length_bytes'})
    emit('\n(* ---- loader.py: SgzLoader.__init__ sets compressed_volume = None; if preload: (RuntimeError when the uncompressed size\n'
         '   exceeds the machine memory, else) load_compressed_volume().  has_volume = "compressed_volume is not None" ---- *)\n')
    emit(_defn('ox_volume_at_init', [], 'bool', 'false', 'self.compressed_volume = None'))
    emit(_defn('ox_load_guard', [('has_volume', 'bool')], 'bool', '(negb has_volume)', 'load_compressed_volume: if self.compressed_volume is None'))
    emit(_defn('ox_load_read', [('data_start', 'Z'), ('ndb', 'Z'), ('block_bytes', 'Z')], 'Z * Z',
               _pair(trl, lv['H_off'], lv['H_len']), '... compressed_volume = read_range(file, offset, length); else: pass'))
    emit(_defn('ox_gcb_in_memory', [('has_volume', 'bool')], 'bool', 'has_volume',
               '_get_compressed_bytes: if self.compressed_volume is not None: return a slice of it (no file access)'))
    emit(_defn('ox_gcb_slice', [('offset', 'Z'), ('length_bytes', 'Z')], 'Z * Z', _pair(trl, gc['H_lo'], gc['H_hi']), 'compressed_volume[lo:hi]'))
    emit(_defn('ox_gcb_read', [('data_start', 'Z'), ('offset', 'Z'), ('length_bytes', 'Z')], 'Z * Z',
               _pair(trl, gc['H_off'], gc['H_len']), 'else: read_range(file, offset, length)'))

    # ------------------------------------------------------------------ utils.py: the two backends
    match_function(ut, 'check_range_length', T_U_CHECK)
    uf = match_function(ut, 'read_range_file', T_U_FILE)
    ub = match_function(ut, 'read_range_blob', T_U_BLOB)
    tru = Tr(C, names={'offset': 'offset', 'length': 'length'})
    emit('\n(* ---- utils.py: one backend request per range read.  Local: file.seek(offset); file.read(length).  Blob:\n'
         '   download_blob(offset=, length=).readall().  Both then check the length of what came back ---- *)\n')
    emit(_defn('ox_request_file', [('offset', 'Z'), ('length', 'Z')], 'Z * Z', _pair(tru, uf['H_seek'], uf['H_len'])))
    emit(_defn('ox_request_blob', [('offset', 'Z'), ('length', 'Z')], 'Z * Z', _pair(tru, ub['H_off'], ub['H_len'])))

    # ------------------------------------------------------------------ gen_trace_header
    try:
        gn = match_function(rd, R + 'gen_trace_header', T_GEN_MEMO)
        memo = True
    except GenFail:
        gn = match_function(rd, R + 'gen_trace_header', T_GEN_PLAIN)
        memo = False
    trh = Tr(C, {'self.tracecount': 'tracecount'}, names={'index': 'index', 'v': 'v'})
    trb = Tr(C, {'self.structured': 'structured'}, names={'load_all_headers': 'load_all'})
    emit('\n(* ---- read.py: gen_trace_header.  for k, v in template.items(): if isinstance(v, FileOffset): ... ---- *)\n')
    emit(_defn('ox_hdr_index_ok', [('index', 'Z'), ('tracecount', 'Z')], 'bool', trh.b(gn['H_guard']), 'IndexError unless'))
    emit(_defn('ox_hdr_via_arrays', [('load_all', 'bool'), ('structured', 'bool')], 'bool', trb.b(gn['H_viaarrays']),
               'whole arrays are loaded (and kept); otherwise one word is read per FileOffset entry'))
    emit(_defn('ox_hdr_word_read', [('v', 'Z'), ('index', 'Z')], 'Z * Z', _pair(trh, gn['H_wordoff'], gn['H_wordlen']),
               'read_range(file, offset, length)'))
    emit(_defn('ox_hdr_memo', [], 'bool', 'true' if memo else 'false',
               'true: the words read in one call are memoised by file offset (`if v not in words`), so header words that alias\n'
               '   the same stored array cost one read; false: one read per FileOffset entry, aliases re-read the same word (D42)'))

    # ------------------------------------------------------------------ get_trace (3D) and the chunk it asks for
    gt = match_function(rd, R + 'get_trace', T_GET_TRACE)
    match_function(rd, R + '_read_containing_chunk', T_CHUNK)
    if [ast.unparse(gt[f'H_k{i}']) for i in range(4)] != ['min_il', 'min_xl', 'min_z', 'max_z']:
        raise GenFail('get_trace: arguments of _read_containing_chunk_cached changed')
    trt = Tr(C, {'self.n_ilines': 'n_il', 'self.n_xlines': 'n_xl', 'self.n_samples': 'n_s', 'self.blockshape[0]': 'bs0',
                 'self.blockshape[1]': 'bs1', 'self.blockshape[2]': 'bs2'},
             names={'index': 'index', 'il': 'il', 'xl': 'xl', 'min_sample_id': 'min_sample_id', 'max_sample_id': 'max_sample_id'})
    emit('\n(* ---- read.py: get_trace, 3D branch (with override_unstructured_mapping=True, as the diagonal readers call it, the\n'
         '   ordinal is used as given).  chunk = self._read_containing_chunk_cached(min_il, min_xl, min_z, max_z): the key of\n'
         '   the per-reader LRU is that 4-tuple; a miss runs _read_containing_chunk = read_subvolume(min_il, min_il+bs0,\n'
         '   min_xl, min_xl+bs1, min_z, max_z, access_padding=True, multithreading=False) (matched) ---- *)\n')
    emit(_defn('ox_tr_index_ok', [('index', 'Z'), ('n_il', 'Z'), ('n_xl', 'Z')], 'bool', trt.b(gt['H_index_ok'])))
    emit(_defn('ox_tr_il', [('index', 'Z'), ('n_xl', 'Z')], 'Z', trt.z(gt['H_il'])))
    emit(_defn('ox_tr_xl', [('index', 'Z'), ('n_xl', 'Z')], 'Z', trt.z(gt['H_xl'])))
    emit(_defn('ox_tr_min_il', [('il', 'Z'), ('bs0', 'Z')], 'Z', trt.z(gt['H_min_il'])))
    emit(_defn('ox_tr_min_xl', [('xl', 'Z'), ('bs1', 'Z')], 'Z', trt.z(gt['H_min_xl'])))
    emit(_defn('ox_tr_samples_ok', [('min_sample_id', 'Z'), ('max_sample_id', 'Z'), ('n_s', 'Z')], 'bool', trt.b(gt['H_samples_ok'])))
    emit(_defn('ox_tr_min_z', [('min_sample_id', 'Z'), ('bs2', 'Z')], 'Z', trt.z(gt['H_min_z'])))
    emit(_defn('ox_tr_max_z', [('max_sample_id', 'Z'), ('bs2', 'Z')], 'Z', trt.z(gt['H_max_z'])))

    # ------------------------------------------------------------------ diagonals
    cdh = match_function(rd, R + 'read_correlated_diagonal', T_CD)
    adh = match_function(rd, R + 'read_anticorrelated_diagonal', T_AD)
    emit('\n(* ---- read.py: the diagonal readers.  max_len = get_(anti)correlated_diagonal_length(id, n_il, n_xl) (Gen/Utils.v);\n'
         '   without cropping arguments: min_idx = 0, len = max_len; then  for d in range(lo, hi): get_trace(ordinal(d), ...,\n'
         '   override_unstructured_mapping=True) ---- *)\n')
    for pfx, hh, idn in (('cd', cdh, 'cd_id'), ('ad', adh, 'ad_id')):
        trd = Tr(C, {'self.n_ilines': 'n_il', 'self.n_xlines': 'n_xl', 'self.n_samples': 'n_s'},
                 names={idn: 'id', f'min_{pfx}_idx': 'min_idx', f'max_{pfx}_idx': 'max_idx', f'max_{pfx}_len': 'max_len',
                        f'{pfx}_len': 'len', 'd': 'd'})
        emit(_defn(f'ox_{pfx}_id_ok', [('id', 'Z'), ('n_il', 'Z'), ('n_xl', 'Z')], 'bool', trd.b(hh['H_id_ok'])))
        emit(_defn(f'ox_{pfx}_min_ok', [('min_idx', 'Z'), ('max_len', 'Z')], 'bool', trd.b(hh['H_min_ok'])))
        emit(_defn(f'ox_{pfx}_max_ok', [('max_idx', 'Z'), ('max_len', 'Z')], 'bool', trd.b(hh['H_max_ok'])))
        emit(_defn(f'ox_{pfx}_order_ok', [('min_idx', 'Z'), ('max_idx', 'Z')], 'bool', trd.b(hh['H_order_ok'])))
        emit(_defn(f'ox_{pfx}_len', [('min_idx', 'Z'), ('max_idx', 'Z')], 'Z', trd.z(hh['H_len'])))
        emit(_defn(f'ox_{pfx}_branch', [('id', 'Z'), ('n_xl', 'Z')], 'bool', trd.b(hh['H_branch']), 'first loop if true, second loop otherwise'))
        for br in ('a', 'b'):
            emit(_defn(f'ox_{pfx}_lo_{br}', [('min_idx', 'Z'), ('len', 'Z')], 'Z', trd.z(hh[f'H_lo_{br}'])))
            emit(_defn(f'ox_{pfx}_hi_{br}', [('min_idx', 'Z'), ('len', 'Z')], 'Z', trd.z(hh[f'H_hi_{br}'])))
            emit(_defn(f'ox_{pfx}_ordinal_{br}', [('d', 'Z'), ('id', 'Z'), ('n_xl', 'Z')], 'Z', trd.z(hh[f'H_idx_{br}'])))
    return {'OpenIO': ''.join(out)}


if __name__ == '__main__':
    print(generate(sys.argv[1] if len(sys.argv) > 1 else '/repo/seismic_zfp')['OpenIO'])
