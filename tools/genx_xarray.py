"""genx_xarray.py -- plug-in generator for the xarray backend (C02e / C07d): coq/Gen/Xarray.v.

Fail-closed `ast` extraction from seismic_zfp/sgz_xarray.py and seismic_zfp/tools.py (the matcher of genx_headers.py: a
function must equal a TEMPLATE written here node for node; identifiers H_<name> in a template are holes that capture the
expression found there).  Anything not recognised raises GenFail: the target Xarray is then a translation failure,
Gen/Xarray.v is removed and Model/Xarray.v, Proofs/Xarray.v, Props/C02e.v, Props/C07d.v no longer build.

What is matched WHOLE (every statement) and what is extracted
  sgz_xarray.py
    module level                      the imports, exactly two classes, no other code
    SeismicZfpBackendArray            base class BackendArray, exactly the methods __init__, __getitem__, _raw_indexing_method
      __init__                        verbatim (shape, dtype, sgz_reader stored as given), optionally followed by
                                      self.lock = threading.Lock() (the D51 repair; then the reader call must be under
                                      `with self.lock:` and `import threading` present -- all three or none: flag xa_locked)
      __getitem__                     verbatim: indexing.explicit_indexing_adapter(key, self.shape, <support>, self._raw_indexing_method);
                                      extracted: the IndexingSupport member
      _raw_indexing_method            the loop over zip(key, self.shape) with its slice branch and its int branch, the
                                      empty-selection return, the unpacking of the three bounds and the read_subvolume call;
                                      extracted: the empty test, both bounds pairs, the post slice, the int normalisation, its
                                      guard, its bounds and post index, the "some bound pair is empty" test, the length used
                                      for the zeros shape, the value bound to each read_subvolume parameter
    SeismicZfpBackendEntrypoint.open_dataset   verbatim up to: the three members of `shape`, the three dims, the coords
  read.py   SgzReader.read_subvolume  the parameter list (order, defaults of access_padding / multithreading)
  tools.py  cube                      verbatim: with SgzReader(filename) as reader: return reader.read_volume()

Translation rules for the Python objects that occur in the holes (these are the semantics of Python's range object and of
int(); they are part of the hand-written trusted base, like Model/Accessors.v's slice_indices / range_len, and are
re-validated against CPython on every run by tools/checks/xarrayx.py):
  r = range(*k.indices(n))  is represented by the triple (start, stop, step) = slice_indices k n
  len(r) -> range_len start stop step      r[0] -> start      r[-1] -> start + (range_len start stop step - 1) * step
  r.step -> step      int(k) -> k (k is an int)      len(range(*k.indices(n))) -> range_len start stop step
"""
import ast, os, sys

sys.path.insert(0, os.path.dirname(os.path.abspath(__file__)))
import genx_headers as gh
from genx_headers import GenFail, Tr, match_function, _match, _load, _find_def, _strip_doc, _int, _defn, _dump

OUTPUTS = ['Xarray']

# ---------------------------------------------------------------------------------------------------------- templates
T_INIT = '''
def __init__(self, shape, dtype, sgz_reader):
    self.shape = shape
    self.dtype = dtype
    self.sgz_reader = sgz_reader
'''
T_INIT_LOCK = '''
def __init__(self, shape, dtype, sgz_reader):
    self.shape = shape
    self.dtype = dtype
    self.sgz_reader = sgz_reader
    self.lock = threading.Lock()
'''
T_GETITEM = '''
def __getitem__(self, key: indexing.ExplicitIndexer) -> np.typing.ArrayLike:
    return indexing.explicit_indexing_adapter(
        key,
        self.shape,
        H_support,
        self._raw_indexing_method,
    )
'''
RAW_HEAD = '''
def _raw_indexing_method(self, key: tuple) -> np.typing.ArrayLike:
    bounds, post = [], []
    for k, n in zip(key, self.shape):
        if isinstance(k, slice):
            r = range(*k.indices(n))
            if H_empty:
                bounds.append((H_elo, H_ehi))
            else:
                bounds.append((H_slo, H_shi))
            post.append(slice(H_p0, H_p1, H_p2))
        else:
            i = H_norm
            if not H_int_ok:
                raise IndexError(H_msg)
            bounds.append((H_ilo, H_ihi))
            post.append(H_ipost)
    if any(H_pair_empty for lo, hi in bounds):
        return np.zeros(tuple(H_zlen for k, n in zip(key, self.shape) if isinstance(k, slice)),
                        dtype=self.dtype)
'''
RAW_TAIL_PLAIN = '''    (min_il, max_il), (min_xl, max_xl), (min_z, max_z) = bounds
    return self.sgz_reader.read_subvolume(min_il=H_a0, max_il=H_a1,
                                          min_xl=H_a2, max_xl=H_a3,
                                          min_z=H_a4, max_z=H_a5)[tuple(post)]
'''
# the D51 repair: the reader is called under the array's lock (dask loads chunks from several threads)
RAW_TAIL_LOCK = '''    (min_il, max_il), (min_xl, max_xl), (min_z, max_z) = bounds
    with self.lock:
        volume = self.sgz_reader.read_subvolume(min_il=H_a0, max_il=H_a1,
                                                min_xl=H_a2, max_xl=H_a3,
                                                min_z=H_a4, max_z=H_a5)
    return volume[tuple(post)]
'''
T_RAW = RAW_HEAD + RAW_TAIL_PLAIN
T_RAW_LOCK = RAW_HEAD + RAW_TAIL_LOCK
T_OPEN = '''
def open_dataset(self, filename_or_obj, drop_variables=None):
    sgz_reader = SgzReader(filename_or_obj)
    shape = (H_s0, H_s1, H_s2)
    backend_array = SeismicZfpBackendArray(shape, np.float32, sgz_reader)
    vars = {"data": ((H_d0, H_d1, H_d2), indexing.LazilyIndexedArray(backend_array))}
    coords = {H_c0: H_v0, H_c1: H_v1, H_c2: H_v2}
    ds = xr.Dataset(data_vars=vars, coords=coords)
    ds.set_close(sgz_reader.close)
    return ds
'''
T_CUBE = '''
def cube(filename):
    with SgzReader(filename) as reader:
        return reader.read_volume()
'''
IMPORTS_XARRAY = ['import os', 'import threading', 'import xarray as xr', 'import numpy as np', 'from xarray.backends import BackendEntrypoint',
                  'from xarray.backends import BackendArray', 'from xarray.core import indexing',
                  'from seismic_zfp.read import SgzReader']
SUBVOLUME_PARAMS = ['self', 'min_il', 'max_il', 'min_xl', 'max_xl', 'min_z', 'max_z', 'access_padding', 'multithreading']
READER_ATTRS = {'n_ilines': 'rd_n_ilines', 'n_xlines': 'rd_n_xlines', 'n_samples': 'rd_n_samples'}


# ---------------------------------------------------------------------------------------------------------- translator
class XTr(Tr):
    """Tr + two-argument min()/max() and conditional expressions"""
    def z(self, e):
        d = _dump(e)
        for pat, v in self.subst:
            if d == pat:
                return v
        if isinstance(e, ast.Call) and isinstance(e.func, ast.Name) and e.func.id in ('min', 'max') and len(e.args) == 2 \
                and not e.keywords and not any(isinstance(x, ast.Starred) for x in e.args):
            return f'(Z.{e.func.id} {self.z(e.args[0])} {self.z(e.args[1])})'
        if isinstance(e, ast.IfExp):
            return f'(if {self.b(e.test)} then {self.z(e.body)} else {self.z(e.orelse)})'
        if isinstance(e, ast.Constant) and (isinstance(e.value, bool) or not isinstance(e.value, int)):
            raise GenFail(f'not an integer constant: {ast.unparse(e)}')
        return super().z(e)

    def opt(self, e):
        if isinstance(e, ast.Constant) and e.value is None:
            return 'None'
        return f'Some {self.z(e)}'


RLEN = '(range_len start stop step)'
RANGE_SUBST = {'len(r)': RLEN, 'r[0]': 'start', 'r[-1]': f'(start + (({RLEN} - 1) * step))', 'r.step': 'step',
               'len(range(*k.indices(n)))': RLEN}


def _str_const(e, what):
    if isinstance(e, ast.Constant) and isinstance(e.value, str) and e.value.isidentifier():
        return e.value
    raise GenFail(f'{what}: expected a plain string literal, found {ast.unparse(e)}')


def _reader_attr(e, what):
    if isinstance(e, ast.Attribute) and isinstance(e.value, ast.Name) and e.value.id == 'sgz_reader':
        return e.attr
    raise GenFail(f'{what}: expected sgz_reader.<attribute>, found {ast.unparse(e)}')


def _coq_strs(xs):
    return '[' + '; '.join(f'"{x}"' for x in xs) + ']%string'


# ---------------------------------------------------------------------------------------------------------- generate
def generate(srcdir):
    xa, rd, tl = (_load(srcdir, m) for m in ('sgz_xarray', 'read', 'tools'))
    out = []
    emit = out.append
    emit('(* GENERATED by tools/genx_xarray.py from seismic_zfp/{sgz_xarray,tools,read}.py -- do not edit.\n'
         '   The expressions of SeismicZfpBackendArray._raw_indexing_method (one loop iteration = one axis), the wiring of\n'
         '   open_dataset / __getitem__, and tools.cube; every statement around them was matched against a template (fail\n'
         '   closed).  r = range( *k.indices(n)) is the triple (start, stop, step) = slice_indices k n (Model/Accessors.v);\n'
         '   len(r) = range_len start stop step, r[0] = start, r[-1] = start + (len(r) - 1) * step, r.step = step. *)\n'
         'From Coq Require Import ZArith List Bool String.\nImport ListNotations.\n'
         'From SZ Require Import Lib.Py Model.Accessors Gen.Reader.\nOpen Scope Z_scope.\n\n')

    # ------------------------------------------------------------------ module census
    imports = [ast.unparse(s) for s in xa.body if isinstance(s, (ast.Import, ast.ImportFrom))]
    if imports != IMPORTS_XARRAY and imports != [x for x in IMPORTS_XARRAY if x != 'import threading']:
        raise GenFail(f'sgz_xarray.py: imports changed: {imports}')
    rest = [s for s in xa.body if not isinstance(s, (ast.Import, ast.ImportFrom))]
    if [type(s).__name__ + ':' + getattr(s, 'name', '?') for s in rest] != \
            ['ClassDef:SeismicZfpBackendArray', 'ClassDef:SeismicZfpBackendEntrypoint']:
        raise GenFail('sgz_xarray.py: module-level code other than the two backend classes')
    arr_cls, ent_cls = rest
    if [ast.unparse(b) for b in arr_cls.bases] != ['BackendArray'] or arr_cls.keywords or arr_cls.decorator_list:
        raise GenFail('SeismicZfpBackendArray: base classes / decorators changed')
    members = [getattr(s, 'name', type(s).__name__) for s in _strip_doc(arr_cls.body)]
    if members != ['__init__', '__getitem__', '_raw_indexing_method'] or \
            not all(isinstance(s, ast.FunctionDef) and not s.decorator_list for s in _strip_doc(arr_cls.body)):
        raise GenFail(f'SeismicZfpBackendArray: members changed: {members}')
    if [ast.unparse(b) for b in ent_cls.bases] != ['BackendEntrypoint'] or ent_cls.keywords or ent_cls.decorator_list:
        raise GenFail('SeismicZfpBackendEntrypoint: base classes / decorators changed')
    if len([s for s in ent_cls.body if isinstance(s, ast.FunctionDef) and s.name == 'open_dataset' and not s.decorator_list]) != 1:
        raise GenFail('SeismicZfpBackendEntrypoint.open_dataset: not exactly one undecorated definition')

    A = 'SeismicZfpBackendArray.'
    # either the plain form, or the D51 repair in all three places (import threading; self.lock = threading.Lock(); the
    # reader called under `with self.lock:`) -- never a mixture
    try:
        match_function(xa, A + '__init__', T_INIT_LOCK)
        locked = True
    except GenFail:
        match_function(xa, A + '__init__', T_INIT)
        locked = False
    if locked != ('import threading' in imports):
        raise GenFail('sgz_xarray.py: `import threading` and `self.lock = threading.Lock()` do not go together')
    g = match_function(xa, A + '__getitem__', T_GETITEM)
    sup = ast.unparse(g['H_support'])
    if not sup.startswith('indexing.IndexingSupport.') or not sup.split('.')[-1].isidentifier():
        raise GenFail(f'__getitem__: indexing support is {sup}')
    h = match_function(xa, A + '_raw_indexing_method', T_RAW_LOCK if locked else T_RAW)

    # ------------------------------------------------------------------ _raw_indexing_method
    rng = [('start', 'Z'), ('stop', 'Z'), ('step', 'Z')]
    trs = XTr({}, RANGE_SUBST, names={'n': 'n'})            # slice branch: r (through the substitutions) and n
    tri = XTr({}, {'int(k)': 'k'}, names={'k': 'k', 'n': 'n', 'i': 'i'})   # int branch
    trp = XTr({}, names={'lo': 'lo', 'hi': 'hi'})
    emit('(* ---- sgz_xarray.py: SeismicZfpBackendArray._raw_indexing_method.  for k, n in zip(key, self.shape): ---- *)\n')
    emit('(* slice branch (isinstance(k, slice)): r = range( *k.indices(n)) *)\n')
    emit(_defn('xa_indices', [('k', 'pyslice'), ('n', 'Z')], 'outcome (Z * Z * Z)', 'slice_indices k n', 'k.indices(n)'))
    emit(_defn('xa_slice_empty', rng, 'bool', trs.b(h['H_empty']), 'if ...: bounds.append(xa_bounds_empty) else: bounds.append(xa_bounds_slice)'))
    emit(_defn('xa_bounds_empty', [], 'Z * Z', f'({trs.z(h["H_elo"])}, {trs.z(h["H_ehi"])})'))
    emit(_defn('xa_bounds_slice', rng, 'Z * Z', f'({trs.z(h["H_slo"])}, {trs.z(h["H_shi"])})'))
    emit(_defn('xa_post_slice', rng, 'pyslice', f'mkslice ({trs.opt(h["H_p0"])}) ({trs.opt(h["H_p1"])}) ({trs.opt(h["H_p2"])})',
               'post.append(slice(...))'))
    emit('(* int branch *)\n')
    emit(_defn('xa_int_norm', [('k', 'Z'), ('n', 'Z')], 'Z', tri.z(h['H_norm']), 'i = ...'))
    emit(_defn('xa_int_ok', [('i', 'Z'), ('n', 'Z')], 'bool', tri.b(h['H_int_ok']), 'if not ...: raise IndexError'))
    emit(_defn('xa_bounds_int', [('i', 'Z')], 'Z * Z', f'({tri.z(h["H_ilo"])}, {tri.z(h["H_ihi"])})'))
    emit(_defn('xa_post_int', [], 'Z', str(_int(h['H_ipost'])), 'post.append(...)'))
    emit('(* after the loop: if any(... for lo, hi in bounds): return np.zeros(tuple(<len> for k, n in zip(key, self.shape)\n'
         '   if isinstance(k, slice)), dtype=self.dtype) -- one entry per SLICE axis, none for an int axis *)\n')
    emit(_defn('xa_pair_empty', [('lo', 'Z'), ('hi', 'Z')], 'bool', trp.b(h['H_pair_empty'])))
    emit(_defn('xa_zeros_len', rng, 'Z', trs.z(h['H_zlen']), 'start, stop, step = k.indices(n) of that axis'))

    # the read_subvolume call: (min_il, max_il), (min_xl, max_xl), (min_z, max_z) = bounds, keyword arguments
    f = _find_def(rd, 'SgzReader.read_subvolume')
    params = [x.arg for x in f.args.args]
    if params != SUBVOLUME_PARAMS or f.args.vararg or f.args.kwarg or f.args.kwonlyargs or f.args.posonlyargs:
        raise GenFail(f'SgzReader.read_subvolume: parameter list changed: {params}')
    dfl = f.args.defaults
    if len(dfl) != 2 or not all(isinstance(x, ast.Constant) and isinstance(x.value, bool) for x in dfl):
        raise GenFail('SgzReader.read_subvolume: defaults of access_padding / multithreading are not boolean literals')
    bnames = {'min_il': '(fst b0)', 'max_il': '(snd b0)', 'min_xl': '(fst b1)', 'max_xl': '(snd b1)',
              'min_z': '(fst b2)', 'max_z': '(snd b2)'}
    tra = XTr({}, names=bnames)
    args = [tra.z(h[f'H_a{j}']) for j in range(6)]     # keyword names min_il .. max_z are fixed by the template, in this order
    emit('(* (min_il, max_il), (min_xl, max_xl), (min_z, max_z) = bounds;  self.sgz_reader.read_subvolume(min_il=.., max_il=..,\n'
         '   min_xl=.., max_xl=.., min_z=.., max_z=..)[tuple(post)]: the values bound to the parameters of read.py\'s\n'
         '   read_subvolume(self, min_il, max_il, min_xl, max_xl, min_z, max_z, access_padding, multithreading), in that order;\n'
         '   the last two are not passed: their defaults *)\n')
    emit(_defn('xa_subvolume_args', [('b0', 'Z * Z'), ('b1', 'Z * Z'), ('b2', 'Z * Z')], 'Z * Z * Z * Z * Z * Z', '(' + ', '.join(args) + ')'))
    emit(_defn('xa_access_padding', [], 'bool', 'true' if dfl[0].value else 'false'))
    emit(_defn('xa_multithreading', [], 'bool', 'true' if dfl[1].value else 'false'))
    emit(_defn('xa_locked', [], 'bool', 'true' if locked else 'false',
               'true: __init__ creates self.lock = threading.Lock() and the read_subvolume call above is made under `with self.lock:`\n'
               '   (the D51 repair: with open_dataset(..., chunks=...) dask calls this method from several threads at once);\n'
               '   false: no lock.  The sequential meaning of the method is the same either way'))

    # ------------------------------------------------------------------ __getitem__ / open_dataset
    o = match_function(xa, 'SeismicZfpBackendEntrypoint.open_dataset', T_OPEN)
    shp = [_reader_attr(o[f'H_s{j}'], 'open_dataset: shape') for j in range(3)]
    for s in shp:
        if s not in READER_ATTRS:
            raise GenFail(f'open_dataset: shape member sgz_reader.{s} is not one of {sorted(READER_ATTRS)}')
    dims = [_str_const(o[f'H_d{j}'], 'open_dataset: dims') for j in range(3)]
    cks = [_str_const(o[f'H_c{j}'], 'open_dataset: coords') for j in range(3)]
    cvs = [_reader_attr(o[f'H_v{j}'], 'open_dataset: coords') for j in range(3)]
    emit('\n(* ---- __getitem__: indexing.explicit_indexing_adapter(key, self.shape, indexing.IndexingSupport.<support>,\n'
         '   self._raw_indexing_method); open_dataset: shape = (...); SeismicZfpBackendArray(shape, np.float32, sgz_reader);\n'
         '   {"data": (dims, indexing.LazilyIndexedArray(backend_array))}; coords = {dim: sgz_reader.<attr>} ---- *)\n')
    emit(_defn('xa_indexing_support', [], 'string', f'"{sup.split(".")[-1]}"%string'))
    emit(_defn('xa_shape', [('H', 'hdr')], 'Z * Z * Z', '(' + ', '.join(f'{READER_ATTRS[s]} H' for s in shp) + ')', 'self.shape'))
    emit(_defn('xa_dims', [], 'list string', _coq_strs(dims)))
    emit(_defn('xa_coords', [], 'list (string * string)', '[' + '; '.join(f'("{k}", "{v}")' for k, v in zip(cks, cvs)) + ']%string'))
    emit(_defn('xa_lazily_indexed', [], 'bool', 'true', 'the backend array is handed to xarray inside indexing.LazilyIndexedArray'))

    # ------------------------------------------------------------------ tools.cube
    timports = [ast.unparse(s) for s in tl.body if isinstance(s, (ast.Import, ast.ImportFrom))]
    if timports != ['from seismic_zfp.read import SgzReader']:
        raise GenFail(f'tools.py: imports changed: {timports}')
    match_function(tl, 'cube', T_CUBE)
    emit('\n(* ---- tools.py: cube(filename): with SgzReader(filename) as reader: return reader.read_volume() ---- *)\n')
    emit(_defn('xa_cube', [('H', 'hdr')], 'outcome arrv', 'rd_read_volume H'))
    return {'Xarray': ''.join(out)}


if __name__ == '__main__':
    print(generate(sys.argv[1] if len(sys.argv) > 1 else '/repo/seismic_zfp')['Xarray'])
