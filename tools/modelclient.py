"""modelclient.py -- talk to the extracted model (ocaml/_build/driver) over its line protocol."""
import subprocess, os, json, struct

VERIF = os.path.dirname(os.path.dirname(os.path.abspath(__file__)))
DRIVER = os.path.join(VERIF, 'ocaml', '_build', 'driver')
STATUS = os.path.join(VERIF, 'coq', 'Gen', 'STATUS.json')


class ModelError(Exception):
    pass


class Model:
    def __init__(self):
        if not os.path.exists(DRIVER):
            raise ModelError('model driver not built')
        self.p = subprocess.Popen([DRIVER], stdin=subprocess.PIPE, stdout=subprocess.PIPE, text=True, bufsize=1,
                                  env=dict(os.environ, OCAMLRUNPARAM='s=4M,l=64M'))
        self.fields = json.load(open(STATUS))['hdr_fields']
        self.n = 0

    def close(self):
        try:
            self.p.stdin.close()
            self.p.wait(timeout=5)
        except Exception:
            self.p.kill()

    def ask(self, line):
        self.n += 1
        self.p.stdin.write(line + '\n')
        self.p.stdin.flush()
        ans = self.p.stdout.readline()
        if not ans:
            raise ModelError(f'driver died on: {line[:200]}')
        return ans.rstrip('\n')

    def hdr_tokens(self, headerbytes):
        """field values, in the generated record order, parsed from the first header block"""
        vals = []
        for name in self.fields:
            _, kind, off = name.split('_')      # h_u32_4
            off = int(off)
            sign = kind[0]
            width = int(kind[1:]) // 8
            fmt = {('u', 4): '<I', ('i', 4): '<i', ('u', 2): '<H', ('i', 2): '<h'}[(sign, width)]
            vals.append(struct.unpack(fmt, headerbytes[off:off + width])[0])
        return f'H {len(vals)} ' + ' '.join(str(v) for v in vals)

    def call(self, cmd, hdr=None, args=(), mask=None):
        line = cmd
        if hdr is not None:
            line += ' ' + hdr
        line += ' A ' + ' '.join(self.tok(a) for a in args)
        if mask is not None:
            line += f' M {len(mask)} ' + ' '.join('1' if m else '0' for m in mask)
        return parse_answer(self.ask(line.strip()))

    @staticmethod
    def tok(a):
        if a is None:
            return 'N'
        if a is True:
            return '1'
        if a is False:
            return '0'
        return str(int(a))


def parse_answer(ans):
    t = ans.split(' ')
    if t[0] == 'ERR':
        return {'err': t[1], 'detail': ' '.join(t[2:])}
    if t[1] == 'V':
        return {'ints': [int(x) for x in t[2:]]}
    assert t[1] == 'S', ans[:100]
    rank = int(t[2])
    shape = tuple(int(x) for x in t[3:3 + rank])
    p = 3 + rank
    assert t[p] == 'R'
    nr = int(t[p + 1])
    reads = [(int(t[p + 2 + 2 * i]), int(t[p + 3 + 2 * i])) for i in range(nr)]
    p = p + 2 + 2 * nr
    assert t[p] == 'C'
    nc = int(t[p + 1])
    cells = t[p + 2:p + 2 + nc] if nc >= 0 else None
    return {'shape': shape, 'reads': reads, 'cells': cells}


def coalesce(reads):
    """merge adjacent contiguous ranges (order preserved); zero-length reads dropped"""
    out = []
    for off, ln in reads:
        if ln <= 0:
            continue
        if out and out[-1][0] + out[-1][1] == off:
            out[-1] = (out[-1][0], out[-1][1] + ln)
        else:
            out.append((off, ln))
    return out
