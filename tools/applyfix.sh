#!/bin/bash
# applyfix.sh <patch> <demo.py> <commit message file>  -- maintainer helper: apply a repair to /repo as one fix: commit
set -e
P=$1; D=$2; M=$3
cd /repo
test -z "$(git status --porcelain)" || { echo "repo dirty"; exit 2; }
PYTHONHASHSEED=0 /venv/bin/python $D > /dev/null 2>&1 && { echo "demo passes BEFORE the patch: not a demonstration"; exit 3; } || true
git apply $P
if PYTHONHASHSEED=0 /venv/bin/python $D > /tmp/demo.out 2>&1; then echo "demo passes after patch"; else echo "demo FAILS after patch"; tail -5 /tmp/demo.out; git checkout -- .; exit 4; fi
B=$(python3 /verif/tools/baseline.py /repo | tail -1); echo "$B"
case "$B" in *"93/93"*) ;; *) echo "baseline broken"; git checkout -- .; exit 5;; esac
git commit -qaF $M && git log --oneline | head -1
