"""genx_accessors: plug-in generator for C13 -- translates the key-resolution code of seismic_zfp/accessors.py and the
wiring of seismic_zfp/segyio_emulator.py into coq/Gen/Accessors.v (written against coq/Model/Accessors.v).

Fail closed: every statement / expression form that is not explicitly recognised raises Unsupported (gen.py then
reports a translation failure of 'Accessors' and removes the file, so Proofs/Accessors.v and Props/C13.v stop compiling).

What is generated
  acc_getitem_slice / acc_getitem_int / acc_len / acc_iter      Accessor.__getitem__, __len__, __iter__
  sla_getitem_slice / sla_getitem_int                            SliceAccessor.__getitem__
  sub_check_subscripts / sub_get_index_subscripts / sub_getitem  SubvolumeAccessor
  acc_wiring, emu_wiring                                         which reader attribute / method each accessor class and
                                                                 each emulator attribute is bound to
A "key" is the argument handed to self.values_function (a line number or an ordinal); the values are C02's matter.
Types: slice parameters are Model.Accessors.pyslice, keys_object / coords are list Z, everything else Z or option Z
(None).  A name tested with `is None` is an option Z until it has been re-bound.
"""
import ast, os

OUTPUTS = ['Accessors']


class Unsupported(Exception):
    pass


def _fail(node, why):
    raise Unsupported(f'{why}: line {getattr(node, "lineno", "?")}: {ast.unparse(node) if isinstance(node, ast.AST) else node}')


def zlit(n):
    return f'({n})' if n < 0 else str(n)


class Env:
    """types: 'Z', 'optZ', 'slice', 'listZ'.  names: python name -> (coq term, type);
    attrs: self.<attr> -> (coq term, type); refined: ast.dump(option expr) -> coq Z variable known to hold its value"""
    def __init__(self, names, attrs, methods=None):
        self.names = dict(names)
        self.attrs = dict(attrs)
        self.refined = {}
        self.methods = dict(methods or {})
        self.counter = [0]

    def copy(self):
        e = Env(self.names, self.attrs, self.methods)
        e.refined = dict(self.refined)
        e.counter = self.counter
        return e

    def fresh(self, base):
        self.counter[0] += 1
        return f'{base}_{self.counter[0]}'


SLICE_FIELDS = {'start': 'sl_start', 'stop': 'sl_stop', 'step': 'sl_step'}


def typed(node, env):
    """-> (coq term, type) for names / self attributes / slice fields (no computation)"""
    if isinstance(node, ast.Name):
        if node.id not in env.names:
            _fail(node, 'unknown name')
        return env.names[node.id]
    if isinstance(node, ast.Attribute) and isinstance(node.value, ast.Name):
        if node.value.id == 'self':
            if node.attr not in env.attrs:
                _fail(node, 'unknown self attribute')
            return env.attrs[node.attr]
        base, ty = typed(node.value, env)
        if ty == 'slice' and node.attr in SLICE_FIELDS:
            return f'({SLICE_FIELDS[node.attr]} {base})', 'optZ'
    _fail(node, 'not a typed reference')


def is_option(node, env):
    try:
        return typed(node, env)[1] == 'optZ'
    except Unsupported:
        return False


# ---- expressions: M(node) -> Coq term of type `outcome Z`; P(node) -> pure Coq Z term or None
def P(node, env):
    if isinstance(node, ast.Constant) and isinstance(node.value, int) and not isinstance(node.value, bool):
        return zlit(node.value)
    if isinstance(node, (ast.Name, ast.Attribute)):
        t, ty = typed(node, env)
        if ty == 'Z':
            return t
        if ty == 'optZ':
            k = ast.dump(node)
            if k in env.refined:
                return env.refined[k]
            _fail(node, 'int-or-None value used as an int without an `is None` test')
        _fail(node, f'value of type {ty} used as an int')
    if isinstance(node, ast.UnaryOp) and isinstance(node.op, ast.USub):
        a = P(node.operand, env)
        return None if a is None else f'(- {a})'
    if isinstance(node, ast.BinOp) and isinstance(node.op, (ast.Add, ast.Sub, ast.Mult)):
        a, b = P(node.left, env), P(node.right, env)
        if a is None or b is None:
            return None
        return f'({a} {dict(Add="+", Sub="-", Mult="*")[type(node.op).__name__]} {b})'
    if isinstance(node, ast.BinOp) and isinstance(node.op, (ast.FloorDiv, ast.Mod)):
        return None
    if isinstance(node, ast.Call) and isinstance(node.func, ast.Name) and not node.keywords:
        f = node.func.id
        if f == 'int' and len(node.args) == 1:
            return P(node.args[0], env)
        if f == 'abs' and len(node.args) == 1:
            a = P(node.args[0], env)
            return None if a is None else f'(Z.abs {a})'
        if f in ('min', 'max') and len(node.args) == 1:
            t, ty = typed(node.args[0], env)
            if ty != 'listZ':
                _fail(node, 'min/max of a non-sequence')
            return f'({"lmin" if f == "min" else "lmax"} {t})'
        if f == 'len' and len(node.args) == 1:
            a = node.args[0]
            if isinstance(a, ast.Name) and a.id == 'self':
                if 'len(self)' not in env.methods:
                    _fail(node, 'len(self) without a recognised __len__')
                return env.methods['len(self)']
            t, ty = typed(a, env)
            if ty != 'listZ':
                _fail(node, 'len of a non-sequence')
            return f'(zlen {t})'
        if f == 'coord_to_index':
            return None
        _fail(node, 'unknown function')
    if isinstance(node, ast.Subscript):
        return None
    if isinstance(node, ast.IfExp):
        return None
    _fail(node, 'unsupported expression')


def M(node, env):
    p = P(node, env)
    if p is not None:
        return f'Return {p}'
    if isinstance(node, ast.UnaryOp) and isinstance(node.op, ast.USub):
        v = env.fresh('t')
        return f'bind ({M(node.operand, env)}) (fun {v} => Return (- {v}))'
    if isinstance(node, ast.BinOp):
        a, b = env.fresh('t'), env.fresh('t')
        op = type(node.op).__name__
        if op in ('Add', 'Sub', 'Mult'):
            body = f'Return ({a} {dict(Add="+", Sub="-", Mult="*")[op]} {b})'
        elif op == 'FloorDiv':
            body = f'py_floordiv {a} {b}'
        elif op == 'Mod':
            body = f'py_mod {a} {b}'
        else:
            _fail(node, 'unsupported operator')
        return f'bind ({M(node.left, env)}) (fun {a} => bind ({M(node.right, env)}) (fun {b} => {body}))'
    if isinstance(node, ast.Call) and isinstance(node.func, ast.Name) and not node.keywords:
        f = node.func.id
        if f in ('int', 'abs') and len(node.args) == 1:
            v = env.fresh('t')
            return f'bind ({M(node.args[0], env)}) (fun {v} => Return {"(Z.abs " + v + ")" if f == "abs" else v})'
        if f == 'coord_to_index' and len(node.args) == 2:
            t, ty = typed(node.args[1], env)
            if ty != 'listZ':
                _fail(node, 'coord_to_index on a non-sequence')
            v = env.fresh('t')
            return f'bind ({M(node.args[0], env)}) (fun {v} => coord_to_index {v} {t})'
    if isinstance(node, ast.Subscript):
        t, ty = typed(node.value, env)
        if ty != 'listZ':
            _fail(node, 'subscript of a non-sequence')
        idx = node.slice
        if isinstance(idx, ast.UnaryOp) and isinstance(idx.op, ast.USub) and isinstance(idx.operand, ast.Constant):
            c = -idx.operand.value
        elif isinstance(idx, ast.Constant) and isinstance(idx.value, int):
            c = idx.value
        else:
            _fail(node, 'only constant indices are supported')
        return f'seq_get {t} {zlit(c)}'
    if isinstance(node, ast.IfExp):
        return cond(node.test, env, lambda e: M(node.body, e), lambda e: M(node.orelse, e))
    _fail(node, 'unsupported expression')


CMP = {'Lt': ('<?', False), 'LtE': ('<=?', False), 'Gt': ('<?', True), 'GtE': ('<=?', True), 'Eq': ('=?', False)}


def Mbool(node, env):
    """outcome bool term for a comparison (possibly chained)"""
    if not isinstance(node, ast.Compare):
        _fail(node, 'unsupported condition')
    operands = [node.left] + list(node.comparators)
    vs = [env.fresh('c') for _ in operands]
    parts = []
    for i, op in enumerate(node.ops):
        nm = type(op).__name__
        if nm not in CMP:
            _fail(node, 'unsupported comparison')
        sym, swap = CMP[nm]
        a, b = (vs[i + 1], vs[i]) if swap else (vs[i], vs[i + 1])
        parts.append(f'({a} {sym} {b})')
    ps = [P(o, env) for o in operands]
    if None not in ps:                                     # all operands plain: no temporaries
        txt = f'Return ({" && ".join(parts)})'
        for v, p_ in zip(vs, ps):
            txt = txt.replace(v + ' ', p_ + ' ').replace(v + ')', p_ + ')')
        return txt
    body = f'Return ({" && ".join(parts)})'
    for v, o in reversed(list(zip(vs, operands))):
        body = f'bind ({M(o, env)}) (fun {v} => {body})'
    return body


def cond(node, env, kt, kf):
    """decision tree for a Python condition with short-circuit evaluation; kt / kf: env -> Coq term (same type)"""
    if isinstance(node, ast.BoolOp) and isinstance(node.op, ast.And):
        def chain(vals, e):
            if len(vals) == 1:
                return cond(vals[0], e, kt, kf)
            return cond(vals[0], e, lambda e2: chain(vals[1:], e2), kf)
        return chain(node.values, env)
    if isinstance(node, ast.BoolOp) and isinstance(node.op, ast.Or):
        def chain(vals, e):
            if len(vals) == 1:
                return cond(vals[0], e, kt, kf)
            return cond(vals[0], e, kt, lambda e2: chain(vals[1:], e2))
        return chain(node.values, env)
    if isinstance(node, ast.UnaryOp) and isinstance(node.op, ast.Not):
        return cond(node.operand, env, kf, kt)
    if isinstance(node, ast.Compare) and len(node.ops) == 1 and isinstance(node.ops[0], (ast.Is, ast.IsNot)) \
            and isinstance(node.comparators[0], ast.Constant) and node.comparators[0].value is None:
        t, ty = typed(node.left, env)
        if ty != 'optZ':
            _fail(node, '`is None` on a value that is never None')
        k = ast.dump(node.left)
        if k in env.refined:
            _fail(node, '`is None` test on a value already known')
        v = env.fresh('v')
        e_some = env.copy()
        e_some.refined[k] = v
        none_k, some_k = (kt, kf) if isinstance(node.ops[0], ast.Is) else (kf, kt)
        return f'match {t} with None => {none_k(env.copy())} | Some {v} => {some_k(e_some)} end'
    b = Mbool(node, env)
    if b.startswith('Return (') and 'bind' not in b:
        return f'if {b[len("Return "):]} then {kt(env.copy())} else {kf(env.copy())}'
    v = env.fresh('b')
    return f'bind ({b}) (fun {v} => if {v} then {kt(env.copy())} else {kf(env.copy())})'


# ---- statements: -> Coq term of type outcome <ret>
def is_values_call(node):
    return isinstance(node, ast.Call) and isinstance(node.func, ast.Attribute) and isinstance(node.func.value, ast.Name) \
        and node.func.value.id == 'self' and node.func.attr == 'values_function' and len(node.args) == 1 and not node.keywords


def stmts(body, env, ret):
    """ret: 'keys' (list of keys handed to values_function), 'key' (one key), 'unit', 'triple'"""
    if not body:
        if ret == 'unit':
            return 'Return tt'
        raise Unsupported('function body may fall off its end')
    s, rest = body[0], body[1:]
    if isinstance(s, ast.Expr) and isinstance(s.value, ast.Constant) and isinstance(s.value.value, str):
        return stmts(rest, env, ret)                       # docstring
    # a, b, c = x.start, x.stop, x.step      |  a, b, c = X.indices(len(self))  |  a, b, c = self._method(x, self.attr)
    if isinstance(s, ast.Assign) and len(s.targets) == 1 and isinstance(s.targets[0], ast.Tuple) \
            and all(isinstance(t, ast.Name) for t in s.targets[0].elts):
        names = [t.id for t in s.targets[0].elts]
        v = s.value
        if isinstance(v, ast.Tuple) and len(v.elts) == len(names):
            e = env.copy()
            out = ''
            for n, x in zip(names, v.elts):
                t, ty = typed(x, env)
                e.names[n] = (n, ty)
                out += f'let {n} := {t} in '
            return out + stmts(rest, e, ret)
        if isinstance(v, ast.Call) and isinstance(v.func, ast.Attribute) and v.func.attr == 'indices' and len(v.args) == 1 \
                and len(names) == 3:
            t, ty = typed(v.func.value, env)
            if ty != 'slice':
                _fail(s, '.indices on a non-slice')
            e = env.copy()
            for n in names:
                e.names[n] = (n, 'Z')
            return f'bind (slice_indices {t} {P(v.args[0], env)}) (fun t_ => let \'({", ".join(names)}) := t_ in {stmts(rest, e, ret)})'
        if isinstance(v, ast.Call) and isinstance(v.func, ast.Attribute) and isinstance(v.func.value, ast.Name) \
                and v.func.value.id == 'self' and v.func.attr in env.methods and len(names) == 3:
            args = ' '.join(typed(a, env)[0] for a in v.args)
            e = env.copy()
            for n in names:
                e.names[n] = (n, 'Z')
            return f'bind ({env.methods[v.func.attr]} {args}) (fun t_ => let \'({", ".join(names)}) := t_ in {stmts(rest, e, ret)})'
        _fail(s, 'unsupported tuple assignment')
    # self._check(x, self.attr, "text")  as a statement
    if isinstance(s, ast.Expr) and isinstance(s.value, ast.Call) and isinstance(s.value.func, ast.Attribute) \
            and isinstance(s.value.func.value, ast.Name) and s.value.func.value.id == 'self' and s.value.func.attr in env.methods:
        args = [a for a in s.value.args if not (isinstance(a, ast.Constant) and isinstance(a.value, str))]
        return f'bind ({env.methods[s.value.func.attr]} {" ".join(typed(a, env)[0] for a in args)}) (fun _ => {stmts(rest, env, ret)})'
    # x = expr
    if isinstance(s, ast.Assign) and len(s.targets) == 1 and isinstance(s.targets[0], ast.Name):
        n = s.targets[0].id
        v = env.fresh(n)
        e = env.copy()
        e.names[n] = (v, 'Z')
        return f'bind ({M(s.value, env)}) (fun {v} => {stmts(rest, e, ret)})'
    if isinstance(s, ast.If):
        def only_assign(b):
            return len(b) == 1 and isinstance(b[0], ast.Assign) and len(b[0].targets) == 1 and isinstance(b[0].targets[0], ast.Name)
        def only_raise(b):
            return len(b) == 1 and isinstance(b[0], ast.Raise)
        # if T: x = e1 [else: x = e2]      (x re-bound as an int afterwards)
        if only_assign(s.body) and (not s.orelse or only_assign(s.orelse)):
            n = s.body[0].targets[0].id
            if s.orelse and s.orelse[0].targets[0].id != n:
                _fail(s, 'branches assign different names')

            def keep(e):
                if n not in e.names:
                    _fail(s, 'name may be unbound after the if')
                t, ty = e.names[n]
                if ty == 'Z':
                    return f'Return {t}'
                k = ast.dump(ast.Name(id=n, ctx=ast.Load()))
                if ty == 'optZ' and k in e.refined:
                    return f'Return {e.refined[k]}'
                _fail(s, 'name may still be None after the if')
            term = cond(s.test, env, lambda e: M(s.body[0].value, e),
                        (lambda e: M(s.orelse[0].value, e)) if s.orelse else keep)
            v = env.fresh(n)
            e2 = env.copy()
            e2.names[n] = (v, 'Z')
            e2.refined.pop(ast.dump(ast.Name(id=n, ctx=ast.Load())), None)
            return f'bind ({term}) (fun {v} => {stmts(rest, e2, ret)})'
        # if T: raise IndexError(...)
        if only_raise(s.body) and not s.orelse:
            exc = s.body[0].exc
            if not (isinstance(exc, ast.Call) and isinstance(exc.func, ast.Name) and exc.func.id == 'IndexError'):
                _fail(s, 'only IndexError is supported')
            term = cond(s.test, env, lambda e: 'Raise IndexErr', lambda e: 'Return tt')
            return f'bind ({term}) (fun _ => {stmts(rest, env, ret)})'
        # if T: ...return  else: ...return     (nothing after it)
        if not rest and s.orelse:
            return cond(s.test, env, lambda e: stmts(s.body, e, ret), lambda e: stmts(s.orelse, e, ret))
        _fail(s, 'unsupported if statement')
    if isinstance(s, ast.Return) and not rest:
        v = s.value
        if ret == 'keys' and isinstance(v, ast.ListComp) and len(v.generators) == 1 and not v.generators[0].ifs \
                and isinstance(v.generators[0].target, ast.Name) and is_values_call(v.elt) \
                and isinstance(v.elt.args[0], ast.Name) and v.elt.args[0].id == v.generators[0].target.id:
            it = v.generators[0].iter
            if isinstance(it, ast.Call) and isinstance(it.func, ast.Name) and it.func.id == 'range' and len(it.args) == 3:
                a, b, c = (P(x, env) for x in it.args)
                if None in (a, b, c):
                    _fail(s, 'range arguments must be plain')
                return f'py_range {a} {b} {c}'
        if ret == 'key' and is_values_call(v):
            return M(v.args[0], env)
        if ret == 'triple' and isinstance(v, ast.Tuple) and len(v.elts) == 3:
            ps = [P(x, env) for x in v.elts]
            if None in ps:
                _fail(s, 'returned values must be plain')
            return f'Return ({", ".join(ps)})'
        _fail(s, f'unsupported return for a {ret} function')
    _fail(s, 'unsupported statement')


def find_class(mod, name):
    for n in mod.body:
        if isinstance(n, ast.ClassDef) and n.name == name:
            return n
    raise Unsupported(f'class {name} not found')


def find_method(cls, name):
    for n in cls.body:
        if isinstance(n, ast.FunctionDef) and n.name == name:
            return n
    raise Unsupported(f'method {cls.name}.{name} not found')


def params(fn, expect):
    got = [a.arg for a in fn.args.args]
    if got != expect or fn.args.vararg or fn.args.kwarg or fn.args.kwonlyargs or fn.args.defaults:
        raise Unsupported(f'{fn.name}: parameters {got}, expected {expect}')


def split_getitem(fn):
    """__getitem__(self, subscript): if isinstance(subscript, slice): A  else/elif: B    ->  (A, B)"""
    params(fn, ['self', 'subscript'])
    body = [s for s in fn.body if not (isinstance(s, ast.Expr) and isinstance(s.value, ast.Constant))]
    if len(body) != 1 or not isinstance(body[0], ast.If):
        raise Unsupported(f'{fn.name}: expected a single if statement')
    t = body[0].test
    if not (isinstance(t, ast.Call) and isinstance(t.func, ast.Name) and t.func.id == 'isinstance' and len(t.args) == 2
            and isinstance(t.args[0], ast.Name) and t.args[0].id == 'subscript'
            and isinstance(t.args[1], ast.Name) and t.args[1].id == 'slice'):
        raise Unsupported(f'{fn.name}: expected `if isinstance(subscript, slice)`')
    if not body[0].orelse:
        raise Unsupported(f'{fn.name}: no else branch')
    return body[0].body, body[0].orelse


def generate(srcdir):
    acc = ast.parse(open(os.path.join(srcdir, 'accessors.py')).read())
    emu = ast.parse(open(os.path.join(srcdir, 'segyio_emulator.py')).read())
    out = []
    w = out.append
    w('(* GENERATED by tools/genx_accessors.py from seismic_zfp/accessors.py and seismic_zfp/segyio_emulator.py.  DO NOT EDIT. *)')
    w('From Coq Require Import ZArith List Bool String.\nImport ListNotations.\nFrom SZ Require Import Lib.Py Model.Accessors.\nOpen Scope Z_scope.\n')

    # ---- Accessor
    A = find_class(acc, 'Accessor')
    ln = find_method(A, '__len__')
    params(ln, ['self'])
    if ast.unparse(ln.body[-1]) != 'return self.len_object':
        raise Unsupported('Accessor.__len__ is not `return self.len_object`')
    w('(* Accessor.__len__ *)\nDefinition acc_len (len_object : Z) : Z := len_object.\n')
    methods = {'len(self)': 'len_object'}
    sl, other = split_getitem(find_method(A, '__getitem__'))
    env = Env({'subscript': ('subscript', 'slice')}, {}, methods)
    w('(* Accessor.__getitem__, slice branch: the keys handed to values_function, in order *)')
    w(f'Definition acc_getitem_slice (len_object : Z) (subscript : pyslice) : outcome (list Z) :=\n  {stmts(sl, env, "keys")}.\n')
    env = Env({'subscript': ('subscript', 'Z')}, {}, methods)
    w('(* Accessor.__getitem__, integer branch: the key handed to values_function *)')
    w(f'Definition acc_getitem_int (len_object : Z) (subscript : Z) : outcome Z :=\n  {stmts(other, env, "key")}.\n')
    it = find_method(A, '__iter__')
    params(it, ['self'])
    if ast.unparse(it.body[-1]) != 'return iter(self[:])':
        raise Unsupported('Accessor.__iter__ is not `return iter(self[:])`')
    w('(* Accessor.__iter__ = iter(self[:]); the subclass __getitem__ is passed in *)')
    w('Definition acc_iter (getitem_slice : pyslice -> outcome (list Z)) : outcome (list Z) := getitem_slice (mkslice None None None).\n')

    # ---- SliceAccessor
    S = find_class(acc, 'SliceAccessor')
    if [ast.unparse(b) for b in S.bases] != ['Accessor']:
        raise Unsupported('SliceAccessor base changed')
    if [n.name for n in S.body if isinstance(n, ast.FunctionDef)] != ['__getitem__']:
        raise Unsupported('SliceAccessor defines other methods than __getitem__')
    sl, other = split_getitem(find_method(S, '__getitem__'))
    env = Env({'subscript': ('subscript', 'slice')}, {'keys_object': ('keys_object', 'listZ')}, methods)
    w('(* SliceAccessor.__getitem__, slice branch *)')
    w(f'Definition sla_getitem_slice (keys_object : list Z) (subscript : pyslice) : outcome (list Z) :=\n  {stmts(sl, env, "keys")}.\n')
    env = Env({'subscript': ('subscript', 'Z')}, {'keys_object': ('keys_object', 'listZ')}, methods)
    w('(* SliceAccessor.__getitem__, integer branch *)')
    w(f'Definition sla_getitem_int (keys_object : list Z) (subscript : Z) : outcome Z :=\n  {stmts(other, env, "key")}.\n')

    # ---- SubvolumeAccessor
    V = find_class(acc, 'SubvolumeAccessor')
    chk = find_method(V, '_check_subscripts')
    params(chk, ['self', 'subscript', 'coords', 'coord_name'])
    env = Env({'subscript': ('subscript', 'slice'), 'coords': ('coords', 'listZ')}, {})
    w('(* SubvolumeAccessor._check_subscripts *)')
    w(f'Definition sub_check_subscripts (subscript : pyslice) (coords : list Z) : outcome unit :=\n  {stmts(chk.body, env, "unit")}.\n')
    gi = find_method(V, '_get_index_subscripts')
    params(gi, ['coord_subscript', 'coords'])
    env = Env({'coord_subscript': ('coord_subscript', 'slice'), 'coords': ('coords', 'listZ')}, {})
    w('(* SubvolumeAccessor._get_index_subscripts: (start, step, stop) as ordinals *)')
    w(f'Definition sub_get_index_subscripts (coord_subscript : pyslice) (coords : list Z) : outcome (Z * Z * Z) :=\n  {stmts(gi.body, env, "triple")}.\n')
    g = find_method(V, '__getitem__')
    params(g, ['self', 'subscripts'])
    body = [s for s in g.body if not (isinstance(s, ast.Expr) and isinstance(s.value, ast.Constant))]
    if ast.unparse(body[0]) != 'il, xl, z = subscripts':
        raise Unsupported('SubvolumeAccessor.__getitem__: expected `il, xl, z = subscripts`')
    last = body[-1]
    want = 'return self.read_subvolume(il_start, il_stop, xl_start, xl_stop, z_start, z_stop)[::il_step, ::xl_step, ::z_step]'
    if ast.unparse(last) != want:
        raise Unsupported('SubvolumeAccessor.__getitem__: final read_subvolume call changed')
    env = Env({'il': ('il', 'slice'), 'xl': ('xl', 'slice'), 'z': ('z', 'slice')},
              {'ilines': ('ilines', 'listZ'), 'xlines': ('xlines', 'listZ'), 'zslices_int': ('zslices_int', 'listZ')},
              {'_check_subscripts': 'sub_check_subscripts', '_get_index_subscripts': 'sub_get_index_subscripts'})
    # the result: the ordinal ranges handed to read_subvolume and the strides applied to its result, per axis

    def final(e):
        return 'Return ((il_start, il_stop, il_step), (xl_start, xl_stop, xl_step), (z_start, z_stop, z_step))'
    mid = body[1:-1]
    # translate the statements before the return, then append the fixed result
    def seq(b, e):
        if not b:
            for n in ('il_start', 'il_stop', 'il_step', 'xl_start', 'xl_stop', 'xl_step', 'z_start', 'z_stop', 'z_step'):
                if e.names.get(n) != (n, 'Z'):
                    raise Unsupported(f'SubvolumeAccessor.__getitem__: {n} not bound by _get_index_subscripts')
            return final(e)
        return None
    term = _sub_getitem(mid, env, seq)
    w('(* SubvolumeAccessor.__getitem__: per axis (first ordinal, end ordinal, stride of the [::k] applied to the result) *)')
    w('Definition sub_getitem (ilines xlines zslices_int : list Z) (il xl z : pyslice) : outcome ((Z * Z * Z) * (Z * Z * Z) * (Z * Z * Z)) :=\n  ' + term + '.\n')

    # ---- wiring of the accessor classes
    rows = []
    for cls in acc.body:
        if not isinstance(cls, ast.ClassDef) or cls.name in ('SubvolumeAccessor', 'Accessor', 'SliceAccessor'):
            continue
        base = [ast.unparse(b) for b in cls.bases]
        fns = [n for n in cls.body if isinstance(n, ast.FunctionDef)]
        if len(base) != 1 or [f.name for f in fns] != ['__init__']:
            raise Unsupported(f'class {cls.name}: unexpected shape')
        d = {}
        for s in fns[0].body:
            if isinstance(s, ast.Assign) and len(s.targets) == 1 and isinstance(s.targets[0], ast.Attribute) \
                    and isinstance(s.targets[0].value, ast.Name) and s.targets[0].value.id == 'self':
                d[s.targets[0].attr] = ast.unparse(s.value).replace('self.', '')
            elif ast.unparse(s) == 'super(Accessor, self).__init__(file)':
                pass
            else:
                raise Unsupported(f'class {cls.name}.__init__: unexpected statement {ast.unparse(s)}')
        if sorted(d) != ['keys_object', 'len_object', 'values_function']:
            raise Unsupported(f'class {cls.name}: attributes {sorted(d)}')
        rows.append(f'("{cls.name}", ("{base[0]}", "{d["len_object"]}", "{d["keys_object"]}", "{d["values_function"]}"))')
    w('(* accessor classes: (class, (base class, len_object, keys_object, values_function)) *)')
    w('Definition acc_wiring : list (string * (string * string * string * string)) :=\n  [' + ';\n   '.join(rows) + ']%string.\n')

    # ---- wiring of the emulator
    E = find_class(emu, 'SegyioEmulator')
    init = find_method(E, '__init__')
    rows = []

    def walk(body, guard):
        for s in body:
            if isinstance(s, ast.Expr) and isinstance(s.value, ast.Call) and 'super(' in ast.unparse(s):
                continue
            if isinstance(s, ast.Assign) and len(s.targets) == 1 and isinstance(s.targets[0], ast.Attribute) \
                    and isinstance(s.targets[0].value, ast.Name) and s.targets[0].value.id == 'self':
                rows.append(f'("{guard}", "{s.targets[0].attr}", "{ast.unparse(s.value).replace("self.", "")}")')
            elif isinstance(s, ast.If) and not guard:
                walk(s.body, ast.unparse(s.test).replace('self.', ''))
                walk(s.orelse, 'not ' + ast.unparse(s.test).replace('self.', ''))
            else:
                raise Unsupported(f'SegyioEmulator.__init__: unexpected statement {ast.unparse(s)}')
    walk(init.body, '')
    w('(* SegyioEmulator.__init__: (guard, attribute, bound to) *)')
    w('Definition emu_wiring : list (string * string * string) :=\n  [' + ';\n   '.join(rows) + ']%string.\n')
    return {'Accessors': '\n'.join(out)}


def _sub_getitem(body, env, done):
    """statements of SubvolumeAccessor.__getitem__ between the unpacking and the final return"""
    r = done(body, env)
    if r is not None:
        return r
    s, rest = body[0], body[1:]
    if isinstance(s, ast.Expr) and isinstance(s.value, ast.Call) and isinstance(s.value.func, ast.Attribute) \
            and isinstance(s.value.func.value, ast.Name) and s.value.func.value.id == 'self' and s.value.func.attr in env.methods:
        args = [a for a in s.value.args if not (isinstance(a, ast.Constant) and isinstance(a.value, str))]
        return f'bind ({env.methods[s.value.func.attr]} {" ".join(typed(a, env)[0] for a in args)}) (fun _ =>\n  {_sub_getitem(rest, env, done)})'
    if isinstance(s, ast.Assign) and len(s.targets) == 1 and isinstance(s.targets[0], ast.Tuple) \
            and all(isinstance(t, ast.Name) for t in s.targets[0].elts) and len(s.targets[0].elts) == 3:
        v = s.value
        names = [t.id for t in s.targets[0].elts]
        if isinstance(v, ast.Call) and isinstance(v.func, ast.Attribute) and isinstance(v.func.value, ast.Name) \
                and v.func.value.id == 'self' and v.func.attr in env.methods and not v.keywords:
            args = ' '.join(typed(a, env)[0] for a in v.args)
            e = env.copy()
            for n in names:
                e.names[n] = (n, 'Z')
            return f'bind ({env.methods[v.func.attr]} {args}) (fun t_ => let \'({", ".join(names)}) := t_ in\n  {_sub_getitem(rest, e, done)})'
    _fail(s, 'SubvolumeAccessor.__getitem__: unsupported statement')


if __name__ == '__main__':
    import sys
    print(generate(sys.argv[1] if len(sys.argv) > 1 else '/repo/seismic_zfp')['Accessors'])
