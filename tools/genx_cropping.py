"""genx_cropping.py -- plug-in generator for property C10 (cropping an SGZ file).

Extracts, with Python `ast` and FAIL-CLOSED (any statement or expression that is not recognised raises), from
`seismic_zfp/cropping.py` (class SgzCropper):
  * check_and_correct_bounds : the source refusal (leading `if ...: raise`), the "no range" test, the default ranges,
    the three range tests, the three calls of correct_bounds (axis length, axis number) and the exception raised
  * correct_bounds           : the whole arithmetic, statement by statement, as a `let` chain
  * regenerate_header        : every `header[a:b] = packer(expr)` in program order: guard (an enclosing `if`, else
    true), byte range, packer, expression; and the ONE double-precision patch (D55)
        if bytes_to_double(header[g0:g1]) != 0: header[lo:hi] = double_to_bytes(float(self.zslices[k]))
    with its guard bytes, destination bytes, index expression and its place among the integer patches.  A
    regenerate_header without that statement is refused (the double start of a ZGY-sourced file would stay the source's).
  * write_cropped_file_by_indexes : the layout refusal (if present), the unit counts, the six arguments of
    loader.read_chunk_range, the order "checks, header, chunk read, THEN open(out_file)", the order of the writes, the
    footer loop's skip test (duplicate header words), the reshape, crop window, item size and the padding term of each array
  * write_cropped_file_by_coords / get_index_range : which axis goes with which range, include_stop
and writes them as Gallina definitions over the reader's generated attributes (Gen/Reader.v) into Gen/Cropping.v.
The STATEMENT SKELETON is checked against the one that Model/Cropper.v interprets; every EXPRESSION is translated
whatever it is, so a changed constant, operator, field or formula changes Gen/Cropping.v and the proofs of
Proofs/Cropper.v are re-checked against it.

Conventions of the translation (trusted, validated by the correspondence harness tools/checks/cropping.py):
  * an index range is a pair of Python ints: `r[0]`, `r[1]` become two Coq variables
  * len(self.ilines) / len(self.xlines) / len(self.zslices) are the reader's n_ilines / n_xlines / n_samples
  * self.ilines[k] = il0 + k * il_step etc. (the reader builds its axes with gen_coord_list(start, step, count));
    self.zslices[k] is the sample time (1000 * z0_ms + z0_sub_us + k * dt_us) / 1000 ms (z0_sub_us = 0 unless the source was
    converted from ZGY with a first sample time between two milliseconds); np.int32(self.zslices[k]) = its truncation;
    float(self.zslices[k]) is the reader's binary64 element k (Model/Cropper.v, over the doubles of the source header)
  * self.rate is the rational rd_rate_n / rd_rate_d; `(rate * a * b * c) // 8` is the floor of the exact quotient
  * `//` and `%` are Z.div and Z.modulo (Python floor semantics)
"""
import ast, os

OUTPUTS = ['Cropping']


class Unrecognised(Exception):
    pass


def bad(node, why, fn='cropping'):
    txt = ast.unparse(node) if isinstance(node, ast.AST) else str(node)
    raise Unrecognised(f'{fn}: {why}: `{txt[:200]}` (line {getattr(node, "lineno", "?")})')


def is_self_attr(e, name=None):
    return isinstance(e, ast.Attribute) and isinstance(e.value, ast.Name) and e.value.id == 'self' and \
        (name is None or e.attr == name)


def zl(n):
    return f'({n})' if n < 0 else str(n)


AXIS_LEN = {'ilines': '(rd_n_ilines H)', 'xlines': '(rd_n_xlines H)', 'zslices': '(rd_n_samples H)'}
AXIS_AT = {'ilines': 'crp_ilines_at', 'xlines': 'crp_xlines_at'}
SELF_INT = {'n_ilines': '(rd_n_ilines H)', 'n_xlines': '(rd_n_xlines H)', 'n_samples': '(rd_n_samples H)',
            'n_header_blocks': '(rd_n_header_blocks H)'}
BS = ['(rd_blockshape0 H)', '(rd_blockshape1 H)', '(rd_blockshape2 H)']
BINOPS = {ast.Add: '+', ast.Sub: '-', ast.Mult: '*', ast.FloorDiv: '/', ast.Mod: 'mod'}
CMPOPS = {ast.Gt: '>?', ast.Lt: '<?', ast.GtE: '>=?', ast.LtE: '<=?', ast.Eq: '=?'}


class Tx:
    """expression translator.  Values: ('Z', term) ('B', term) ('P', (t0, t1)) ('Q', (num, den)) ('N',) ('O', name)"""
    def __init__(self, consts, fn):
        self.consts = consts      # module-level integer constants
        self.env = {}             # python local -> value
        self.fn = fn

    def bad(self, node, why):
        bad(node, why, self.fn)

    # ---- typed accessors
    def z(self, e):
        v = self.tx(e)
        if v[0] != 'Z':
            self.bad(e, f'integer expected, got {v[0]}')
        return v[1]

    def b(self, e):
        v = self.tx(e)
        if v[0] == 'B':
            return v[1]
        self.bad(e, f'boolean expected, got {v[0]}')

    def const(self, e):
        """constant-fold an integer expression built from literals and module constants"""
        if isinstance(e, ast.Constant) and isinstance(e.value, int) and not isinstance(e.value, bool):
            return e.value
        if isinstance(e, ast.Name) and e.id in self.consts:
            return self.consts[e.id]
        if isinstance(e, ast.BinOp) and type(e.op) in (ast.Add, ast.Sub, ast.Mult):
            a, c = self.const(e.left), self.const(e.right)
            return a + c if isinstance(e.op, ast.Add) else a - c if isinstance(e.op, ast.Sub) else a * c
        self.bad(e, 'constant integer expected')

    # ---- the translator
    def tx(self, e):
        sp = getattr(self, 'special', None)
        if sp and isinstance(e, ast.AST) and ast.unparse(e) in sp:
            return sp[ast.unparse(e)]
        m = getattr(self, 'tx_' + type(e).__name__, None)
        if m is None:
            self.bad(e, f'expression form {type(e).__name__} not recognised')
        return m(e)

    def tx_Constant(self, e):
        if e.value is None:
            return ('N',)
        if isinstance(e.value, bool):
            return ('B', 'true' if e.value else 'false')
        if isinstance(e.value, int):
            return ('Z', zl(e.value))
        self.bad(e, 'constant not recognised')

    def tx_Name(self, e):
        if e.id in self.env:
            return self.env[e.id]
        if e.id in self.consts:
            return ('Z', zl(self.consts[e.id]))
        self.bad(e, 'unknown name')

    def tx_Tuple(self, e):
        if len(e.elts) != 2:
            self.bad(e, 'only pairs are recognised')
        return ('P', (self.z(e.elts[0]), self.z(e.elts[1])))

    def tx_Attribute(self, e):
        if is_self_attr(e):
            if e.attr in SELF_INT:
                return ('Z', SELF_INT[e.attr])
            if e.attr == 'rate':
                return ('Q', ('(rd_rate_n H)', '(rd_rate_d H)'))
            if e.attr == 'structured':
                return ('B', '(crp_structured H)')
        self.bad(e, 'attribute not recognised')

    def tx_Subscript(self, e):
        if isinstance(e.slice, ast.Slice):
            self.bad(e, 'slice in expression position')
        # self.blockshape[k]
        if is_self_attr(e.value, 'blockshape'):
            if isinstance(e.slice, ast.Constant) and e.slice.value in (0, 1, 2):
                return ('Z', BS[e.slice.value])
            return ('Z', f'(crp_blockshape H {self.z(e.slice)})')
        # self.ilines[k] / self.xlines[k]   (self.zslices only under np.int32, see tx_Call)
        if is_self_attr(e.value) and e.value.attr in AXIS_AT:
            return ('Z', f'({AXIS_AT[e.value.attr]} A {self.z(e.slice)})')
        # pair[0] / pair[1]
        v = self.tx(e.value)
        if v[0] == 'P' and isinstance(e.slice, ast.Constant) and e.slice.value in (0, 1):
            return ('Z', v[1][e.slice.value])
        self.bad(e, 'subscript not recognised')

    def tx_UnaryOp(self, e):
        if isinstance(e.op, ast.Not):
            return ('B', f'(negb {self.b(e.operand)})')
        if isinstance(e.op, ast.USub):
            return ('Z', f'(- {self.z(e.operand)})')
        self.bad(e, 'unary operator not recognised')

    def tx_BoolOp(self, e):
        op = '&&' if isinstance(e.op, ast.And) else '||'
        return ('B', '(' + f' {op} '.join(self.b(v) for v in e.values) + ')')

    def tx_BinOp(self, e):
        if type(e.op) not in BINOPS:
            self.bad(e, 'binary operator not recognised')
        a, c = self.tx(e.left), self.tx(e.right)
        if a[0] == 'Q':
            # rational on the left: rate * int -> rational ; rational // positive int constant -> floor
            if isinstance(e.op, ast.Mult) and c[0] == 'Z':
                return ('Q', (f'({a[1][0]} * {c[1]})', a[1][1]))
            if isinstance(e.op, ast.FloorDiv) and c[0] == 'Z':
                k = self.const(e.right)
                if k <= 0:
                    self.bad(e, 'floor division of a rate by a non-positive constant')
                return ('Z', f'({a[1][0]} / ({a[1][1]} * {k}))')
            self.bad(e, 'operation on the rate not recognised')
        if a[0] != 'Z' or c[0] != 'Z':
            self.bad(e, 'integer operands expected')
        return ('Z', f'({a[1]} {BINOPS[type(e.op)]} {c[1]})')

    def cmp1(self, op, a, c, node):
        if isinstance(op, (ast.Is, ast.IsNot)):
            if c[0] != 'N' or a[0] != 'O':
                self.bad(node, '`is` only as `<range argument> is None`')
            t = f'(crp_is_none {a[1]})'
            return t if isinstance(op, ast.Is) else f'(negb {t})'
        if a[0] == 'P' and c[0] == 'P' and isinstance(op, (ast.Eq, ast.NotEq)):
            t = f'(({a[1][0]} =? {c[1][0]}) && ({a[1][1]} =? {c[1][1]}))'
            return t if isinstance(op, ast.Eq) else f'(negb {t})'
        if a[0] != 'Z' or c[0] != 'Z':
            self.bad(node, 'comparison operands not recognised')
        if isinstance(op, ast.NotEq):
            return f'(negb ({a[1]} =? {c[1]}))'
        if type(op) not in CMPOPS:
            self.bad(node, 'comparison operator not recognised')
        return f'({a[1]} {CMPOPS[type(op)]} {c[1]})'

    def tx_Compare(self, e):
        vals = [self.tx(e.left)] + [self.tx(c) for c in e.comparators]
        parts = [self.cmp1(op, vals[i], vals[i + 1], e) for i, op in enumerate(e.ops)]
        return ('B', parts[0] if len(parts) == 1 else '(' + ' && '.join(parts) + ')')

    def tx_IfExp(self, e):
        c, a, d = self.b(e.test), self.tx(e.body), self.tx(e.orelse)
        if a[0] != 'Z' or d[0] != 'Z':
            self.bad(e, 'conditional expression of integers expected')
        return ('Z', f'(if {c} then {a[1]} else {d[1]})')

    def tx_Call(self, e):
        if e.keywords:
            self.bad(e, 'keyword arguments')
        f = e.func
        if isinstance(f, ast.Name):
            if f.id in ('max', 'min') and len(e.args) == 2:
                return ('Z', f'(Z.{f.id} {self.z(e.args[0])} {self.z(e.args[1])})')
            if f.id == 'pad' and len(e.args) == 2:
                return ('Z', f'(pad {self.z(e.args[0])} {self.z(e.args[1])})')
            if f.id == 'int' and len(e.args) == 1:
                return ('Z', self.z(e.args[0]))     # int() of an integer-valued expression
            if f.id == 'len' and len(e.args) == 1:
                a = e.args[0]
                if is_self_attr(a) and a.attr in AXIS_LEN:
                    return ('Z', AXIS_LEN[a.attr])
                v = self.tx(a)
                if v[0] == 'L':                     # a bytes value of known length
                    return ('Z', v[1])
                self.bad(e, 'len() of something else than an axis or the array bytes')
        # np.int32(self.<axis>[k])
        if isinstance(f, ast.Attribute) and isinstance(f.value, ast.Name) and f.value.id == 'np' and f.attr == 'int32' \
                and len(e.args) == 1:
            a = e.args[0]
            if isinstance(a, ast.Subscript) and is_self_attr(a.value, 'zslices') and not isinstance(a.slice, ast.Slice):
                return ('Z', f'(crp_zslices_at_int32 A {self.z(a.slice)})')
            if isinstance(a, ast.Subscript) and is_self_attr(a.value) and a.value.attr in AXIS_AT:
                return ('Z', self.z(a))             # integer axes: np.int32 is the identity (no overflow modelled)
        self.bad(e, 'call not recognised')


# ----------------------------------------------------------------------------------------------- helpers
def get_consts(srcdir):
    tree = ast.parse(open(os.path.join(srcdir, 'sgzconstants.py')).read())
    consts = {}
    for st in tree.body:
        if isinstance(st, ast.Assign) and len(st.targets) == 1 and isinstance(st.targets[0], ast.Name):
            try:
                v = ast.literal_eval(st.value)
            except Exception:
                continue
            if isinstance(v, int) and not isinstance(v, bool):
                consts[st.targets[0].id] = v
    return consts


def check_packers(srcdir):
    """the struct formats behind the helper packers of utils.py"""
    tree = ast.parse(open(os.path.join(srcdir, 'utils.py')).read())
    want = {'int_to_bytes': "return struct.pack('<I', bytes)",
            'np_float_to_bytes': "return struct.pack('<I', int(numpy_float.astype(int)))",
            'np_float_to_bytes_signed': "return struct.pack('<i', int(numpy_float.astype(int)))",
            'bytes_to_double': "return struct.unpack('<d', bytes)[0]",
            'double_to_bytes': "return struct.pack('<d', value)"}
    seen = {}
    for st in tree.body:
        if isinstance(st, ast.FunctionDef) and st.name in want:
            body = [s for s in st.body if not (isinstance(s, ast.Expr) and isinstance(s.value, ast.Constant))]
            seen[st.name] = '\n'.join(ast.unparse(s) for s in body)
    for k, v in want.items():
        if seen.get(k) != v:
            raise Unrecognised(f'utils.{k} is not `{v}` but `{seen.get(k)}`')


def check_reader_structured(srcdir):
    """crp_structured mirrors these statements of SgzReader.__init__"""
    src = open(os.path.join(srcdir, 'read.py')).read()
    tree = ast.parse(src)
    init = None
    for st in tree.body:
        if isinstance(st, ast.ClassDef) and st.name == 'SgzReader':
            for f in st.body:
                if isinstance(f, ast.FunctionDef) and f.name == '__init__':
                    init = f
    if init is None:
        raise Unrecognised('read.SgzReader.__init__ not found')
    texts = [ast.unparse(s) for s in ast.walk(init) if isinstance(s, (ast.Assign, ast.If))]
    need = ['self.is_2d = self.blockshape[0] == 1',
            'if self.is_2d:\n    self.structured = False\nelse:\n    self.structured = self.tracecount == self.n_ilines * self.n_xlines']
    for n in need:
        if n not in texts:
            raise Unrecognised(f'read.SgzReader.__init__ no longer contains `{n}`')
    # self.structured / self.is_2d assigned nowhere else in __init__
    for s in ast.walk(init):
        if isinstance(s, ast.Assign) and any(is_self_attr(t, 'structured') or is_self_attr(t, 'is_2d') for t in s.targets):
            if ast.unparse(s) not in (need[0], 'self.structured = False',
                                      'self.structured = self.tracecount == self.n_ilines * self.n_xlines'):
                raise Unrecognised(f'read.SgzReader.__init__: unexpected `{ast.unparse(s)}`')


def check_imports(tree):
    """the helper names the translation gives a fixed meaning (utils.py, checked by check_packers / Gen/Utils.v) are the
    ones imported from .utils, and nothing at module level rebinds them"""
    helpers = set(PACKERS) | {'bytes_to_double', 'double_to_bytes', 'pad', 'coord_to_index'}
    imported, rebound = set(), set()
    for st in tree.body:
        if isinstance(st, ast.ImportFrom):
            for al in st.names:
                nm = al.asname or al.name
                if nm in helpers:
                    if st.module == 'utils' and st.level == 1 and al.asname is None:
                        imported.add(nm)
                    else:
                        rebound.add(nm)
        elif isinstance(st, (ast.FunctionDef, ast.ClassDef)) and st.name in helpers:
            rebound.add(st.name)
        elif isinstance(st, ast.Assign):
            rebound |= {tg.id for tg in st.targets if isinstance(tg, ast.Name) and tg.id in helpers}
        elif isinstance(st, ast.Import):
            rebound |= {(al.asname or al.name) for al in st.names if (al.asname or al.name) in helpers}
    used = {n.id for n in ast.walk(tree) if isinstance(n, ast.Name) and n.id in helpers}
    if rebound:
        raise Unrecognised(f'cropping.py binds {sorted(rebound)} to something else than the helper of utils.py')
    if used - imported:
        raise Unrecognised(f'cropping.py uses {sorted(used - imported)} without importing it from .utils')


def strip_doc(body):
    if body and isinstance(body[0], ast.Expr) and isinstance(body[0].value, ast.Constant) and isinstance(body[0].value.value, str):
        return body[1:]
    return body


def is_print(st):
    return isinstance(st, ast.Expr) and isinstance(st.value, ast.Call) and isinstance(st.value.func, ast.Name) and \
        st.value.func.id == 'print'


def raised_exn(st, fn):
    """`raise IndexError(...)` -> 'IndexErr'"""
    if not (isinstance(st, ast.Raise) and st.cause is None and isinstance(st.exc, ast.Call) and isinstance(st.exc.func, ast.Name)):
        bad(st, 'raise statement not recognised', fn)
    table = {'IndexError': 'IndexErr', 'ValueError': 'ValueErr', 'TypeError': 'TypeErr', 'AssertionError': 'AssertErr',
             'RuntimeError': 'RuntimeErr', 'NotImplementedError': 'RuntimeErr'}
    if st.exc.func.id not in table:
        bad(st, 'exception class not recognised', fn)
    return table[st.exc.func.id]


RANGES = ['iline_index_range', 'xline_index_range', 'zslices_index_range']
RV = {'iline_index_range': ('i0', 'i1'), 'xline_index_range': ('x0', 'x1'), 'zslices_index_range': ('z0', 'z1')}
SHORT = {'iline_index_range': 'il', 'xline_index_range': 'xl', 'zslices_index_range': 'zs'}
AXIS_OF = {'iline_index_range': 'ilines', 'xline_index_range': 'xlines', 'zslices_index_range': 'zslices'}
BOX = '(i0 i1 x0 x1 z0 z1 : Z)'


def params_of(fd, fn):
    a = fd.args
    if a.vararg or a.kwarg or a.kwonlyargs or a.posonlyargs:
        bad(fd, 'parameter list not recognised', fn)
    return [p.arg for p in a.args]


# ----------------------------------------------------------------------------------------------- the functions
def gen_correct_bounds(fd, consts):
    fn = 'correct_bounds'
    if params_of(fd, fn) != ['self', 'range_', 'axis_name', 'axis_len', 'axis_num']:
        bad(fd, 'parameters changed', fn)
    t = Tx(consts, fn)
    t.env = {'range_': ('P', ('r0', 'r1')), 'axis_len': ('Z', 'axis_len'), 'axis_num': ('Z', 'axis_num')}
    lets, ret = [], None
    for st in strip_doc(fd.body):
        if ret is not None:
            bad(st, 'statement after return', fn)
        if isinstance(st, ast.Assign) and len(st.targets) == 1 and isinstance(st.targets[0], ast.Name):
            name = st.targets[0].id
            lets.append((name, t.z(st.value)))
            t.env[name] = ('Z', name)
        elif isinstance(st, ast.If) and not st.orelse and all(is_print(s) for s in st.body):
            t.b(st.test)        # must still be a recognisable test; it only guards printing
        elif isinstance(st, ast.Return) and isinstance(st.value, ast.Tuple):
            ret = t.tx(st.value)
        else:
            bad(st, 'statement not recognised', fn)
    if ret is None or ret[0] != 'P':
        bad(fd, 'no `return a, b`', fn)
    out = 'Definition crp_correct_bounds (H : hdr) (r0 r1 axis_len axis_num : Z) : Z * Z :=\n'
    for n, v in lets:
        out += f'  let {n} := {v} in\n'
    out += f'  ({ret[1][0]}, {ret[1][1]}).\n'
    return out


def gen_check(fd, consts):
    fn = 'check_and_correct_bounds'
    if params_of(fd, fn) != ['self'] + RANGES:
        bad(fd, 'parameters changed', fn)
    body = strip_doc(fd.body)
    topt = Tx(consts, fn)           # before the defaults: the arguments are optional
    topt.env = {r: ('O', SHORT[r]) for r in RANGES}
    tres = Tx(consts, fn)           # after the defaults: pairs
    tres.env = {r: ('P', ('r0', 'r1')) for r in RANGES}
    k = 0
    out = ''
    # 1 optional source refusal
    src_refused, src_exn = 'false', 'IndexErr'
    if k < len(body) and isinstance(body[k], ast.If) and not body[k].orelse and len(body[k].body) == 1 and isinstance(body[k].body[0], ast.Raise):
        src_refused = Tx(consts, fn).b(body[k].test)
        src_exn = raised_exn(body[k].body[0], fn)
        k += 1
    out += f'Definition crp_source_refused (H : hdr) : bool := {src_refused}.\nDefinition crp_source_refused_exn : exn := {src_exn}.\n\n'
    # 2 valid_bounds = True
    if not (k < len(body) and ast.unparse(body[k]) == 'valid_bounds = True'):
        bad(body[k], 'expected `valid_bounds = True`', fn)
    k += 1

    def invalidating_if(st):
        return isinstance(st, ast.If) and not st.orelse and len(st.body) >= 1 and \
            ast.unparse(st.body[-1]) == 'valid_bounds = False' and all(is_print(s) for s in st.body[:-1])
    # 3 no-range test
    if not (k < len(body) and invalidating_if(body[k])):
        bad(body[k], 'expected the no-range test', fn)
    out += f'Definition crp_no_range (il xl zs : option (Z * Z)) : bool := {topt.b(body[k].test)}.\n\n'
    k += 1
    # 4 defaults, in the order il, xl, zs
    for r in RANGES:
        st = body[k] if k < len(body) else None
        if not (isinstance(st, ast.If) and not st.orelse and ast.unparse(st.test) == f'{r} is None' and len(st.body) == 1
                and isinstance(st.body[0], ast.Assign) and ast.unparse(st.body[0].targets[0]) == r):
            bad(st or fd, f'expected the default of {r}', fn)
        v = Tx(consts, fn).tx(st.body[0].value)
        if v[0] != 'P':
            bad(st, 'default must be a pair', fn)
        out += f'Definition crp_default_{SHORT[r]} (H : hdr) : Z * Z := ({v[1][0]}, {v[1][1]}).\n'
        k += 1
    out += '\n'
    # 5 err_string
    if k < len(body) and isinstance(body[k], ast.Assign) and isinstance(body[k].value, ast.Constant) and isinstance(body[k].value.value, str):
        k += 1
    # 6 the three range tests, in the order il, xl, zs; each may only mention its own range
    for r in RANGES:
        st = body[k] if k < len(body) else None
        if not (st is not None and invalidating_if(st)):
            bad(st or fd, f'expected the range test of {r}', fn)
        t1 = Tx(consts, fn)
        t1.env = {r: ('P', ('r0', 'r1'))}
        out += f'Definition crp_bad_{SHORT[r]} (H : hdr) (r0 r1 : Z) : bool := {t1.b(st.test)}.\n'
        k += 1
    out += '\n'
    # 7 if valid_bounds: three corrections else raise
    st = body[k] if k < len(body) else None
    if not (isinstance(st, ast.If) and ast.unparse(st.test) == 'valid_bounds' and len(st.body) == 3 and len(st.orelse) == 1):
        bad(st or fd, 'expected `if valid_bounds: <3 corrections> else: raise`', fn)
    for r, s in zip(RANGES, st.body):
        if not (isinstance(s, ast.Assign) and ast.unparse(s.targets[0]) == r and isinstance(s.value, ast.Call)
                and ast.unparse(s.value.func) == 'self.correct_bounds' and len(s.value.args) == 4 and not s.value.keywords
                and ast.unparse(s.value.args[0]) == r and isinstance(s.value.args[1], ast.Constant)):
            bad(s, f'expected the correction of {r}', fn)
        t1 = Tx(consts, fn)
        out += f'Definition crp_corrected_{SHORT[r]} (H : hdr) (r0 r1 : Z) : Z * Z := ' \
               f'crp_correct_bounds H r0 r1 {t1.z(s.value.args[2])} {t1.z(s.value.args[3])}.\n'
    out += f'Definition crp_invalid_exn : exn := {raised_exn(st.orelse[0], fn)}.\n\n'
    k += 1
    # 8 return il, xl, zs
    if not (k == len(body) - 1 and ast.unparse(body[k]) == 'return (' + ', '.join(RANGES) + ')'):
        bad(body[k] if k < len(body) else fd, 'expected `return il, xl, zs` as the last statement', fn)
    return out


PACKERS = {'int_to_bytes': 'PkU32', 'np_float_to_bytes': 'PkU32', 'np_float_to_bytes_signed': 'PkI32'}
STRUCT_FMT = {'>H': 'PkBE16', '<I': 'PkU32', '<i': 'PkI32'}


def box_env(t):
    for r in RANGES:
        t.env[r] = ('P', RV[r])


def header_patch(st, t, fn):
    """header[a:b] = packer(expr)  ->  (a, b, packer, value term)"""
    tg = st.targets[0]
    if not (isinstance(tg.value, ast.Name) and tg.value.id == 'header' and isinstance(tg.slice, ast.Slice)
            and tg.slice.step is None and tg.slice.lower is not None and tg.slice.upper is not None):
        bad(st, 'header patch target not recognised', fn)
    lo, hi = t.const(tg.slice.lower), t.const(tg.slice.upper)
    v = st.value
    if not (isinstance(v, ast.Call) and not v.keywords):
        bad(st, 'header patch value not recognised', fn)
    if isinstance(v.func, ast.Name) and v.func.id in PACKERS and len(v.args) == 1:
        pk, val = PACKERS[v.func.id], t.z(v.args[0])
    elif ast.unparse(v.func) == 'struct.pack' and len(v.args) == 2 and isinstance(v.args[0], ast.Constant) \
            and v.args[0].value in STRUCT_FMT:
        pk, val = STRUCT_FMT[v.args[0].value], t.z(v.args[1])
    else:
        bad(st, 'packer not recognised', fn)
    width = 2 if pk == 'PkBE16' else 4
    if hi - lo != width:
        bad(st, f'a {width}-byte value is assigned to a {hi - lo}-byte slice (the bytearray would change length)', fn)
    return (lo, hi, pk, val)


F64_SLOTS = [(84, 92), (92, 100)]      # the doubles SgzReader._parse_coordinates reads; Model/Cropper.v carries exactly these


def f64_patch(st, t, fn):
    """if bytes_to_double(header[g0:g1]) != 0:
           header[lo:hi] = double_to_bytes(float(self.zslices[<integer expression>]))
       -> ((g0, g1), (lo, hi), index term) ; None when st is not an `if` on bytes_to_double at all"""
    if not (isinstance(st, ast.If) and isinstance(st.test, ast.Compare) and isinstance(st.test.left, ast.Call)
            and isinstance(st.test.left.func, ast.Name) and st.test.left.func.id == 'bytes_to_double'):
        return None
    c = st.test
    if st.orelse or len(st.body) != 1:
        bad(st, 'double patch: exactly one statement under the guard and no else expected', fn)
    if not (len(c.ops) == 1 and isinstance(c.ops[0], ast.NotEq) and len(c.comparators) == 1
            and isinstance(c.comparators[0], ast.Constant) and type(c.comparators[0].value) in (int, float)
            and c.comparators[0].value == 0):
        bad(st, 'double patch: the guard must be `bytes_to_double(header[a:b]) != 0`', fn)

    def header_slice(e, what):
        if not (isinstance(e, ast.Subscript) and isinstance(e.value, ast.Name) and e.value.id == 'header'
                and isinstance(e.slice, ast.Slice) and e.slice.step is None and e.slice.lower is not None
                and e.slice.upper is not None):
            bad(st, f'double patch: {what} must be a slice header[a:b] of the header being patched', fn)
        lo, hi = t.const(e.slice.lower), t.const(e.slice.upper)
        if hi - lo != 8:
            bad(st, f'double patch: {what} header[{lo}:{hi}] is not 8 bytes', fn)
        if (lo, hi) not in F64_SLOTS:
            bad(st, f'double patch: {what} header[{lo}:{hi}] is not one of the doubles the reader parses {F64_SLOTS}', fn)
        return (lo, hi)
    g = c.left
    if g.keywords or len(g.args) != 1:
        bad(st, 'double patch: bytes_to_double takes one argument', fn)
    guard = header_slice(g.args[0], 'the guard')
    a = st.body[0]
    if not (isinstance(a, ast.Assign) and len(a.targets) == 1):
        bad(st, 'double patch: an assignment to a header slice expected under the guard', fn)
    dest = header_slice(a.targets[0], 'the destination')
    v = a.value
    # double_to_bytes(float(self.zslices[k])): struct.pack('<d', x) of the reader's binary64 sample time, no rounding
    if not (isinstance(v, ast.Call) and isinstance(v.func, ast.Name) and v.func.id == 'double_to_bytes' and not v.keywords
            and len(v.args) == 1):
        bad(st, 'double patch: the value must be double_to_bytes(...)', fn)
    f = v.args[0]
    if not (isinstance(f, ast.Call) and isinstance(f.func, ast.Name) and f.func.id == 'float' and not f.keywords
            and len(f.args) == 1):
        bad(st, 'double patch: the value must be double_to_bytes(float(self.zslices[k]))', fn)
    z = f.args[0]
    if not (isinstance(z, ast.Subscript) and is_self_attr(z.value, 'zslices') and not isinstance(z.slice, ast.Slice)):
        bad(st, 'double patch: float() of something else than an element self.zslices[k] of the sample axis', fn)
    return (guard, dest, t.z(z.slice))


def gen_header(fd, consts):
    fn = 'regenerate_header'
    if params_of(fd, fn) != ['self'] + RANGES:
        bad(fd, 'parameters changed', fn)
    t = Tx(consts, fn)
    box_env(t)
    lets, fields, base, ret, f64 = [], [], False, False, []
    for st in strip_doc(fd.body):
        if ret:
            bad(st, 'statement after return', fn)
        if isinstance(st, ast.Assign) and len(st.targets) == 1 and isinstance(st.targets[0], ast.Name):
            name = st.targets[0].id
            if name == 'header':
                if ast.unparse(st.value) != 'bytearray(self.headerbytes).copy()' or base or fields:
                    bad(st, 'the header must start as a copy of the source header', fn)
                base = True
                continue
            lets.append((name, t.z(st.value)))
            t.env[name] = ('Z', name)
        elif isinstance(st, ast.Assign) and len(st.targets) == 1 and isinstance(st.targets[0], ast.Subscript):
            if not base:
                bad(st, 'header patch before the copy of the source header', fn)
            fields.append(('true',) + header_patch(st, t, fn))
        elif isinstance(st, ast.If) and f64_patch(st, t, fn) is not None:
            if not base:
                bad(st, 'header patch before the copy of the source header', fn)
            f64.append((len(fields),) + f64_patch(st, t, fn))
        elif isinstance(st, ast.If) and not st.orelse and len(st.body) == 1 and isinstance(st.body[0], ast.Assign) \
                and len(st.body[0].targets) == 1 and isinstance(st.body[0].targets[0], ast.Subscript):
            if not base:
                bad(st, 'header patch before the copy of the source header', fn)
            fields.append((t.b(st.test),) + header_patch(st.body[0], t, fn))
        elif isinstance(st, ast.Return) and ast.unparse(st) == 'return header':
            ret = True
        else:
            bad(st, 'statement not recognised', fn)
    if not (base and ret):
        bad(fd, 'skeleton changed', fn)
    # D55: a file converted from ZGY keeps its sample axis in the doubles at 84:100, which the reader prefers: exactly one
    # statement must move the double start
    if len(f64) != 1:
        bad(fd, f'{len(f64)} double-precision patches (exactly one expected: a sample crop of a ZGY-sourced file must move '
                'the double start at bytes 84:92, D55)', fn)
    # the guard reads the header as patched so far and the model takes the source's doubles for it: no integer patch,
    # executed or not, may touch the bytes of the two doubles
    for en, lo, hi, pk, val in fields:
        if lo < F64_SLOTS[-1][1] and F64_SLOTS[0][0] < hi:
            bad(fd, f'integer patch header[{lo}:{hi}] overlaps the doubles at bytes {F64_SLOTS[0][0]}:{F64_SLOTS[-1][1]}', fn)
    letchain = ''.join(f'  let {n} := {v} in\n' for n, v in lets)
    out = f'Definition crp_header_fields (H : hdr) (A : axes) {BOX} : list (bool * Z * Z * packer * Z) :=\n' + letchain
    out += '  [' + ';\n   '.join(f'({en}, {lo}, {hi}, {pk}, {val})' for en, lo, hi, pk, val in fields) + '].\n\n'
    pos, guard, dest, idx = f64[0]
    out += '(* the double-precision sample axis of files converted from ZGY (D55).  In program order after the first crp_f64_after\n' \
           '   integer patches:   if bytes_to_double(header[g0:g1]) != 0: header[lo:hi] = double_to_bytes(float(self.zslices[k]))\n' \
           '   crp_f64_guard = (g0, g1), crp_f64_dest = (lo, hi), crp_f64_zslice = k.  The guard reads the header as patched so far;\n' \
           '   no integer patch touches bytes 84..99 (checked by the generator; Proofs/Cropper.v: f64_slots_untouched), so it is\n' \
           '   the double of the SOURCE header.  double_to_bytes(float(x)) = struct.pack(\'<d\', x): the binary64 value itself. *)\n'
    out += f'Definition crp_f64_after : nat := {pos}.\n'
    out += f'Definition crp_f64_guard : Z * Z := ({guard[0]}, {guard[1]}).\n'
    out += f'Definition crp_f64_dest : Z * Z := ({dest[0]}, {dest[1]}).\n'
    out += f'Definition crp_f64_zslice (H : hdr) {BOX} : Z :=\n{letchain}  {idx}.\n'
    return out


def gen_write(fd, consts):
    fn = 'write_cropped_file_by_indexes'
    ps = params_of(fd, fn)
    if ps != ['self', 'out_file'] + RANGES:
        bad(fd, 'parameters changed', fn)
    body = strip_doc(fd.body)
    k = 0
    out = ''
    # 1 the bounds check, first
    want = ', '.join(RANGES) + ' = self.check_and_correct_bounds(' + ', '.join(RANGES) + ')'
    if not (k < len(body) and ast.unparse(body[k]) == want):
        bad(body[k], 'expected the call of check_and_correct_bounds first', fn)
    k += 1
    t = Tx(consts, fn)
    box_env(t)
    # 2 optional layout refusal
    refused, rexn = 'false', 'IndexErr'
    if isinstance(body[k], ast.If) and not body[k].orelse and len(body[k].body) == 1 and isinstance(body[k].body[0], ast.Raise):
        refused, rexn = t.b(body[k].test), raised_exn(body[k].body[0], fn)
        k += 1
    out += f'Definition crp_layout_refused (H : hdr) {BOX} : bool := {refused}.\nDefinition crp_layout_refused_exn : exn := {rexn}.\n\n'
    # 3 integer locals until `header = self.regenerate_header(...)`
    lets = []
    while k < len(body) and isinstance(body[k], ast.Assign) and isinstance(body[k].targets[0], ast.Name) and \
            body[k].targets[0].id != 'header':
        name = body[k].targets[0].id
        lets.append((name, t.z(body[k].value)))
        t.env[name] = ('Z', name)
        k += 1
    letchain = ''.join(f'  let {n} := {v} in\n' for n, v in lets)
    for u in ('il_units', 'xl_units', 'z_units'):
        if u not in t.env:
            bad(fd, f'{u} is not computed before the header', fn)
        out += f'Definition crp_{u} (H : hdr) {BOX} : Z :=\n{letchain}  {u}.\n'
    out += '\n'
    # 4 header
    if not (k < len(body) and ast.unparse(body[k]) == 'header = self.regenerate_header(' + ', '.join(RANGES) + ')'):
        bad(body[k], 'expected header = self.regenerate_header(il, xl, zs)', fn)
    k += 1
    # 5 the chunk read
    st = body[k]
    if not (isinstance(st, ast.Assign) and ast.unparse(st.targets[0]) == 'compressed_bytes' and isinstance(st.value, ast.Call)
            and ast.unparse(st.value.func) == 'self.loader.read_chunk_range' and len(st.value.args) == 6 and not st.value.keywords):
        bad(st, 'expected compressed_bytes = self.loader.read_chunk_range(<6 positional arguments>)', fn)
    args = [t.z(a) for a in st.value.args]
    out += f'(* positional arguments of loader.read_chunk_range: min_il, min_xl, min_z, il_units, xl_units, z_units *)\n' \
           f'Definition crp_chunk_args (H : hdr) {BOX} : Z * Z * Z * Z * Z * Z :=\n{letchain}  ({", ".join(args)}).\n\n'
    k += 1
    # 6 with open(out_file, 'wb') as f -- the ONLY statement that creates the output, after everything that can refuse
    st = body[k]
    if not (k == len(body) - 1 and isinstance(st, ast.With) and len(st.items) == 1
            and ast.unparse(st.items[0].context_expr) == "open(out_file, 'wb')" and isinstance(st.items[0].optional_vars, ast.Name)):
        bad(st, "expected `with open(out_file, 'wb') as f:` as the last statement", fn)
    for earlier in body[:k]:
        for n in ast.walk(earlier):
            if isinstance(n, ast.Call) and isinstance(n.func, ast.Name) and n.func.id == 'open':
                bad(earlier, 'the output is opened before the checks', fn)
    f = st.items[0].optional_vars.id
    wb = st.body
    if not (len(wb) == 4 and ast.unparse(wb[0]) == f'{f}.write(header)' and ast.unparse(wb[1]) == f'{f}.write(compressed_bytes)'
            and ast.unparse(wb[2]) == 'self.read_variant_headers()' and isinstance(wb[3], ast.For) and not wb[3].orelse
            and ast.unparse(wb[3].iter) == 'self.stored_header_keys' and isinstance(wb[3].target, ast.Name)):
        bad(st, 'write sequence not recognised (header, data, read_variant_headers(), loop over stored_header_keys)', fn)
    out += 'Definition crp_write_order : list crp_part := [WrHeader; WrData; WrFooter].\n' \
           'Definition crp_open_after_checks : bool := true.\n\n'
    kv = wb[3].target.id
    fb = wb[3].body
    # optional first statement of the loop: `if <test on k and self.hw_info.table[k][1]>: continue`  (skip this key)
    skip = 'false'
    if fb and isinstance(fb[0], ast.If) and not fb[0].orelse and len(fb[0].body) == 1 and isinstance(fb[0].body[0], ast.Continue):
        ts = Tx(consts, fn)
        ts.env[kv] = ('Z', 'k')
        ts.special = {f'self.hw_info.table[{kv}][1]': ('Z', 'ref')}
        skip = ts.b(fb[0].test)
        fb = fb[1:]
    out += '(* the loop runs over stored_header_keys (every word whose template entry is a file offset, duplicates of another\n' \
           '   word included); k = the header word, ref = hw_info.table[k][1] (the word whose array it uses; k itself for an owner).\n' \
           '   true = this key is skipped (`continue`) *)\n' \
           f'Definition crp_footer_skip (k ref : Z) : bool := {skip}.\n'
    if len(fb) < 3:
        bad(wb[3], 'footer loop body not recognised', fn)
    # header_array = self.variant_headers[k].reshape((A, B)).astype(np.int32)
    s0 = fb[0]
    ok = isinstance(s0, ast.Assign) and isinstance(s0.targets[0], ast.Name) and isinstance(s0.value, ast.Call) and \
        ast.unparse(s0.value.func).startswith(f'self.variant_headers[{kv}].reshape(') and \
        ast.unparse(s0.value.func).endswith('.astype') and ast.unparse(s0.value.args[0]) == 'np.int32'
    if not ok:
        bad(s0, 'footer reshape not recognised', fn)
    resh = s0.value.func.value          # the reshape call
    if not (isinstance(resh, ast.Call) and len(resh.args) == 1 and isinstance(resh.args[0], ast.Tuple)):
        bad(s0, 'reshape argument not recognised', fn)
    shp = Tx(consts, fn).tx(resh.args[0])
    arr = s0.targets[0].id
    out += f'Definition crp_footer_reshape (H : hdr) : Z * Z := ({shp[1][0]}, {shp[1][1]}).\nDefinition crp_footer_itemsize : Z := 4.\n'
    # cropped = header_array[a:b, c:d]
    s1 = fb[1]
    ok = isinstance(s1, ast.Assign) and isinstance(s1.targets[0], ast.Name) and isinstance(s1.value, ast.Subscript) and \
        isinstance(s1.value.value, ast.Name) and s1.value.value.id == arr and isinstance(s1.value.slice, ast.Tuple) and \
        len(s1.value.slice.elts) == 2 and all(isinstance(x, ast.Slice) and x.step is None and x.lower is not None and x.upper is not None
                                              for x in s1.value.slice.elts)
    if not ok:
        bad(s1, 'footer crop window not recognised', fn)
    sl = s1.value.slice.elts
    win = [t.z(sl[0].lower), t.z(sl[0].upper), t.z(sl[1].lower), t.z(sl[1].upper)]
    out += f'(* rows lo, hi ; columns lo, hi of the reshaped array *)\nDefinition crp_footer_window (H : hdr) {BOX} : Z * Z * Z * Z :=\n{letchain}  ({", ".join(win)}).\n'
    crop = s1.targets[0].id
    rest = fb[2:]
    flat = f'{crop}.flatten().tobytes()'
    if len(rest) == 1 and ast.unparse(rest[0]) == f'{f}.write({flat})':
        padterm = '0'
    elif len(rest) == 3 and isinstance(rest[0], ast.Assign) and isinstance(rest[0].targets[0], ast.Name) and \
            ast.unparse(rest[0].value) == flat:
        bname = rest[0].targets[0].id
        s = rest[1]
        if not (isinstance(s, ast.If) and not s.orelse and len(s.body) == 1 and isinstance(s.body[0], ast.AugAssign)
                and isinstance(s.body[0].op, ast.Add) and ast.unparse(s.body[0].target) == bname
                and isinstance(s.body[0].value, ast.Call) and ast.unparse(s.body[0].value.func) == 'bytes'
                and len(s.body[0].value.args) == 1 and ast.unparse(rest[2]) == f'{f}.write({bname})'):
            bad(s, 'footer padding not recognised', fn)
        tp = Tx(consts, fn)
        tp.env[bname] = ('L', 'nbytes')
        cond = version_test(s.test, fn)
        padterm = f'(if {cond} then {tp.z(s.body[0].value.args[0])} else 0)'
    else:
        bad(fb[2] if len(fb) > 2 else wb[3], 'footer write not recognised', fn)
    out += f'(* number of zero bytes appended to an array of nbytes bytes *)\nDefinition crp_footer_pad (H : hdr) (nbytes : Z) : Z := {padterm}.\n'
    return out


def version_test(e, fn):
    """self.file_version > SeismicZfpVersion("a.b.c")"""
    if isinstance(e, ast.Compare) and len(e.ops) == 1 and isinstance(e.ops[0], ast.Gt) and is_self_attr(e.left, 'file_version'):
        c = e.comparators[0]
        if isinstance(c, ast.Call) and isinstance(c.func, ast.Name) and c.func.id == 'SeismicZfpVersion' and len(c.args) == 1 \
                and isinstance(c.args[0], ast.Constant) and isinstance(c.args[0].value, str):
            parts = c.args[0].value.split('.')
            if len(parts) == 3 and all(p.isdigit() for p in parts):
                return f'((rd_file_version_enc H) >? (version_to_encoding {parts[0]} {parts[1]} {parts[2]} false))'
    bad(e, 'version test not recognised', fn)


def gen_coords(cls, consts):
    fn = 'write_cropped_file_by_coords'
    gi = cls['get_index_range']
    want_gi = ['if coord_range is None:\n    return None',
               'return (coord_to_index(coord_range[0], coord_list, include_stop=True), '
               'coord_to_index(coord_range[1], coord_list, include_stop=True))']
    got = [ast.unparse(s) for s in strip_doc(gi.body)]
    if got != want_gi or params_of(gi, 'get_index_range') != ['coord_range', 'coord_list']:
        bad(gi, 'get_index_range changed', 'get_index_range')
    fd = cls[fn]
    if params_of(fd, fn) != ['self', 'out_file', 'iline_coord_range', 'xline_coord_range', 'zslices_coord_range']:
        bad(fd, 'parameters changed', fn)
    body = strip_doc(fd.body)
    want = 'self.write_cropped_file_by_indexes(out_file, self.get_index_range(iline_coord_range, self.ilines), ' \
           'self.get_index_range(xline_coord_range, self.xlines), self.get_index_range(zslices_coord_range, self.zslices))'
    if not (len(body) == 1 and ast.unparse(body[0]) == want):
        bad(fd, 'body changed', fn)
    return '(* by coordinates: each range is looked up in its own axis with coord_to_index(..., include_stop=True); None stays None *)\n' \
           'Definition crp_coords_include_stop : bool := true.\n'


PREAMBLE = '''(* GENERATED by tools/genx_cropping.py from seismic_zfp/cropping.py -- DO NOT EDIT.  Regenerated on every check run. *)
From Coq Require Import ZArith List Bool.
Import ListNotations.
From SZ Require Import Lib.Py Gen.Utils Gen.Version Gen.Reader.
Open Scope Z_scope.

(* ---- fixed conventions of the translation (see the docstring of tools/genx_cropping.py) ---- *)
(* the source axes as the reader builds them: gen_coord_list(start, step, count) *)
Record axes := { ax_z0_ms : Z; ax_dt_us : Z; ax_xl0 : Z; ax_xl_step : Z; ax_il0 : Z; ax_il_step : Z;
                 (* first sample time = 1000 * ax_z0_ms + ax_z0_sub_us microseconds: 0 for every file whose sample axis comes from
                    the integer fields (16:20 is whole milliseconds); a file converted from ZGY may start between milliseconds *)
                 ax_z0_sub_us : Z }.
Definition crp_ilines_at (A : axes) (k : Z) : Z := ax_il0 A + k * ax_il_step A.
Definition crp_xlines_at (A : axes) (k : Z) : Z := ax_xl0 A + k * ax_xl_step A.
(* np.int32(self.zslices[k]): the sample time (1000 * z0_ms + z0_sub_us + k * dt_us) / 1000 truncated towards zero *)
Definition crp_zslices_at_int32 (A : axes) (k : Z) : Z := Z.quot (1000 * ax_z0_ms A + ax_z0_sub_us A + k * ax_dt_us A) 1000.
Definition crp_blockshape (H : hdr) (axis : Z) : Z :=
  if axis =? 0 then rd_blockshape0 H else if axis =? 1 then rd_blockshape1 H else rd_blockshape2 H.
(* SgzReader.__init__: is_2d = (blockshape[0] == 1); structured = False if is_2d else tracecount == n_ilines * n_xlines *)
Definition crp_structured (H : hdr) : bool :=
  if rd_blockshape0_v1 H =? 1 then false else (rd_tracecount H =? rd_n_ilines H * rd_n_xlines H).
Definition crp_is_none (r : option (Z * Z)) : bool := match r with None => true | Some _ => false end.
(* struct formats: '<I', '<i', '>H' *)
Inductive packer := PkU32 | PkI32 | PkBE16.
Inductive crp_part := WrHeader | WrData | WrFooter.

'''


def generate(srcdir):
    consts = get_consts(srcdir)
    check_packers(srcdir)
    check_reader_structured(srcdir)
    tree = ast.parse(open(os.path.join(srcdir, 'cropping.py')).read())
    check_imports(tree)
    cls = None
    for st in tree.body:
        if isinstance(st, ast.ClassDef) and st.name == 'SgzCropper':
            if [ast.unparse(b) for b in st.bases] != ['SgzReader']:
                bad(st, 'base class changed')
            cls = {f.name: f for f in st.body if isinstance(f, ast.FunctionDef)}
            others = [s for s in strip_doc(st.body) if not isinstance(s, ast.FunctionDef)]
            if others:
                bad(others[0], 'class-level statement not recognised')
    if cls is None:
        raise Unrecognised('class SgzCropper not found')
    known = {'__init__', 'check_and_correct_bounds', 'correct_bounds', 'regenerate_header', 'get_index_range',
             'write_cropped_file_by_coords', 'write_cropped_file_by_indexes'}
    if set(cls) != known:
        raise Unrecognised(f'methods of SgzCropper changed: {sorted(set(cls) ^ known)}')
    init = [ast.unparse(s) for s in strip_doc(cls['__init__'].body)]
    if init != ['super().__init__(file, filetype_checking, preload, chunk_cache_size)']:
        bad(cls['__init__'], '__init__ does more than call the reader constructor')
    for name, f in cls.items():
        decos = [ast.unparse(d) for d in f.decorator_list]
        if decos != (['staticmethod'] if name == 'get_index_range' else []):
            bad(f, 'decorators changed')
    text = PREAMBLE
    text += '(* ---- correct_bounds ---- *)\n' + gen_correct_bounds(cls['correct_bounds'], consts) + '\n'
    text += '(* ---- check_and_correct_bounds ---- *)\n' + gen_check(cls['check_and_correct_bounds'], consts)
    text += '(* ---- regenerate_header: (executed?, first byte, last byte + 1, packer, value) in program order ---- *)\n' + \
            gen_header(cls['regenerate_header'], consts) + '\n'
    text += '(* ---- write_cropped_file_by_indexes ---- *)\n' + gen_write(cls['write_cropped_file_by_indexes'], consts) + '\n'
    text += gen_coords(cls, consts)
    return {'Cropping': text}


if __name__ == '__main__':
    import sys
    print(generate(sys.argv[1] if len(sys.argv) > 1 else '/repo/seismic_zfp')['Cropping'])
