#!/usr/bin/env python3
"""mutsweep.py [--n N] [--seed S] [--par P] [--files a.py,b.py] [--out DIR] [--list]   (maintainer tool, not a check)

Automatic operator-level mutation sweep of /repo/seismic_zfp, complementing the hand-made seeded changes: every mutant
is a one-token change (comparison / arithmetic / boolean operator, small integer literal +-1, min<->max, axis index of
blockshape / shape_pad / blocks_per_dim).  For each sampled mutant, in a private scratch copy of /repo and of /verif
(nothing is ever applied to /repo):
  1. the repository's own pinned test-suite (tools/baseline.py): a mutant the tests kill is of no interest;
  2. the registered quick checks of the properties that cover the mutated file, in order, until one reports it.
A mutant that survives both is either equivalent (changes no property) or a blind spot of the machinery: survivors are
listed for manual triage.  Results: <out>/results.jsonl (one line per mutant), <out>/summary.txt.
"""
import sys, os, io, json, tokenize, random, argparse, subprocess, shutil, time, concurrent.futures as cf

VERIF = os.path.dirname(os.path.dirname(os.path.abspath(__file__)))
SRC = '/repo/seismic_zfp'
CHECKS = {
    'loader.py': ['C02', 'C07', 'C17', 'C15', 'C14', 'C09', 'C10', 'C12'],
    'read.py': ['C02', 'C14', 'C07', 'C15', 'C08', 'C04', 'C09', 'C17', 'C18', 'C05', 'C06', 'C13'],
    'conversion_utils.py': ['C01', 'C03', 'C09', 'C11', 'C20', 'C08', 'C04', 'C16', 'C05', 'C19'],
    'conversion.py': ['C03', 'C04', 'C11', 'C12', 'C06', 'C08', 'C01', 'C18', 'C19', 'C20', 'C05', 'C09'],
    'cropping.py': ['C10', 'C03', 'C05'],
    'headers.py': ['C04', 'C03', 'C08', 'C12', 'C06'],
    'accessors.py': ['C13', 'C02', 'C14'],
    'segyio_emulator.py': ['C13', 'C15'],
    'tools.py': ['C13', 'C02'],
    'open.py': ['C13', 'C15'],
    'utils.py': ['C02', 'C05', 'C19', 'C10', 'C14', 'C08', 'C03', 'C17', 'C13'],
    'version.py': ['C03'],
    'sgz_xarray.py': ['C02', 'C07', 'C15'],
    'cli.py': ['C19', 'C11', 'C06'],
    'seismicfile.py': ['C01', 'C03'],
    'sgzconstants.py': ['C03', 'C02'],
}
CMP = {'<': ['<='], '<=': ['<'], '>': ['>='], '>=': ['>'], '==': ['!='], '!=': ['==']}
ARI = {'+': ['-'], '-': ['+'], '//': ['%', '*'], '%': ['//'], '*': ['//']}
AXES = ('blockshape', 'shape_pad', 'blocks_per_dim', 'shape')


def mutants_of(fname):
    path = os.path.join(SRC, fname)
    src = open(path).read()
    toks = list(tokenize.generate_tokens(io.StringIO(src).readline))
    lines = src.split('\n')
    out = []

    def add(tok, new, kind):
        (r, c0), (_, c1) = tok.start, tok.end
        line = lines[r - 1]
        if 'print(' in line or 'raise ' in line or 'msg' in line.split('=')[0] or 'warn' in line:
            return
        out.append(dict(file=fname, line=r, col=c0, end=c1, old=tok.string, new=new, kind=kind, text=line.strip()[:140]))
    depth_stack = []
    for i, t in enumerate(toks):
        prev = toks[i - 1] if i else None
        if t.type == tokenize.OP:
            if t.string in CMP:
                for n in CMP[t.string]:
                    add(t, n, 'cmp')
            elif t.string in ARI:
                # skip unary +/- (previous token is an operator or opening bracket or keyword) and ** / *args
                if t.string in '+-*' and (prev is None or (prev.type == tokenize.OP and prev.string not in (')', ']', '}')) or
                                          (prev.type == tokenize.NAME and prev.string in ('return', 'in', 'and', 'or', 'not', 'if', 'else', 'lambda', 'yield'))):
                    continue
                for n in ARI[t.string]:
                    add(t, n, 'ari')
        elif t.type == tokenize.NAME:
            if t.string == 'and':
                add(t, 'or', 'bool')
            elif t.string == 'or':
                add(t, 'and', 'bool')
            elif t.string == 'min' and toks[i + 1].string == '(':
                add(t, 'max', 'minmax')
            elif t.string == 'max' and toks[i + 1].string == '(':
                add(t, 'min', 'minmax')
        elif t.type == tokenize.NUMBER and t.string.isdigit():
            v = int(t.string)
            # axis index of a shape-like tuple
            if prev is not None and prev.string == '[' and i >= 2 and toks[i - 2].string in AXES and toks[i + 1].string == ']' and v in (0, 1, 2):
                add(t, str((v + 1) % 3), 'axis')
                continue
            if v <= 8 or v in (16, 64, 128, 256, 512, 1000, 4096):
                add(t, str(v + 1), 'const')
                if v > 0:
                    add(t, str(v - 1), 'const')
    return out


def apply_mutant(repo, m):
    p = os.path.join(repo, 'seismic_zfp', m['file'])
    lines = open(p).read().split('\n')
    ln = lines[m['line'] - 1]
    assert ln[m['col']:m['end']] == m['old'], (ln, m)
    lines[m['line'] - 1] = ln[:m['col']] + m['new'] + ln[m['end']:]
    open(p, 'w').write('\n'.join(lines))


def sh(cmd, cwd=None, env=None, timeout=3000):
    try:
        p = subprocess.run(cmd, shell=True, cwd=cwd, env=env, stdout=subprocess.PIPE, stderr=subprocess.STDOUT, text=True, timeout=timeout)
        return p.returncode, p.stdout
    except subprocess.TimeoutExpired as e:
        return 124, (e.stdout or '') if isinstance(e.stdout, str) else ''


def run_one(args):
    idx, m, outdir, only_tests = args
    work = f'/var/tmp/ms_{os.getpid()}_{idx}'
    shutil.rmtree(work, ignore_errors=True)
    os.makedirs(work)
    repo, vf = os.path.join(work, 'repo'), os.path.join(work, 'verif')
    res = dict(m, idx=idx)
    t0 = time.time()
    try:
        sh(f'rsync -a --exclude .git /repo/ {repo}/')
        apply_mutant(repo, m)
        rc, out = sh(f'/venv/bin/python -m py_compile {repo}/seismic_zfp/' + m['file'])
        if rc != 0:
            res['verdict'] = 'no-import'
            return res
        rc, out = sh(f'python3 {VERIF}/tools/baseline.py {repo}', timeout=1500)
        res['baseline'] = out.strip().split('\n')[0][:80]
        if rc != 0:
            res['verdict'] = 'killed-by-tests'
            return res
        if only_tests:
            res['verdict'] = 'passes-tests'
            return res
        ex = ' '.join(f'--exclude {x}' for x in os.environ.get('MUTSWEEP_EXCLUDE', '').split())
        sh(f'rsync -a --exclude .git --exclude replays --exclude seeded --exclude design_probes {ex} {VERIF}/ {vf}/')
        env = dict(os.environ, VERIF_REPO=repo)
        res['checks'] = []
        for pid in CHECKS.get(m['file'], []):
            t = time.time()
            rc, out = sh(f'python3 tools/run.py {pid} --tier quick', cwd=vf, env=env, timeout=2400)
            vl = [l for l in out.split('\n') if l.startswith('VIOLATION')]
            res['checks'].append(dict(pid=pid, rc=rc, wall=round(time.time() - t), n=len(vl),
                                      no_input=all('no-failing-input-found' in l for l in vl) if vl else None))
            if rc != 0 and not vl:
                res['verdict'] = f'check-error:{pid}'
                res['tail'] = out[-600:]
                return res
            if rc != 0 and not all('no-failing-input-found' in l for l in vl):
                res['verdict'] = f'detected:{pid}'
                return res
            if rc != 0 and 'first_noinput' not in res:
                res['first_noinput'] = pid       # reported, but only as a broken obligation: keep looking for a failing input
        if 'first_noinput' in res:
            res['verdict'] = f"detected:{res['first_noinput']}:no-failing-input"
            return res
        res['verdict'] = 'SURVIVED'
        return res
    except Exception as e:
        res['verdict'] = f'tool-error: {e!r}'
        return res
    finally:
        res['wall'] = round(time.time() - t0)
        shutil.rmtree(work, ignore_errors=True)
        with open(os.path.join(outdir, 'results.jsonl'), 'a') as f:
            f.write(json.dumps(res) + '\n')


def main():
    ap = argparse.ArgumentParser()
    ap.add_argument('--n', type=int, default=100)
    ap.add_argument('--seed', type=int, default=0)
    ap.add_argument('--par', type=int, default=4)
    ap.add_argument('--files', default='')
    ap.add_argument('--out', default='/dev/shm/mutsweep')
    ap.add_argument('--list', action='store_true')
    ap.add_argument('--only-tests', action='store_true')
    ap.add_argument('--from-file', default='', help='re-run the mutants listed in a results.jsonl (e.g. survivors)')
    a = ap.parse_args()
    files = a.files.split(',') if a.files else sorted(CHECKS)
    allm = []
    for f in files:
        if os.path.exists(os.path.join(SRC, f)):
            allm += mutants_of(f)
    if a.list:
        from collections import Counter
        print(len(allm), Counter(m['file'] for m in allm))
        return
    if a.from_file:
        pick = [json.loads(l) for l in open(a.from_file)]
        pick = [{k: m[k] for k in ('file', 'line', 'col', 'end', 'old', 'new', 'kind', 'text')} for m in pick]
    else:
        rng = random.Random(a.seed)
        pick = rng.sample(allm, min(a.n, len(allm)))
    os.makedirs(a.out, exist_ok=True)
    with cf.ThreadPoolExecutor(a.par) as ex:
        results = list(ex.map(run_one, [(i, m, a.out, a.only_tests) for i, m in enumerate(pick)]))
    from collections import Counter
    c = Counter(r['verdict'].split(':')[0] for r in results)
    with open(os.path.join(a.out, 'summary.txt'), 'a') as f:
        print(f'seed={a.seed} n={len(pick)}', dict(c), file=f)
        for r in results:
            if r['verdict'] in ('SURVIVED',) or r['verdict'].startswith(('check-error', 'tool-error')):
                print(' ', r['verdict'], r['file'], r['line'], repr(r['old']), '->', repr(r['new']), '|', r['text'], file=f)
    print(dict(c))


if __name__ == '__main__':
    main()
