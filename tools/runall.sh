#!/bin/bash
# runall.sh [tier] : (maintainer) every registered check, one after the other, on the unchanged tree
cd /verif; T=${1:-quick}
for i in 01 02 03 04 05 06 07 08 09 10 11 12 13 14 15 16 17 18 19 20; do
  python3 tools/run.py C$i --tier $T > /dev/shm/runall_C$i.out 2>&1; echo "C$i rc=$? $(tail -n 1 /dev/shm/runall_C$i.out | cut -c1-140)"
done
