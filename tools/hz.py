"""hz.py -- implementation-side harness shared by all checks (run with /venv/bin/python, PYTHONPATH=/repo).

* injects a release-like library version BEFORE seismic_zfp is imported (DESIGN.md section 5)
* file generators (NumPy route, SEG-Y via segyio: regular / irregular / 2D)
* counting / fault-injecting file objects, fake blob client
* the specification decoder (oracle): parses an SGZ file from docs/file-specification.md alone and decodes it
  unit by unit with zfpy
"""
import os, sys, io, types, struct, contextlib, warnings, random, hashlib, json, tempfile, shutil
warnings.filterwarnings("ignore")
REPO = os.environ.get('VERIF_REPO', '/repo')
if REPO not in sys.path:
    sys.path.insert(0, REPO)
import pkg_resources
_real_get_distribution = pkg_resources.get_distribution
VERSION = [os.environ.get("SZV", "0.2.9")]


def _fake_get_distribution(name):
    if name == 'seismic_zfp':
        return types.SimpleNamespace(version=VERSION[0])
    return _real_get_distribution(name)


pkg_resources.get_distribution = _fake_get_distribution
import numpy as np
import segyio
import zfpy
import seismic_zfp
from seismic_zfp.conversion import SegyConverter, NumpyConverter, SgzConverter
from seismic_zfp.read import SgzReader
from seismic_zfp.cropping import SgzCropper
from seismic_zfp import utils as szutils

# ------------------------------------------------------------------ reaping the converter's worker threads
# Every conversion leaves its two daemon threads (compressor, writer) blocked in queue.get() for the life of the process.
# A harness that performs thousands of conversions in one process would run into the system's thread limit ("can't start
# new thread") -- a failure of the harness, not of the library.  After run_conversion_loop has RETURNED (both joins and
# the flush are done) the queues it created are given a poison item, on which the blocked threads raise and exit.  The
# conversion itself is untouched; harnesses that substitute their own Queue/Thread (C16) are left alone.
import threading as _threading, queue as _queue
import seismic_zfp.conversion_utils as _cu
import seismic_zfp.conversion as _conv
_orig_rcl = _cu.run_conversion_loop
_POISON = object()


class _TrackedQueue(_queue.Queue):
    created = []

    def __init__(self, *a, **k):
        super().__init__(*a, **k)
        _TrackedQueue.created.append(self)


class _TrackedThread(_threading.Thread):
    created = []

    def __init__(self, *a, **k):
        super().__init__(*a, **k)
        _TrackedThread.created.append(self)


def _reaping_run_conversion_loop(*a, **k):
    if _cu.Queue is not _queue.Queue or os.environ.get('SZV_NO_REAP'):
        return _orig_rcl(*a, **k)
    _cu.Queue = _TrackedQueue
    mark = len(_TrackedQueue.created)
    track_threads = _cu.Thread is _threading.Thread
    if track_threads:
        _cu.Thread = _TrackedThread
    tmark = len(_TrackedThread.created)
    try:
        return _orig_rcl(*a, **k)
    finally:
        _cu.Queue = _queue.Queue
        if track_threads:
            _cu.Thread = _threading.Thread
        mine, _TrackedQueue.created[mark:] = _TrackedQueue.created[mark:], []
        poisoned = True
        n_workers = max(1, len(_TrackedThread.created[tmark:]))
        for q in mine:
            # one poison item per worker thread that may be blocked on this queue (a changed library may start several)
            for _ in range(n_workers):
                try:
                    q.put_nowait(_POISON)
                except Exception:
                    poisoned = False
                    break
        # wait until the reaped workers are gone: a worker that wakes up later would run its last (failing) statement
        # inside whatever the NEXT case has substituted for zfpy / the file (the C16 harness substitutes both)
        mine_t, _TrackedThread.created[tmark:] = _TrackedThread.created[tmark:], []
        for t in mine_t:
            if t is not _threading.current_thread() and t.ident is not None:
                t.join(3 if poisoned else 0.5)


_prev_excepthook = _threading.excepthook


def _quiet_excepthook(args):
    if args.thread is not None and getattr(args.thread, '_target', None) in (None, _cu.compressor, _cu.writer) and \
            (args.exc_type in (TypeError, ValueError, AttributeError) or args.exc_type.__name__ == 'Abort'):
        return          # a reaped worker thread
    _prev_excepthook(args)


_threading.excepthook = _quiet_excepthook
_cu.run_conversion_loop = _reaping_run_conversion_loop
if getattr(_conv, 'run_conversion_loop', None) is _orig_rcl:
    _conv.run_conversion_loop = _reaping_run_conversion_loop

# ------------------------------------------------------------------ decoy history of every written path
# A result must depend on the file and the arguments only.  A memo that outlives the file it was filled from (keyed by
# path, by path + size, by path + offsets + trace count, by path + mtime ...) is invisible to a harness that writes every
# file under a fresh name and reads it once.  Therefore every SGZ file a harness has the library write gets, right after
# the writer returned, this history at no cost to the harness: the file is set aside, a DECOY of exactly the same length,
# layout, counts and mtime (other line numbers, other hash, data blocks in reverse order, every stored header array
# reversed and shifted) is put under its name and read through the usual entry points, then the real file is put back.
# On a correct library nothing of this can be observed.  SZV_NO_DECOY=1 or hz.DECOY[0] = False switches it off.
DECOY = [os.environ.get('SZV_NO_DECOY') is None]
DECOY_COUNT = [0]


def _exercise_decoy(path):
    import seismic_zfp as _sz
    try:
        with SgzReader(path) as r:
            n = r.tracecount
            for f in (lambda: r.gen_trace_header(0), lambda: r.gen_trace_header(max(0, n - 1)), lambda: r.read_variant_headers(),
                      lambda: r.get_tracefield_values(189), lambda: r.get_tracefield_values(193), lambda: r.get_tracefield_values(115),
                      lambda: r.get_trace(0), lambda: r.get_trace(max(0, n - 1)), lambda: r.read_inline(0), lambda: r.read_crossline(0),
                      lambda: r.read_zslice(0), lambda: r.read_subplane(0, 1, 0, 1), lambda: r.get_source_data_hash(),
                      lambda: r.get_inline_index(int(r.ilines[0])), lambda: r.get_crossline_index(int(r.xlines[0])),
                      lambda: r.get_file_binary_header(), lambda: r.get_unstructured_mask()):
                try:
                    f()
                except Exception:
                    pass
    except Exception:
        pass
    # the same name seen through the other two ways of opening a reader: a blob client and an open file handle
    try:
        class _Blob:
            blob_name = path
            _data = open(path, 'rb').read()

            def download_blob(self, offset=None, length=None):
                d_ = self._data[offset:] if length is None else self._data[offset:offset + length]
                return types.SimpleNamespace(readall=lambda: d_)

            def close(self):
                pass
        for handle in (_Blob(), open(path, 'rb')):
            try:
                with SgzReader(handle) as r:
                    for f in (lambda: r.gen_trace_header(0), lambda: r.get_source_data_hash(), lambda: r.get_tracefield_values(189),
                              lambda: r.get_trace(0), lambda: r.read_inline(0)):
                        try:
                            f()
                        except Exception:
                            pass
            except Exception:
                pass
            finally:
                try:
                    handle.close()
                except Exception:
                    pass
    except Exception:
        pass
    try:
        with _sz.open(path) as f:
            for g in (lambda: f.header[0], lambda: f.trace[0], lambda: f.iline[int(f.ilines[0])], lambda: f.attributes(189)[:], lambda: f.text[0]):
                try:
                    g()
                except Exception:
                    pass
    except Exception:
        pass


def _decoy_history(path):
    if not DECOY[0] or not isinstance(path, str) or not os.path.isfile(path):
        return
    try:
        st = os.stat(path)
        if st.st_size < 8192 or st.st_size > (1 << 23):
            return
        raw = open(path, 'rb').read()
        nhb, ndb = int.from_bytes(raw[0:4], 'little'), int.from_bytes(raw[56:60], 'little')
        hel, nha = int.from_bytes(raw[60:64], 'little'), int.from_bytes(raw[64:68], 'little')
        data0 = 4096 * nhb
        foot0 = data0 + 4096 * ndb
        if nhb < 1 or foot0 > len(raw):
            return
        dec = bytearray(raw)
        for off in (20, 24):
            dec[off:off + 4] = ((int.from_bytes(raw[off:off + 4], 'little') + 7) & 0xffffffff).to_bytes(4, 'little')
        dec[960:980] = bytes(b ^ 0x5a for b in raw[960:980])
        dec[data0:foot0] = b''.join(raw[foot0 - 4096 * (k + 1):foot0 - 4096 * k] for k in range(ndb))
        if nha and hel and (len(raw) - foot0) % nha == 0:
            stride = (len(raw) - foot0) // nha
            for k in range(nha):
                a0 = foot0 + k * stride
                arr = np.frombuffer(raw[a0:a0 + hel], dtype='<i4')[::-1].copy()
                arr[arr != 0] += 1000
                dec[a0:a0 + hel] = arr.tobytes()
        aside = path + '.real~'
        os.replace(path, aside)
        try:
            with open(path, 'wb') as f:
                f.write(bytes(dec))
            os.utime(path, ns=(st.st_atime_ns, st.st_mtime_ns))
            _exercise_decoy(path)
        finally:
            os.replace(aside, path)
        DECOY_COUNT[0] += 1
    except Exception:
        if os.path.exists(path + '.real~'):
            os.replace(path + '.real~', path)


def _with_decoy(cls, name, path_of):
    orig = getattr(cls, name)
    if getattr(orig, '_szv_decoy', False):
        return

    def wrapped(self, *a, **k):
        res = orig(self, *a, **k)
        try:
            out = path_of(a, k)
        except Exception:
            out = None
        _decoy_history(out)
        return res
    wrapped._szv_decoy = True
    wrapped.__name__ = getattr(orig, '__name__', name)
    wrapped.__doc__ = getattr(orig, '__doc__', None)
    wrapped.__wrapped__ = orig
    setattr(cls, name, wrapped)


_first_or = lambda key: (lambda a, k: a[0] if a else k.get(key))
_with_decoy(_conv.SeismicFileConverter, 'run', _first_or('out_filename'))
_with_decoy(_conv.NumpyConverter, 'run', _first_or('out_filename'))
_with_decoy(_conv.SgzConverter, 'convert_to_adv_sgz', _first_or('out_file'))
_with_decoy(SgzCropper, 'write_cropped_file_by_indexes', _first_or('out_file'))

assert os.path.realpath(seismic_zfp.__file__).startswith(os.path.realpath(REPO)), \
    f"seismic_zfp imported from {seismic_zfp.__file__}, expected {REPO}"


def quiet(f, *a, **k):
    with contextlib.redirect_stdout(io.StringIO()), contextlib.redirect_stderr(io.StringIO()):
        return f(*a, **k)


def scratch_dir():
    base = '/dev/shm' if os.path.isdir('/dev/shm') else '/var/tmp'
    return tempfile.mkdtemp(prefix='szv.', dir=base)


# ------------------------------------------------------------------ data generators
def rnd_cube(rng, shape):
    """float32 data with varied magnitude (deterministic from rng: a random.Random)"""
    seed = rng.randrange(2 ** 31)
    g = np.random.RandomState(seed)
    a = g.standard_normal(shape).astype(np.float32)
    a *= np.float32(10.0) ** g.randint(-2, 4)
    return a


def mk_segy(path, data, ilines, xlines, dt_us=4000, t0=0, fmt=5, present=None, hdr=None, sorting=2, ext_text=0):
    """data: (n_il,n_xl,ns) float32. present: bool mask (n_il,n_xl) or None (regular)"""
    n_il, n_xl, ns = data.shape
    spec = segyio.spec()
    spec.format = fmt
    spec.samples = t0 + np.arange(ns) * dt_us / 1000.0
    if ext_text:
        spec.ext_headers = ext_text
    if present is None:
        spec.sorting = sorting
        spec.ilines = np.asarray(ilines)
        spec.xlines = np.asarray(xlines)
        spec.offsets = [0]
        if sorting == 1:      # crossline-sorted file: the inline number varies fastest
            idx = [(i, x) for x in range(n_xl) for i in range(n_il)]
        else:
            idx = [(i, x) for i in range(n_il) for x in range(n_xl)]
    else:
        idx = [(i, x) for i in range(n_il) for x in range(n_xl) if present[i, x]]
        spec.tracecount = len(idx)
    with segyio.create(path, spec) as f:
        f.bin[segyio.BinField.Interval] = dt_us
        f.bin[segyio.BinField.Samples] = ns
        for t, (i, x) in enumerate(idx):
            h = {segyio.TraceField.INLINE_3D: int(ilines[i]), segyio.TraceField.CROSSLINE_3D: int(xlines[x]),
                 segyio.TraceField.TRACE_SAMPLE_INTERVAL: dt_us, segyio.TraceField.TRACE_SAMPLE_COUNT: ns,
                 segyio.TraceField.DelayRecordingTime: t0, segyio.TraceField.offset: 0,
                 segyio.TraceField.CDP_X: 1000 + 7 * i + x, segyio.TraceField.CDP_Y: 5000 + 3 * i - 11 * x}
            if hdr:
                h.update(hdr(t, i, x))
            f.header[t] = h
            f.trace[t] = data[i, x]
    return idx


def mk_segy_2d(path, data, dt_us=4000, t0=0, fmt=5, hdr=None):
    nt, ns = data.shape
    spec = segyio.spec()
    spec.format = fmt
    spec.samples = t0 + np.arange(ns) * dt_us / 1000.0
    spec.tracecount = nt
    with segyio.create(path, spec) as f:
        f.bin[segyio.BinField.Interval] = dt_us
        f.bin[segyio.BinField.Samples] = ns
        for t in range(nt):
            h = {segyio.TraceField.TRACE_SAMPLE_INTERVAL: dt_us, segyio.TraceField.TRACE_SAMPLE_COUNT: ns,
                 segyio.TraceField.DelayRecordingTime: t0, segyio.TraceField.CDP: t + 100,
                 segyio.TraceField.TRACE_SEQUENCE_FILE: t + 1}
            if hdr:
                h.update(hdr(t))
            f.header[t] = h
            f.trace[t] = data[t]


def write_numpy_sgz(path, data, bpv=4, blockshape=(4, 4, -1), ilines=None, xlines=None, samples=None, trace_headers=None):
    kw = {}
    if trace_headers is not None:
        kw['trace_headers'] = trace_headers
    with NumpyConverter(data, ilines=ilines, xlines=xlines, samples=samples, **kw) as c:
        quiet(c.run, path, bits_per_voxel=bpv, blockshape=blockshape)


def write_segy_sgz(sgy, path, bpv=4, blockshape=None, reduce_iops=False, header_detection='heuristic', window=None):
    kw = {}
    if window:
        kw = dict(min_il=window[0], max_il=window[1], min_xl=window[2], max_xl=window[3])
    with quiet(SegyConverter, sgy, **kw) as c:
        quiet(c.run, path, bits_per_voxel=bpv, blockshape=blockshape, reduce_iops=reduce_iops,
              header_detection=header_detection)


# ------------------------------------------------------------------ instrumented file objects
class CountingBlob:
    """stand-in for an azure BlobClient (download_blob(offset=, length=).readall()) recording every (offset, length) request;
    requests arrive from worker threads, so the log is kept under a lock and compared as a sorted list"""
    def __init__(self, path):
        self.blob_name = path
        self._data = open(path, 'rb').read()
        self._lock = _threading.Lock()
        self.log = []
        self.all = []

    def download_blob(self, offset=None, length=None):
        blob = self

        class _D:
            def readall(self_):
                with blob._lock:
                    blob.log.append((offset, length))
                    blob.all.append((offset, length))
                return blob._data[offset:] if length is None else blob._data[offset:offset + length]
        return _D()

    def close(self):
        pass


class CountingFile:
    """file-like object recording every (offset, length) read; optional fault script and truncation"""
    def __init__(self, path, faults=None, limit=None):
        self.name = path
        self._f = open(path, 'rb')
        self._pos = 0
        self.log = []
        self.all = []                   # never cleared
        self.faults = faults or {}      # read ordinal -> 'exc' | 'short' | 'empty'
        self.n = 0
        self.limit = limit              # pretend the file ends here

    def seek(self, off, whence=0):
        assert whence == 0
        self._pos = off
        return off

    def read(self, length=-1):
        k = self.n
        self.n += 1
        self.log.append((self._pos, length))
        self.all.append((self._pos, length))
        kind = self.faults.get(k)
        if kind == 'exc':
            raise OSError(5, 'injected I/O error')
        self._f.seek(self._pos)
        if self.limit is not None:
            length = max(0, min(length, self.limit - self._pos))
        data = self._f.read(length)
        if kind == 'short':
            data = data[:max(0, len(data) - 1 - (len(data) // 3))]
        elif kind == 'empty':
            data = b''
        self._pos += len(data)
        return data

    def readinto(self, b):
        # the same fault script applies to every way of reading from the object (a reader that used readinto and ignored
        # the returned count would otherwise escape the fault injection)
        mv = memoryview(b).cast('B')
        data = self.read(len(mv))
        mv[:len(data)] = data
        return len(data)

    def tell(self):
        return self._pos

    def readable(self):
        return True

    def seekable(self):
        return True

    def close(self):
        self._f.close()


# ------------------------------------------------------------------ the specification decoder (oracle)
class SpecFile:
    """Decoder written from docs/file-specification.md only (plus the two documented version gates).
    Decodes the data section unit by unit: no use of seismic_zfp's reader or loader."""
    def __init__(self, path):
        self.raw = open(path, 'rb').read()
        b = self.raw
        u = lambda o: struct.unpack('<I', b[o:o + 4])[0]
        s = lambda o: struct.unpack('<i', b[o:o + 4])[0]
        self.nhb = u(0)
        self.n_s, self.n_xl, self.n_il = u(4), u(8), u(12)
        self.rate_code = s(40)
        self.bs = (u(44), u(48), u(52))
        self.ndb, self.hel, self.nha, self.tracecount_field, self.ver = u(56), u(60), u(64), u(68), u(72)
        self.is2d = self.bs[0] == 1
        from fractions import Fraction
        self.rate = Fraction(self.rate_code) if self.rate_code > 0 else Fraction(1, -self.rate_code)
        self.data = b[4096 * self.nhb: 4096 * self.nhb + 4096 * self.ndb]
        major, rest = divmod(self.ver, 1024 * 2048)
        minor, rest = divmod(rest, 2048)
        patch, odd = divmod(rest, 2)
        self.version = (major, minor, patch, 0 if odd == 0 else 1)    # dev < release
        self.after_021 = self.version > (0, 2, 1, 1)
        self.tracecount = self.tracecount_field if self.after_021 else self.n_il * self.n_xl
        if self.bs[0] == 0 or self.bs[1] == 0:
            self.bs = (4, 4, int(2048 // self.rate))
        padto = lambda n, m: -(-n // m) * m
        if self.is2d:
            self.shape_pad = (1, padto(self.tracecount, self.bs[1]), padto(self.n_s, self.bs[2]))
            self.ub = int(16 * self.rate) // 8
        else:
            self.shape_pad = (padto(self.n_il, self.bs[0]), padto(self.n_xl, self.bs[1]), padto(self.n_s, self.bs[2]))
            self.ub = int(64 * self.rate) // 8
        if self.ndb == 0 and self.version == (0, 0, 0, 0):
            # files older than the published specification (v0.0.x) do not record the sizes: derive them
            self.ndb = int(self.shape_pad[0] * self.shape_pad[1] * self.shape_pad[2] * self.rate) // 8 // 4096
            self.legacy_sizes = True
        self.data = b[4096 * self.nhb: 4096 * self.nhb + 4096 * self.ndb]
        self.stride = padto(self.hel, 512) if self.after_021 else self.hel
        self._units = None

    def units(self):
        """all units of the data section decoded independently: array (n_units, 4,4,4) or (n_units, 4,4)"""
        if self._units is None:
            n = len(self.data) // self.ub
            rate = float(self.rate)
            if self.is2d:
                arr = zfpy._decompress(bytes(self.data[:n * self.ub]), zfpy.dtype_to_ztype(np.dtype('float32')),
                                       (4, 4 * n), rate=rate)
                self._units = arr.reshape(4, n, 4).transpose(1, 0, 2).copy()
            else:
                arr = zfpy._decompress(bytes(self.data[:n * self.ub]), zfpy.dtype_to_ztype(np.dtype('float32')),
                                       (4, 4, 4 * n), rate=rate)
                self._units = arr.reshape(4, 4, n, 4).transpose(2, 0, 1, 3).copy()
        return self._units

    def unit_index(self, iu, xu, zu):
        u0, u1, u2 = max(self.bs[0] // 4, 1), self.bs[1] // 4, self.bs[2] // 4
        nbx, nbz = self.shape_pad[1] // self.bs[1], self.shape_pad[2] // self.bs[2]
        blk = ((iu // u0) * nbx + xu // u1) * nbz + zu // u2
        inb = ((iu % u0) * u1 + xu % u1) * u2 + zu % u2
        return blk * (u0 * u1 * u2) + inb

    def volume(self):
        """the decoded padded volume, cell by cell from the specification's unit addressing"""
        U = self.units()
        P = self.shape_pad
        if self.is2d:
            out = np.zeros((P[1], P[2]), dtype=np.float32)
            for xu in range(P[1] // 4):
                for zu in range(P[2] // 4):
                    out[4 * xu:4 * xu + 4, 4 * zu:4 * zu + 4] = U[self.unit_index(0, xu, zu)]
            return out
        out = np.zeros(P, dtype=np.float32)
        for iu in range(P[0] // 4):
            for xu in range(P[1] // 4):
                for zu in range(P[2] // 4):
                    out[4 * iu:4 * iu + 4, 4 * xu:4 * xu + 4, 4 * zu:4 * zu + 4] = U[self.unit_index(iu, xu, zu)]
        return out

    def footer_array(self, k):
        off = 4096 * self.nhb + 4096 * self.ndb + k * self.stride
        return np.frombuffer(self.raw[off:off + self.hel], dtype='<i4')

    def expected_length(self):
        return 4096 * self.nhb + 4096 * self.ndb + self.nha * self.stride


def materialize(spec, cells, shape):
    """turn a provenance grid from the model ('off:c', 'Z', 'B' tokens in C order) into float32 values"""
    U = spec.units()
    flat = np.zeros(len(cells), dtype=np.float32)
    bad = False
    for k, tok in enumerate(cells):
        if tok == 'Z':
            flat[k] = 0.0
        elif tok == 'B':
            bad = True
            flat[k] = np.nan
        else:
            off, c = tok.split(':')
            off, c = int(off), int(c)
            if off % spec.ub != 0 or off // spec.ub >= len(U):
                bad = True
                flat[k] = np.nan
            else:
                flat[k] = U[off // spec.ub].reshape(-1)[c]
    return flat.reshape(shape), bad


def bits_equal(a, b):
    a = np.ascontiguousarray(a, dtype=np.float32)
    b = np.ascontiguousarray(b, dtype=np.float32)
    return a.shape == b.shape and a.tobytes() == b.tobytes()


def exc_class(e):
    from seismic_zfp.utils import WrongDimensionalityError
    if isinstance(e, WrongDimensionalityError):
        return 'WrongDim'
    if isinstance(e, IndexError):
        return 'IndexErr'
    if isinstance(e, AssertionError):
        return 'AssertErr'
    if isinstance(e, ValueError):
        return 'ValueErr'
    if isinstance(e, TypeError):
        return 'TypeErr'
    if isinstance(e, ZeroDivisionError):
        return 'ZeroDivErr'
    if isinstance(e, OSError):
        return 'IOErr'
    if isinstance(e, RuntimeError):
        return 'RuntimeErr'
    return 'OtherErr'
