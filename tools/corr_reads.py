"""corr_reads.py -- correspondence (tie 2) and direct oracles for the read paths.

For one SGZ file and one read call it runs
  * the implementation (SgzReader over a counting file object),
  * the extracted model (generated rd_* definitions evaluated by ocaml/_build/driver),
  * the specification oracle (SpecFile: cell-by-cell decode from docs/file-specification.md),
and compares exception class, shape, values bit for bit (model provenance materialised through zfpy) and the
sequence of range reads (after coalescing adjacent ranges).
"""
import os, sys, random, itertools
sys.path.insert(0, os.path.dirname(os.path.abspath(__file__)))
from hz import *
from modelclient import Model, coalesce

LAYOUTS_3D = [
    # (bits_per_voxel, blockshape)
    (4, (4, 4, -1)), (8, (4, 4, -1)), (2, (4, 4, -1)), (1, (4, 4, -1)), (16, (4, 4, -1)), (0.5, (4, 4, -1)),
    (2, (64, 64, 4)), (4, (32, 64, 4)), (8, (32, 32, 4)), (0.5, (128, 128, 4)),
    (8, (8, 8, 64)), (4, (16, 16, 32)), (16, (8, 8, 32)), (1, (16, 16, 128)), (8, (4, 8, 128)), (4, (8, 4, 256)),
    (32, (4, 4, -1)), (0.25, (4, 4, -1)), (2, (8, 8, 256)),
]
LAYOUTS_2D = [(4, (1, 16, -1)), (8, (1, 4, -1)), (2, (1, 64, 256)), (16, (1, 16, 128)), (1, (1, 4, -1)), (4, (1, 256, 32))]


def make_3d_file(rng, d, shape, bpv, bs, name=None, ilines=None, xlines=None):
    a = rnd_cube(rng, shape)
    p = os.path.join(d, name or f'f{rng.randrange(10**9)}.sgz')
    write_numpy_sgz(p, a, bpv=bpv, blockshape=bs, ilines=ilines, xlines=xlines)
    return p, a


def make_2d_file(rng, d, shape, bpv, bs, name=None):
    a = rnd_cube(rng, shape)
    sgy = os.path.join(d, f's{rng.randrange(10**9)}.sgy')
    p = os.path.join(d, name or f'g{rng.randrange(10**9)}.sgz')
    mk_segy_2d(sgy, a)
    write_segy_sgz(sgy, p, bpv=bpv, blockshape=bs)
    os.remove(sgy)
    return p, a


def boundary_values(n, padded, block):
    """interesting ordinals for an axis of real extent n, padded extent `padded`, block size `block`"""
    s = {0, 1, n - 1, n, n + 1, padded - 1, padded, padded + 1, -1, -n, n // 2, 3, 4, 5, 7, 8,
         block - 1, block, block + 1, 2 * block, n + 1000}
    return sorted(s)


class FileUnderTest:
    def __init__(self, path, model, preload=False, backend='file', share=None):
        self.path = path
        self.spec = share.spec if share is not None else SpecFile(path)
        self.vol = share.vol if share is not None else self.spec.volume()
        self.f = CountingFile(path) if backend == 'file' else CountingBlob(path)
        self.r = SgzReader(self.f, preload=preload)
        self.model = model
        self.hdr = model.hdr_tokens(self.spec.raw[:4096]) if model is not None else None
        self.mask = None
        if not self.spec.is2d and self.spec.tracecount != self.spec.n_il * self.spec.n_xl:
            self.r.get_unstructured_mask()
            self.mask = [bool(x) for x in self.r.mask]
        self.data_start = 4096 * self.spec.nhb

    def close(self):
        try:
            self.r.close()
        except Exception:
            pass

    def cold(self):
        self.r.loader.clear_cache()
        self.r._read_containing_chunk_cached.cache_clear()

    # ---- oracle: what the call must return according to the property (C02 / C14)
    def oracle(self, method, args):
        sp = self.spec
        V = self.vol
        n_il, n_xl, n_s = sp.n_il, sp.n_xl, sp.n_s
        IDX, DIM = ('err', 'IndexErr'), ('err', 'WrongDim')
        if sp.is2d:
            nt = sp.tracecount
            if method == 'read_subplane':
                a, b, c, e = args[:4]
                if not (0 <= a < b <= nt and 0 <= c < e <= n_s):
                    return IDX
                return ('val', V[a:b, c:e])
            if method == 'get_trace':
                i, lo, hi = (list(args) + [None, None])[:3]
                if not 0 <= i < nt:
                    return IDX
                lo = 0 if lo is None else lo
                hi = n_s if hi is None else hi
                if not 0 <= lo < hi <= n_s:
                    return IDX
                return ('val', V[i, lo:hi])
            return DIM
        if method == 'read_subplane':
            return DIM
        if method == 'read_inline':
            i, = args
            return ('val', V[i, :n_xl, :n_s]) if 0 <= i < n_il else IDX
        if method == 'read_crossline':
            x, = args
            return ('val', V[:n_il, x, :n_s]) if 0 <= x < n_xl else IDX
        if method == 'read_zslice':
            z, = args
            return ('val', V[:n_il, :n_xl, z]) if 0 <= z < n_s else IDX
        if method == 'read_volume':
            return ('val', V[:n_il, :n_xl, :n_s])
        if method == 'read_subvolume':
            a, b, c, e, f, g = args[:6]
            if not (0 <= a < b <= n_il and 0 <= c < e <= n_xl and 0 <= f < g <= n_s):
                return IDX
            return ('val', V[a:b, c:e, f:g])
        if method == 'get_trace':
            i, lo, hi = (list(args) + [None, None])[:3]
            if self.mask is not None:
                pop = [k for k, m in enumerate(self.mask) if m]
                if not 0 <= i < len(pop):
                    return IDX                 # (negative ordinals are refused like everywhere else: D37 repair)
                i = pop[i]
            if not 0 <= i < n_il * n_xl:
                return IDX
            lo = 0 if lo is None else lo
            hi = n_s if hi is None else hi
            if not 0 <= lo < hi <= n_s:
                return IDX
            return ('val', V[i // n_xl, i % n_xl, lo:hi])
        if method in ('read_correlated_diagonal', 'read_anticorrelated_diagonal'):
            dgn, a, b, lo, hi = args
            if method == 'read_correlated_diagonal':
                if not -n_xl < dgn < n_il:
                    return IDX
                if dgn >= 0:
                    cells = [(k + dgn, k) for k in range(min(n_il - dgn, n_xl))]
                else:
                    cells = [(k, k - dgn) for k in range(min(n_il, n_xl + dgn))]
            else:
                if not 0 <= dgn < n_il + n_xl - 1:
                    return IDX
                cells = [(i, dgn - i) for i in range(n_il) if 0 <= dgn - i < n_xl]
            if a is not None and b is not None:
                if not (0 <= a < b <= len(cells)):
                    return IDX
                cells = cells[a:b]
            if lo is not None and hi is not None:
                if not 0 <= lo < hi <= n_s:
                    return IDX
            else:
                lo, hi = 0, n_s
            return ('val', np.stack([V[i, x, lo:hi] for i, x in cells]))
        raise KeyError(method)

    def impl(self, method, args):
        self.cold()
        self.f.log.clear()
        try:
            out = getattr(self.r, method)(*args)
        except Exception as e:
            return ('err', exc_class(e)), list(self.f.log)
        res = np.asarray(out)
        # what was handed out earlier must still hold what it held when it was returned: a later call of the library must not
        # write into an array it has returned (the caller may still be using it, e.g. when reading a cube slab by slab)
        held = self.__dict__.setdefault('_held', [])
        for (m0, a0, arr0, cp0) in held:
            if self.__dict__.get('alias') is None and not bits_equal(arr0, cp0):
                self.alias = (m0, list(a0), method, list(args))
        held.append((method, args, res, res.copy()))
        del held[:-6]
        return ('val', res), list(self.f.log)

    def model_call(self, method, args):
        m = self.model
        if method == 'read_subvolume':
            a = list(args) + [False, True][len(args) - 6:] if len(args) < 8 else list(args)
        elif method == 'read_subplane':
            a = list(args) + [False][len(args) - 4:] if len(args) < 5 else list(args)
        elif method == 'get_trace':
            a = list(args) + [None, None, False][len(args) - 1:]
        else:
            a = list(args)
        return m.call(method, self.hdr, a, mask=self.mask if method in ('get_trace',) else None)

    def check(self, method, args):
        """returns (ok, kind, detail).  kind: '' | 'oracle' (implementation violates the property on this input)
        | 'corr' (model and implementation disagree)"""
        want = self.oracle(method, args)
        (got, io) = self.impl(method, args)
        # ---- direct oracle on the implementation
        if want[0] == 'err':
            if got != want:
                return False, 'oracle', f'expected {want[1]}, implementation returned {self.describe(got)}'
        elif want[0] == 'val':
            if got[0] != 'val':
                return False, 'oracle', f'expected data, implementation raised {got[1]}'
            if not bits_equal(got[1], want[1]):
                return False, 'oracle', f'value differs from specification decode (shape {got[1].shape} vs {want[1].shape})'
        # ---- correspondence with the model
        mo = self.model_call(method, args)
        if 'err' in mo:
            if got[0] != 'err' or got[1] != mo['err']:
                return False, 'corr', f'model raises {mo["err"]} {mo.get("detail", "")}, implementation {self.describe(got)}'
            return True, '', ''
        if got[0] != 'val':
            return False, 'corr', f'model returns shape {mo["shape"]}, implementation raised {got[1]}'
        if tuple(got[1].shape) != tuple(mo['shape']):
            return False, 'corr', f'shape: model {mo["shape"]} implementation {got[1].shape}'
        if mo['cells'] is not None:
            mv, bad = materialize(self.spec, mo['cells'], mo['shape'])
            if bad or not bits_equal(mv, got[1]):
                return False, 'corr', 'model provenance materialised through zfpy differs from the returned array'
        mreads = mo['reads']
        if method in ('read_correlated_diagonal', 'read_anticorrelated_diagonal'):
            # within one call the chunk LRU (capacity >= chunks on a diagonal, Proofs/Cache.v) serves repeats:
            # the implementation fetches each distinct chunk once, in first-use order
            seen = set()
            mreads = [r for r in mreads if not (r in seen or seen.add(r))]
        exp_io = coalesce([(o + self.data_start, l) for o, l in mreads])
        if self.r.loader.compressed_volume is None and coalesce(io) != exp_io:
            return False, 'corr', f'range reads: model {exp_io[:6]} implementation {coalesce(io)[:6]}'
        return True, '', ''

    @staticmethod
    def describe(got):
        return got[1] if got[0] == 'err' else f'array{tuple(got[1].shape)}'


def calls_for(rng, fut, n_random=30, full=False):
    """structured + random calls for one file: in range, and with one component out of range"""
    sp = fut.spec
    out = []
    if sp.is2d:
        nt, ns = sp.tracecount, sp.n_s
        tv = boundary_values(nt, sp.shape_pad[1], sp.bs[1])
        zv = boundary_values(ns, sp.shape_pad[2], sp.bs[2])
        for t in tv:
            out.append(('get_trace', (t,)))
        for z0, z1 in itertools.islice(itertools.product(zv, zv), 0, None, 5):
            out.append(('get_trace', (rng.randrange(nt), z0, z1)))
        for _ in range(n_random):
            a, b = sorted(rng.sample(range(0, nt + 1), 2)) if nt >= 1 else (0, 1)
            c, e = sorted(rng.sample(range(0, ns + 1), 2))
            out.append(('read_subplane', (a, b, c, e)))
        for t0, t1 in itertools.islice(itertools.product(tv, tv), 0, None, 7):
            out.append(('read_subplane', (t0, t1, 0, ns)))
        for z0, z1 in itertools.islice(itertools.product(zv, zv), 0, None, 7):
            out.append(('read_subplane', (0, nt, z0, z1)))
        out += [('read_inline', (0,)), ('read_crossline', (0,)), ('read_zslice', (0,)), ('read_volume', ()),
                ('read_subvolume', (0, 1, 0, 1, 0, 1)), ('read_correlated_diagonal', (0, None, None, None, None)),
                ('read_anticorrelated_diagonal', (0, None, None, None, None))]
        return out
    n_il, n_xl, n_s = sp.n_il, sp.n_xl, sp.n_s
    iv = boundary_values(n_il, sp.shape_pad[0], sp.bs[0])
    xv = boundary_values(n_xl, sp.shape_pad[1], sp.bs[1])
    zv = boundary_values(n_s, sp.shape_pad[2], sp.bs[2])
    for i in iv:
        out.append(('read_inline', (i,)))
    for x in xv:
        out.append(('read_crossline', (x,)))
    for z in zv:
        out.append(('read_zslice', (z,)))
    out.append(('read_volume', ()))
    out.append(('read_subplane', (0, 1, 0, 1)))
    for _ in range(n_random):
        a, b = sorted(rng.sample(range(0, n_il + 1), 2))
        c, e = sorted(rng.sample(range(0, n_xl + 1), 2))
        f, g = sorted(rng.sample(range(0, n_s + 1), 2))
        out.append(('read_subvolume', (a, b, c, e, f, g)))
    # one component out of range
    for k in range(6):
        for v in (-1, [n_il, n_il, n_xl, n_xl, n_s, n_s][k] + 1, [sp.shape_pad[0], sp.shape_pad[0], sp.shape_pad[1],
                  sp.shape_pad[1], sp.shape_pad[2], sp.shape_pad[2]][k]):
            base = [0, n_il, 0, n_xl, 0, n_s]
            base[k] = v
            out.append(('read_subvolume', tuple(base)))
    out.append(('read_subvolume', (2, 2, 0, n_xl, 0, n_s)))
    out.append(('read_subvolume', (0, n_il, 3, 1, 0, n_s)))
    ntr = n_il * n_xl
    tv = sorted({0, 1, n_xl - 1, n_xl, ntr - 1, ntr, ntr + 1, -1, sp.shape_pad[0] * sp.shape_pad[1] - 1, ntr // 2})
    for t in tv:
        out.append(('get_trace', (t,)))
    for _ in range(n_random // 2):
        t = rng.randrange(ntr)
        lo, hi = sorted(rng.sample(range(0, n_s + 1), 2))
        out.append(('get_trace', (t, lo, hi)))
    # windows whose ends fall on unit / block boundaries (and one sample either side)
    b2 = sp.bs[2]
    ends = sorted({e for e in (4, 8, b2, 2 * b2, 3 * b2, b2 - 1, b2 + 1, b2 - 4, b2 + 4, n_s - 1, n_s, 4 * (n_s // 4), b2 * (n_s // b2)) if 0 < e <= n_s})
    starts = sorted({st for st in (0, 1, 3, 4, b2 - 1, b2, b2 + 1, 4 * ((n_s - 1) // 4)) if 0 <= st < n_s})
    for e in ends:
        for st in starts:
            if st < e and (rng.random() < 0.5 or st == 0):
                out.append(('get_trace', (rng.randrange(ntr), st, e)))
    for w in ((0, n_s + 1), (n_s, n_s + 1), (3, 3), (5, 2), (-1, 3), (0, sp.shape_pad[2]), (None, 3), (2, None)):
        out.append(('get_trace', (rng.randrange(ntr), w[0], w[1])))
    if ntr == sp.tracecount:
        # the documented flag override_unstructured_mapping has no effect on a regular file: same windows, same refusals
        for w in ((0, n_s + 1), (n_s, n_s + 1), (3, 3), (5, 2), (max(0, n_s - 2), min(n_s + 2, sp.shape_pad[2])), (0, sp.shape_pad[2]), (1, n_s), (None, None)):
            out.append(('get_trace', (rng.randrange(ntr), w[0], w[1], True)))
    cds = sorted({-n_xl, -n_xl + 1, -1, 0, 1, n_il - 1, n_il, (n_il - n_xl), (n_il - n_xl) + 1, (n_il - n_xl) - 1})
    for c in cds:
        out.append(('read_correlated_diagonal', (c, None, None, None, None)))
    ads = sorted({-1, 0, 1, n_xl - 1, n_xl, n_il - 1, n_il, n_il + n_xl - 2, n_il + n_xl - 1, min(n_il, n_xl)})
    for a in ads:
        out.append(('read_anticorrelated_diagonal', (a, None, None, None, None)))
    for _ in range(n_random // 3):
        c = rng.randrange(-n_xl + 1, n_il)
        L = szutils.get_correlated_diagonal_length(c, n_il, n_xl)
        a, b = sorted(rng.sample(range(0, L + 1), 2)) if L >= 1 else (0, 1)
        lo, hi = sorted(rng.sample(range(0, n_s + 1), 2))
        out.append(('read_correlated_diagonal', (c, a, b, lo, hi)))
        out.append(('read_correlated_diagonal', (c, a, b, None, None)))
        d = rng.randrange(0, n_il + n_xl - 1)
        L = szutils.get_anticorrelated_diagonal_length(d, n_il, n_xl)
        a, b = sorted(rng.sample(range(0, L + 1), 2)) if L >= 1 else (0, 1)
        out.append(('read_anticorrelated_diagonal', (d, a, b, lo, hi)))
        out.append(('read_anticorrelated_diagonal', (d, None, None, lo, hi)))
    out.append(('read_correlated_diagonal', (0, 0, 1000, None, None)))
    out.append(('read_correlated_diagonal', (0, 1, 1, None, None)))
    out.append(('read_anticorrelated_diagonal', (1, 0, 1, n_s, n_s + 1)))
    # crops that are short enough but END past the diagonal, on diagonals that stop at the crossline edge before the last
    # inline (negative ids) and at the last inline (positive ids): the position past the end belongs to another line
    for dg in sorted({-1, -2, -(n_xl - 2), 1, 2, n_il - 2} & set(range(-n_xl + 1, n_il))):
        L = szutils.get_correlated_diagonal_length(dg, n_il, n_xl)
        if L >= 2:
            for ab in ((1, L + 1), (L - 1, L + 1), (L // 2, L + 1)):
                out.append(('read_correlated_diagonal', (dg, ab[0], ab[1], None, None)))
    for dg in sorted({1, 2, n_xl - 2, n_xl, n_il + n_xl - 3} & set(range(0, n_il + n_xl - 1))):
        L = szutils.get_anticorrelated_diagonal_length(dg, n_il, n_xl)
        if L >= 2:
            for ab in ((1, L + 1), (L - 1, L + 1)):
                out.append(('read_anticorrelated_diagonal', (dg, ab[0], ab[1], None, None)))
    # empty, reversed and over-long crops and sample windows of BOTH diagonal families (the longest diagonals)
    for meth, dg, L in (('read_correlated_diagonal', 0, szutils.get_correlated_diagonal_length(0, n_il, n_xl)),
                        ('read_anticorrelated_diagonal', min(n_il, n_xl) - 1, szutils.get_anticorrelated_diagonal_length(min(n_il, n_xl) - 1, n_il, n_xl))):
        m = max(1, L // 2)
        for ab in ((m, m), (0, 0), (L, L), (m, m - 1), (L, 0), (0, L + 1), (-1, L), (L, L + 1), (1, L + 1), (m, L + 1), (L - 1, L + 1)):
            out.append((meth, (dg, ab[0], ab[1], None, None)))
        z = max(1, n_s // 2)
        for w in ((z, z), (0, 0), (n_s, n_s), (z, z - 1), (0, n_s + 1), (-1, n_s)):
            out.append((meth, (dg, None, None, w[0], w[1])))
            out.append((meth, (dg, 0, L, w[0], w[1])))
    return out


def shapes_for(rng, bs, tier):
    """cube shapes: each axis through below / at / just above one block and every residue mod 4"""
    b0, b1, b2 = bs
    def axis(b):
        c = [2, 3, 4, 5, 6, 7, 8, 9, b - 1, b, b + 1, b + 2, b + 3, 2 * b, 2 * b + 1]
        return [v for v in c if v >= 2]
    out = []
    for _ in range(3 if tier == 'quick' else 12):
        out.append((rng.choice(axis(b0)), rng.choice(axis(b1)), rng.choice(axis(b2))))
    return out


if __name__ == '__main__':
    seed = int(os.environ.get('VERIF_SEED', '0'))
    rng = random.Random(seed)
    m = Model()
    d = scratch_dir()
    nbad = 0
    ncalls = 0
    try:
        for bpv, bs in LAYOUTS_3D[:int(sys.argv[1]) if len(sys.argv) > 1 else 4]:
            bsr = szutils.define_blockshape_3d(bpv, bs)[1]
            for shape in shapes_for(rng, bsr, 'quick')[:2]:
                shape = tuple(min(s, 140) for s in shape)
                p, a = make_3d_file(rng, d, shape, bpv, bs)
                fut = FileUnderTest(p, m)
                for method, args in calls_for(rng, fut, 12):
                    ok, kind, detail = fut.check(method, args)
                    ncalls += 1
                    if not ok:
                        nbad += 1
                        if nbad < 30:
                            print('BAD', kind, shape, bpv, bs, method, args, detail)
                fut.close()
                os.remove(p)
        print('calls', ncalls, 'bad', nbad)
    finally:
        shutil.rmtree(d)
        m.close()
