#!/bin/bash
# reseed.sh [ids...] : (maintainer) re-confirm seeded changes and re-run their checks against the current machinery, 4 at a time
cd /verif
declare -A REL=( [C01]="C03 C19" [C02]="C14 C07" [C03]="C10" [C04]="C03" [C05]="C10" [C07]="C02" [C09]="C02 C16" [C10]="C03" [C11]="C20 C01" [C12]="C03" [C13]="C02" [C14]="C02" [C16]="C01 C09" [C17]="C18" [C18]="C17" [C19]="C01" [C20]="C11" )
IDS=${@:-$(ls seeded)}
mkdir -p /var/tmp/reseed
for sid in $IDS; do
  pid=${sid%%_*}
  cp seeded/$sid/patch.diff /var/tmp/reseed/$sid.diff; cp seeded/$sid/demo.py /var/tmp/reseed/${sid}_demo.py
  echo "python3 tools/seedtest.py $sid $pid /var/tmp/reseed/$sid.diff /var/tmp/reseed/${sid}_demo.py ${REL_ONLY:+}${NOREL:-${REL[$pid]}} > /dev/shm/rs_$sid.log 2>&1"
done | xargs -P ${PAR:-4} -I{} bash -c "{}"
for sid in $IDS; do tail -n 1 /dev/shm/rs_$sid.log; done
rm -rf /var/tmp/reseed
