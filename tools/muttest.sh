#!/bin/bash
# muttest.sh <diff> <harness.py> <pid> [extra args]: (maintainer) run ONE harness against a scratch copy of /repo with the diff applied
D=$1; H=$2; P=$3; shift 3
W=/var/tmp/mt_$$; rm -rf $W; cp -r /repo $W; git -C $W apply $D || { echo "patch does not apply"; rm -rf $W; exit 2; }
cd /verif; VERIF_REPO=$W PYTHONHASHSEED=0 timeout 1500 /venv/bin/python tools/checks/$H --pid $P --tier quick --seed 0 --out /dev/shm/mt_$$.json "$@" 2>&1 | tail -3
python3 - <<EOF
import json
r=json.load(open('/dev/shm/mt_$$.json'))
print('evaluations', r['evaluations'], 'violations', len(r['violations']))
for v in r['violations'][:4]: print(' ', v['kind'], v.get('finding_key'), json.dumps(v['input'])[:220], '|', v['detail'][:220])
EOF
rm -rf $W /dev/shm/mt_$$.json
