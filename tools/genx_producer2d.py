"""genx_producer2d.py -- plug-in generator for C09 (2D lines, writer side).

Reads, with Python `ast`, from seismic_zfp/conversion_utils.py
  * seismic_file_producer_2d : padded shape, number of trace groups, traces_to_read, group buffer shape, the
                               per-group / per-block switch, the z-block loop and the slice bounds, the ORDER of queue.put
  * io_thread_func_2d        : row loop bound, which source trace fills buffer row i (real trace or trace[-1]), the sample
                               copy range and the edge-replication assignment, the header store index
  * make_header (Geometry2d) : every 4-byte integer field written for a 2D file, (offset, value expression)
and from seismic_zfp/conversion.py
  * SeismicFileConverter.detect_geometry : the 2D decision table
and writes coq/Gen/Producer2d.v.  FAIL CLOSED: every statement of the three functions must match one of the shapes
recognised below, in the expected order; anything else raises Unrecognised (reported as a generation failure).
"""
import ast, os

OUTPUTS = ['Producer2d']


class Unrecognised(Exception):
    pass


def need(cond, what, node=None):
    if not cond:
        where = f' (line {node.lineno}: {ast.unparse(node)[:100]})' if node is not None and hasattr(node, 'lineno') else ''
        raise Unrecognised(what + where)


def src(node):
    return ast.unparse(node)


def zlit(k):
    return f'({k})' if k < 0 else str(k)


# ---------------------------------------------------------------- integer expressions -> Gallina
def E(node, env):
    """env: python source text of a sub-expression -> Coq term (str), or tuple name -> tuple of Coq terms"""
    k = src(node)
    if k in env and isinstance(env[k], str):
        return env[k]
    if isinstance(node, ast.Constant):
        need(isinstance(node.value, int) and not isinstance(node.value, bool), 'non-integer constant', node)
        return zlit(node.value)
    if isinstance(node, ast.UnaryOp) and isinstance(node.op, ast.USub):
        return f'(- {E(node.operand, env)})'
    if isinstance(node, ast.BinOp):
        op = {ast.Add: '+', ast.Sub: '-', ast.Mult: '*', ast.FloorDiv: '/', ast.Mod: 'mod'}.get(type(node.op))
        need(op is not None, 'operator not supported', node)
        return f'({E(node.left, env)} {op} {E(node.right, env)})'
    if isinstance(node, ast.Subscript):
        base = src(node.value)
        if base in env and isinstance(env[base], tuple) and isinstance(node.slice, ast.Constant) \
                and isinstance(node.slice.value, int) and 0 <= node.slice.value < len(env[base]):
            return env[base][node.slice.value]
    if isinstance(node, ast.Call) and src(node.func) == 'pad' and len(node.args) == 2 and not node.keywords:
        return f'(pad {E(node.args[0], env)} {E(node.args[1], env)})'
    if isinstance(node, ast.Call) and src(node.func) == 'int' and len(node.args) == 1 and not node.keywords:
        return E(node.args[0], env)
    raise Unrecognised(f'expression not recognised: {k}')


def Bx(node, env):
    if isinstance(node, ast.Compare) and len(node.ops) == 1:
        op = {ast.Gt: '>?', ast.Lt: '<?', ast.GtE: '>=?', ast.LtE: '<=?', ast.Eq: '=?'}.get(type(node.ops[0]))
        need(op is not None, 'comparison not supported', node)
        return f'({E(node.left, env)} {op} {E(node.comparators[0], env)})'
    raise Unrecognised(f'condition not recognised: {src(node)}')


def find_func(tree, name, cls=None):
    body = tree.body
    if cls:
        c = [n for n in body if isinstance(n, ast.ClassDef) and n.name == cls]
        need(len(c) == 1, f'class {cls} not found')
        body = c[0].body
    f = [n for n in body if isinstance(n, ast.FunctionDef) and n.name == name]
    need(len(f) == 1, f'function {name} not found')
    return f[0]


def strip_doc(body):
    if body and isinstance(body[0], ast.Expr) and isinstance(body[0].value, ast.Constant) and isinstance(body[0].value.value, str):
        return body[1:]
    return body


def is_slice(node, lo, hi):
    return isinstance(node, ast.Slice) and node.step is None and \
        ((node.lower is None) if lo is None else (node.lower is not None and src(node.lower) == lo)) and \
        ((node.upper is None) if hi is None else (node.upper is not None and src(node.upper) == hi))


# ---------------------------------------------------------------- seismic_file_producer_2d
def gen_producer(tree):
    f = find_func(tree, 'seismic_file_producer_2d')
    params = [a.arg for a in f.args.args]
    need(params == ['queue', 'seismicfile', 'blockshape', 'store_headers', 'headers_dict', 'geom', 'hash_object', 'verbose'],
         f'seismic_file_producer_2d parameters changed: {params}')
    st = strip_doc(f.body)
    need(len(st) == 5, f'seismic_file_producer_2d: expected 5 top-level statements, found {len(st)}')
    # 1: n_traces, trace_length = len(geom.traces), len(seismicfile.samples)
    need(isinstance(st[0], ast.Assign) and src(st[0]) == 'n_traces, trace_length = (len(geom.traces), len(seismicfile.samples))',
         'first statement is not the (n_traces, trace_length) assignment', st[0])
    env = {'n_traces': 'n_traces', 'trace_length': 'trace_length', 'blockshape': ('1', 'bs1', 'bs2')}
    # 2: padded_shape = (1, pad(..), pad(..))
    s = st[1]
    need(isinstance(s, ast.Assign) and src(s.targets[0]) == 'padded_shape' and isinstance(s.value, ast.Tuple) and len(s.value.elts) == 3,
         'padded_shape assignment not recognised', s)
    need(src(s.value.elts[0]) == '1', 'padded_shape[0] is not the constant 1', s)
    pad1, pad2 = E(s.value.elts[1], env), E(s.value.elts[2], env)
    env['padded_shape'] = ('1', '(p2_padded1 n_traces trace_length bs1 bs2)', '(p2_padded2 n_traces trace_length bs1 bs2)')
    # 3: n_trace_groups = ...
    s = st[2]
    need(isinstance(s, ast.Assign) and src(s.targets[0]) == 'n_trace_groups', 'n_trace_groups assignment not recognised', s)
    ngroups = E(s.value, env)
    env['n_trace_groups'] = '(p2_n_trace_groups n_traces trace_length bs1 bs2)'
    # 4: start_time = time.time()
    need(src(st[3]) == 'start_time = time.time()', 'start_time statement not recognised', st[3])
    # 5: the group loop
    lp = st[4]
    need(isinstance(lp, ast.For) and src(lp.target) == 'trace_group_id' and src(lp.iter) == 'range(n_trace_groups)' and not lp.orelse,
         'group loop is not `for trace_group_id in range(n_trace_groups)`', lp)
    env['trace_group_id'] = 'trace_group_id'
    b = lp.body
    need(len(b) == 6, f'group loop: expected 6 statements, found {len(b)}', lp)
    need(isinstance(b[0], ast.If) and src(b[0].test) == 'verbose' and len(b[0].body) == 1 and not b[0].orelse
         and src(b[0].body[0]).startswith('progress_printer('), 'progress statement not recognised', b[0])
    # traces_to_read
    s = b[1]
    need(isinstance(s, ast.If) and len(s.body) == 1 and len(s.orelse) == 1
         and isinstance(s.body[0], ast.Assign) and src(s.body[0].targets[0]) == 'traces_to_read'
         and isinstance(s.orelse[0], ast.Assign) and src(s.orelse[0].targets[0]) == 'traces_to_read',
         'traces_to_read conditional not recognised', s)
    ttr = f'if {Bx(s.test, env)} then {E(s.body[0].value, env)} else {E(s.orelse[0].value, env)}'
    # buffer allocation
    s = b[2]
    need(isinstance(s, ast.Assign) and src(s.targets[0]) == 'seismic_buffer' and isinstance(s.value, ast.Call)
         and src(s.value.func) == 'np.zeros' and len(s.value.args) == 1 and isinstance(s.value.args[0], ast.Tuple)
         and len(s.value.args[0].elts) == 2 and [k.arg for k in s.value.keywords] == ['dtype']
         and src(s.value.keywords[0].value) == 'np.float32', 'group buffer allocation not recognised', s)
    rows, cols = E(s.value.args[0].elts[0], env), E(s.value.args[0].elts[1], env)
    # io call: arguments passed positionally under the callee's own parameter names
    io = find_func(tree, 'io_thread_func_2d')
    ioparams = [a.arg for a in io.args.args]
    s = b[3]
    need(isinstance(s, ast.Expr) and isinstance(s.value, ast.Call) and src(s.value.func) == 'io_thread_func_2d'
         and not s.value.keywords and [src(x) for x in s.value.args] == ioparams,
         'call of io_thread_func_2d does not pass its parameters by their own names in order', s)
    # hash update (C20's business; recognised and skipped)
    need(src(b[4]) == 'hash_object.update(seismic_buffer[0:traces_to_read, 0:trace_length].copy())',
         'hash update statement not recognised', b[4])
    # the switch
    s = b[5]
    need(isinstance(s, ast.If), 'per-group / per-block switch not found', s)
    whole = Bx(s.test, env)
    need(len(s.body) == 1 and src(s.body[0]) == 'queue.put(seismic_buffer)', 'whole-group branch is not queue.put(seismic_buffer)', s)
    need(len(s.orelse) == 1 and isinstance(s.orelse[0], ast.For), 'per-block branch is not a single loop', s)
    zl = s.orelse[0]
    need(src(zl.target) == 'z' and isinstance(zl.iter, ast.Call) and src(zl.iter.func) == 'range' and len(zl.iter.args) == 1
         and not zl.orelse and len(zl.body) == 2, 'z-block loop not recognised', zl)
    nzb = E(zl.iter.args[0], env)
    env['z'] = 'z'
    a = zl.body[0]
    need(isinstance(a, ast.Assign) and src(a.targets[0]) == 'slice' and isinstance(a.value, ast.Call)
         and isinstance(a.value.func, ast.Attribute) and a.value.func.attr == 'copy' and not a.value.args,
         'block slice statement not recognised', a)
    sub = a.value.func.value
    need(isinstance(sub, ast.Subscript) and src(sub.value) == 'seismic_buffer' and isinstance(sub.slice, ast.Tuple)
         and len(sub.slice.elts) == 2 and is_slice(sub.slice.elts[0], None, None)
         and isinstance(sub.slice.elts[1], ast.Slice) and sub.slice.elts[1].step is None
         and sub.slice.elts[1].lower is not None and sub.slice.elts[1].upper is not None,
         'block slice is not seismic_buffer[:, lo:hi]', a)
    lo, hi = E(sub.slice.elts[1].lower, env), E(sub.slice.elts[1].upper, env)
    need(src(zl.body[1]) == 'queue.put(slice)', 'block is not queued with queue.put(slice)', zl.body[1])
    P = '(n_traces trace_length bs1 bs2 : Z)'
    A = 'n_traces trace_length bs1 bs2'
    out = []
    out.append('(* ---- seismic_file_producer_2d ---- *)')
    out.append(f'Definition p2_padded1 {P} : Z := {pad1}.')
    out.append(f'Definition p2_padded2 {P} : Z := {pad2}.')
    out.append(f'Definition p2_n_trace_groups {P} : Z := {ngroups}.')
    out.append(f'Definition p2_traces_to_read {P} (trace_group_id : Z) : Z := {ttr}.')
    out.append(f'(* seismic_buffer = np.zeros((rows, cols)) *)')
    out.append(f'Definition p2_buffer_rows {P} : Z := {rows}.')
    out.append(f'Definition p2_buffer_cols {P} : Z := {cols}.')
    out.append(f'(* the switch: whole group buffer to the compressor, or block by block *)')
    out.append(f'Definition p2_whole_group {P} : bool := {whole}.')
    out.append(f'Definition p2_n_zblocks {P} : Z := {nzb}.')
    out.append(f'(* slice = seismic_buffer[:, lo:hi] *)')
    out.append(f'Definition p2_slice_lo {P} (z : Z) : Z := {lo}.')
    out.append(f'Definition p2_slice_hi {P} (z : Z) : Z := {hi}.')
    out.append('(* what is handed to the compressor, in program order *)')
    out.append('Inductive p2_item := P2Whole (g : Z) | P2Block (g lo hi : Z).')
    out.append(f'Definition p2_items {P} : list p2_item :=\n'
               f'  flat_map (fun trace_group_id =>\n'
               f'    if p2_whole_group {A} then [P2Whole trace_group_id]\n'
               f'    else map (fun z => P2Block trace_group_id (p2_slice_lo {A} z) (p2_slice_hi {A} z)) (zrange 0 (p2_n_zblocks {A})))\n'
               f'  (zrange 0 (p2_n_trace_groups {A})).')
    return out


# ---------------------------------------------------------------- io_thread_func_2d
def gen_io(tree):
    f = find_func(tree, 'io_thread_func_2d')
    params = [a.arg for a in f.args.args]
    need(params == ['blockshape', 'store_headers', 'headers_dict', 'trace_group_id', 'traces_to_read', 'seismic_buffer',
                    'seismicfile', 'trace_length'], f'io_thread_func_2d parameters changed: {params}')
    st = strip_doc(f.body)
    need(len(st) == 1 and isinstance(st[0], ast.For), 'io_thread_func_2d is not a single loop')
    lp = st[0]
    need(src(lp.target) == 'i' and isinstance(lp.iter, ast.Call) and src(lp.iter.func) == 'range' and len(lp.iter.args) == 1
         and not lp.orelse, 'row loop not recognised', lp)
    env = {'blockshape': ('1', 'bs1', 'bs2'), 'trace_group_id': 'trace_group_id', 'traces_to_read': 'traces_to_read',
           'trace_length': 'trace_length', 'i': 'i'}
    nrows = E(lp.iter.args[0], env)
    need(len(lp.body) == 2, 'row loop: expected 2 statements', lp)
    c = lp.body[0]
    need(isinstance(c, ast.If) and len(c.body) == 3 and len(c.orelse) == 1, 'row source conditional not recognised', c)
    cond = Bx(c.test, env)
    s = c.body[0]
    need(isinstance(s, ast.Assign) and src(s.targets[0]) == 'trace_id', 'trace_id assignment not recognised', s)
    tid = E(s.value, env)

    def copy_stmt(s, idx):
        """seismic_buffer[i, lo:hi] = np.asarray(seismicfile.trace[idx])  -> (lo, hi)"""
        need(isinstance(s, ast.Assign) and len(s.targets) == 1 and isinstance(s.targets[0], ast.Subscript)
             and src(s.targets[0].value) == 'seismic_buffer' and isinstance(s.targets[0].slice, ast.Tuple)
             and len(s.targets[0].slice.elts) == 2 and src(s.targets[0].slice.elts[0]) == 'i'
             and isinstance(s.targets[0].slice.elts[1], ast.Slice) and s.targets[0].slice.elts[1].step is None
             and s.targets[0].slice.elts[1].lower is not None and s.targets[0].slice.elts[1].upper is not None,
             'trace copy target not recognised', s)
        need(src(s.value) == f'np.asarray(seismicfile.trace[{idx}])', f'trace copy source is not seismicfile.trace[{idx}]', s)
        sl = s.targets[0].slice.elts[1]
        return E(sl.lower, env), E(sl.upper, env)
    lo1, hi1 = copy_stmt(c.body[1], 'trace_id')
    h = c.body[2]
    need(isinstance(h, ast.If) and src(h.test) == 'store_headers' and not h.orelse and len(h.body) == 1
         and isinstance(h.body[0], ast.For) and src(h.body[0].target) == '(tracefield, array)'
         and src(h.body[0].iter) == 'headers_dict.items()' and len(h.body[0].body) == 1,
         'header store not recognised', h)
    hs = h.body[0].body[0]
    need(isinstance(hs, ast.Assign) and isinstance(hs.targets[0], ast.Subscript) and src(hs.targets[0].value) == 'array'
         and isinstance(hs.value, ast.Subscript) and src(hs.value.slice) == 'tracefield'
         and isinstance(hs.value.value, ast.Subscript) and src(hs.value.value.value) == 'seismicfile.header',
         'header store assignment not recognised', hs)
    env2 = dict(env, trace_id=tid)
    hdst, hsrc = E(hs.targets[0].slice, env2), E(hs.value.value.slice, env2)
    lo2, hi2 = copy_stmt(c.orelse[0], '-1')
    need((lo1, hi1) == (lo2, hi2), 'the two trace copies use different sample ranges', c)
    # edge replication along the sample axis
    r = lp.body[1]
    need(isinstance(r, ast.Assign) and isinstance(r.targets[0], ast.Subscript) and src(r.targets[0].value) == 'seismic_buffer'
         and isinstance(r.targets[0].slice, ast.Tuple) and len(r.targets[0].slice.elts) == 2
         and src(r.targets[0].slice.elts[0]) == 'i' and isinstance(r.targets[0].slice.elts[1], ast.Slice)
         and r.targets[0].slice.elts[1].upper is None and r.targets[0].slice.elts[1].step is None
         and r.targets[0].slice.elts[1].lower is not None, 'edge replication target is not seismic_buffer[i, lo:]', r)
    flo = E(r.targets[0].slice.elts[1].lower, env)
    v = r.value
    need(isinstance(v, ast.Call) and src(v.func) == 'np.expand_dims' and len(v.args) == 2 and src(v.args[1]) == '0'
         and isinstance(v.args[0], ast.Subscript) and src(v.args[0].value) == 'seismic_buffer'
         and isinstance(v.args[0].slice, ast.Tuple) and len(v.args[0].slice.elts) == 2 and src(v.args[0].slice.elts[0]) == 'i',
         'edge replication source is not np.expand_dims(seismic_buffer[i, k], 0)', r)
    fsrc = E(v.args[0].slice.elts[1], env)
    out = ['', '(* ---- io_thread_func_2d ---- *)',
           f'Definition io2_n_rows (bs1 : Z) : Z := {nrows}.',
           '(* index into seismicfile.trace (PYTHON indexing: negative counts from the end) that fills buffer row i *)',
           f'Definition io2_row_src (bs1 trace_group_id traces_to_read i : Z) : Z := if {cond} then {tid} else (- 1).',
           '(* seismic_buffer[i, copy_lo:copy_hi] = trace *)',
           f'Definition io2_copy_lo (trace_length : Z) : Z := {lo1}.',
           f'Definition io2_copy_hi (trace_length : Z) : Z := {hi1}.',
           '(* afterwards: seismic_buffer[i, fill_lo:] = seismic_buffer[i, fill_src] *)',
           f'Definition io2_fill_lo (trace_length : Z) : Z := {flo}.',
           f'Definition io2_fill_src (trace_length : Z) : Z := {fsrc}.',
           '(* rows with i < traces_to_read also store headers: array[hdr_dst] = seismicfile.header[hdr_src][field] *)',
           f'Definition io2_hdr_dst (bs1 trace_group_id i : Z) : Z := {hdst}.',
           f'Definition io2_hdr_src (bs1 trace_group_id i : Z) : Z := {hsrc}.']
    return out


# ---------------------------------------------------------------- make_header, Geometry2d case
def gen_header(tree):
    f = find_func(tree, 'make_header')
    params = [a.arg for a in f.args.args]
    need(params == ['ilines', 'xlines', 'samples', 'tracecount', 'hw_info', 'bits_per_voxel', 'blockshape', 'geom', 'unstructured'],
         f'make_header parameters changed: {params}')
    env = {'len(samples)': 'n_samples', 'tracecount': 'tracecount', 'len(geom.traces)': 'n_geom_traces',
           'blockshape': ('bs0', 'bs1', 'bs2'), 'hw_info.get_header_array_count()': 'n_header_arrays',
           'version.encoding': 'version_enc', 'DISK_BLOCK_BYTES': '4096'}
    writes = []          # (offset, coq value)
    skipped_float = []
    bpv_def = [None]

    def is2d_test(t):
        return src(t) == 'isinstance(geom, Geometry2d)'

    def do_write(s):
        t = s.targets[0]
        need(isinstance(t, ast.Subscript) and src(t.value) == 'buffer' and isinstance(t.slice, ast.Slice)
             and isinstance(t.slice.lower, ast.Constant) and isinstance(t.slice.upper, ast.Constant) and t.slice.step is None,
             'header write target not recognised', s)
        lo, hi = t.slice.lower.value, t.slice.upper.value
        v = s.value
        need(isinstance(v, ast.Call) and not v.keywords, 'header write value not recognised', s)
        fn = src(v.func)
        if fn in ('np_float_to_bytes_signed', 'np_float_to_bytes') and len(v.args) == 1:
            need(hi - lo == 4, 'float field width', s)
            skipped_float.append(lo)          # sample axis origin / interval, line-number origins: C05's business
            return
        if fn == 'hw_info.to_buffer' and not v.args:
            need((lo, hi) == (980, 2048), 'invariant-header block moved', s)
            return
        need(fn in ('int_to_bytes', 'signed_int_to_bytes') and len(v.args) == 1 and hi - lo == 4, 'integer field write not recognised', s)
        a = v.args[0]
        if src(a) == 'tracecount if unstructured or isinstance(geom, Geometry2d) else n_il * n_xl':
            val = 'tracecount'                 # the Geometry2d disjunct is true
        elif src(a) == 'bpv':
            need(bpv_def[0] is not None, 'bpv used before its definition', s)
            val = '(mh2_bpv rn rdn)'
        else:
            val = E(a, env)
        need(lo not in [w[0] for w in writes], f'header offset {lo} written twice', s)
        writes.append((lo, val))

    def walk(stmts):
        for s in stmts:
            if isinstance(s, ast.Assign) and len(s.targets) == 1 and isinstance(s.targets[0], ast.Subscript) \
                    and src(s.targets[0].value) == 'buffer':
                do_write(s)
            elif isinstance(s, ast.Assign) and src(s) == 'header_blocks = 2':
                env['header_blocks'] = '2'
            elif isinstance(s, ast.Assign) and src(s) == 'buffer = bytearray(DISK_BLOCK_BYTES * header_blocks)':
                pass
            elif isinstance(s, ast.Assign) and src(s.targets[0]) == 'version' \
                    and src(s.value) == "SeismicZfpVersion(pkg_resources.get_distribution('seismic_zfp').version)":
                pass
            elif isinstance(s, ast.If) and src(s.test) == 'bits_per_voxel < 1':
                need(len(s.body) == 1 and len(s.orelse) == 1 and src(s.body[0]) == 'bpv = -int(1 / bits_per_voxel)'
                     and src(s.orelse[0]) == 'bpv = int(bits_per_voxel)', 'bpv computation changed', s)
                # bits_per_voxel = rn / rdn (rdn > 0): < 1 iff rn < rdn; int(1/b) = rdn quot rn; int(b) = rn quot rdn
                bpv_def[0] = 'if (rn <? rdn) then (- (Z.quot rdn rn)) else (Z.quot rn rdn)'
            elif isinstance(s, ast.If) and is2d_test(s.test):
                walk2d(s.body)
            elif isinstance(s, ast.Return):
                need(src(s) == 'return buffer', 'return value changed', s)
            else:
                raise Unrecognised(f'make_header: statement not recognised (line {s.lineno}: {src(s)[:80]})')

    def walk2d(stmts):
        for s in stmts:
            if isinstance(s, ast.Assign) and src(s) == 'n_il = n_xl = 0':
                pass
            elif isinstance(s, ast.Assign) and src(s.targets[0]) == 'compressed_data_length_diskblocks':
                v = s.value
                # int(((bits_per_voxel * A * B) // 8) // DISK_BLOCK_BYTES), bits_per_voxel = rn/rdn exactly
                need(isinstance(v, ast.Call) and src(v.func) == 'int' and len(v.args) == 1, 'data length expression changed', s)
                e = v.args[0]
                need(isinstance(e, ast.BinOp) and isinstance(e.op, ast.FloorDiv) and src(e.right) == 'DISK_BLOCK_BYTES'
                     and isinstance(e.left, ast.BinOp) and isinstance(e.left.op, ast.FloorDiv) and src(e.left.right) == '8',
                     'data length expression changed', s)
                prod = e.left.left
                need(isinstance(prod, ast.BinOp) and isinstance(prod.op, ast.Mult) and isinstance(prod.left, ast.BinOp)
                     and isinstance(prod.left.op, ast.Mult) and src(prod.left.left) == 'bits_per_voxel',
                     'data length product changed', s)
                A, B = E(prod.left.right, env), E(prod.right, env)
                env['compressed_data_length_diskblocks'] = f'(((Z.quot ((rn * {A}) * {B}) rdn) / 8) / 4096)'
            elif isinstance(s, ast.Assign) and src(s.targets[0]) == 'header_entry_length_bytes':
                env['header_entry_length_bytes'] = E(s.value, env)
            else:
                raise Unrecognised(f'make_header (2D branch): statement not recognised (line {s.lineno}: {src(s)[:80]})')

    walk(strip_doc(f.body))
    need(bpv_def[0] is not None, 'bpv definition not found')
    offs = sorted(w[0] for w in writes)
    need(offs == [0, 4, 40, 44, 48, 52, 56, 60, 64, 68, 72], f'integer header fields written for a 2D file changed: {offs}')
    P = '(n_samples tracecount n_geom_traces rn rdn bs0 bs1 bs2 n_header_arrays version_enc : Z)'
    out = ['', '(* ---- make_header, geom is a Geometry2d; bits_per_voxel = rn / rdn ---- *)',
           f'Definition mh2_bpv (rn rdn : Z) : Z := {bpv_def[0]}.',
           '(* every 4-byte INTEGER field written, (byte offset, value), in program order; all other bytes of the first',
           '   2048 stay zero except the float-valued fields at offsets ' + ', '.join(map(str, sorted(skipped_float))) + ' (sample-axis',
           '   origin and interval) and the invariant-header block 980..2047.  Offsets 8 and 12 (crossline / inline counts) are NOT written. *)',
           f'Definition mh2_writes {P} : list (Z * Z) :=\n  [' + ';\n   '.join(f'({o}, {v})' for o, v in writes) + '].']
    return out


# ---------------------------------------------------------------- detect_geometry decision table
def gen_detect(tree):
    f = find_func(tree, 'detect_geometry', cls='SeismicFileConverter')
    st = strip_doc(f.body)
    need(len(st) == 1 and isinstance(st[0], ast.If) and src(st[0].test) == 'seismic.unstructured', 'detect_geometry: outer test changed')
    u = st[0].body
    need(len(u) == 3 and src(u[0]) == 'first_header = seismic.header[0]' and src(u[1]) == 'last_header = seismic.header[-1]'
         and isinstance(u[2], ast.If), 'detect_geometry: unstructured branch changed')
    need(src(u[2].test) == '(first_header[189], first_header[193], last_header[189], last_header[193]) == (0, 0, 0, 0)',
         'detect_geometry: 2D-by-headers test changed', u[2])
    need(src(u[2].body[-1]) == 'self.geom = Geometry2d(seismic.tracecount)', 'detect_geometry: 2D-by-headers result changed', u[2])
    need(src(u[2].orelse[-1]) == 'self.geom = None', 'detect_geometry: irregular result changed', u[2])
    s = st[0].orelse
    need(len(s) == 1 and isinstance(s[0], ast.If), 'detect_geometry: structured branch changed')
    a = s[0]
    need(src(a.test) == 'seismic.ilines is not None and len(seismic.ilines) == 1' and src(a.body[-1]) == 'self.geom = Geometry2d(seismic.tracecount)',
         'detect_geometry: single-inline case changed', a)
    need(len(a.orelse) == 1 and isinstance(a.orelse[0], ast.If), 'detect_geometry: structured branch changed', a)
    b = a.orelse[0]
    need(src(b.test) == 'seismic.xlines is not None and len(seismic.xlines) == 1' and src(b.body[-1]) == 'self.geom = Geometry2d(seismic.tracecount)',
         'detect_geometry: single-crossline case changed', b)
    need(src(b.orelse[-1]) == 'self.geom = Geometry3d(0, len(seismic.ilines), 0, len(seismic.xlines))',
         'detect_geometry: regular 3D case changed', b)
    return ['', '(* ---- SeismicFileConverter.detect_geometry: decision table ---- *)',
            'Inductive geom_kind := G2d (n_traces : Z) | GIrregular | G3d (n_il n_xl : Z).',
            '(* unstructured: segyio found no inline/crossline geometry; il0 xl0 il1 xl1: fields 189/193 of the first and last header;',
            '   in all three 2D branches the trace count is the FILE\'s trace count (Geometry2d(seismic.tracecount)) *)',
            'Definition detect_geometry (unstructured : bool) (il0 xl0 il1 xl1 tracecount n_ilines n_xlines : Z) : geom_kind :=',
            '  if unstructured then',
            '    (if (il0 =? 0) && (xl0 =? 0) && (il1 =? 0) && (xl1 =? 0) then G2d tracecount else GIrregular)',
            '  else if (n_ilines =? 1) then G2d tracecount',
            '  else if (n_xlines =? 1) then G2d tracecount',
            '  else G3d n_ilines n_xlines.']


def generate(srcdir):
    tree = ast.parse(open(os.path.join(srcdir, 'conversion_utils.py')).read())
    ctree = ast.parse(open(os.path.join(srcdir, 'conversion.py')).read())
    head = ['(* GENERATED by tools/genx_producer2d.py from seismic_zfp/conversion_utils.py (seismic_file_producer_2d,',
            '   io_thread_func_2d, make_header) and seismic_zfp/conversion.py (detect_geometry) -- DO NOT EDIT. *)',
            'From Coq Require Import ZArith List Bool.', 'Import ListNotations.', 'From SZ Require Import Lib.Py Gen.Utils.',
            'Open Scope Z_scope.', '']
    text = '\n'.join(head + gen_producer(tree) + gen_io(tree) + gen_header(tree) + gen_detect(ctree)) + '\n'
    return {'Producer2d': text}


if __name__ == '__main__':
    import sys
    print(generate(sys.argv[1] if len(sys.argv) > 1 else '/repo/seismic_zfp')['Producer2d'])
