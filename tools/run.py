#!/usr/bin/env python3
"""run.py <property id> [--tier quick|thorough] -- the check command registered in MANIFEST.json.

Pipeline (DESIGN.md section 10):
  1 regenerate coq/Gen from /repo (translator, fail closed)          -> translation obligations
  2 build the Coq development (make -k), then compile Props/<id>.v    -> proof obligations, Print Assumptions
  3 forbidden-vernacular grep
  4 build the extracted model driver
  5 run the property's harness (corpus, correspondence, direct oracles) under /venv/bin/python
  6 if an obligation / pin / correspondence broke: the harness has already searched for a failing input
  7 known findings, evidence, exit status
"""
import sys, os, json, subprocess, time, re, fcntl, argparse, hashlib, glob

VERIF = os.path.dirname(os.path.dirname(os.path.abspath(__file__)))
COQ = os.path.join(VERIF, 'coq')
sys.path.insert(0, os.path.join(VERIF, 'tools'))
from props import PROPS, COMMON_TRUSTED

REPO = os.environ.get('VERIF_REPO', '/repo')     # VERIF_REPO: maintainer testing against a scratch copy only
ENV = dict(os.environ, OCAMLRUNPARAM='s=4M', PYTHONHASHSEED='0', PYTHONPATH=REPO, PIP_NO_INDEX='1', VERIF_REPO=REPO)
FORBIDDEN = r'\b(Admitted|admit|Axiom|Axioms|Parameter|Parameters|Conjecture|Conjectures|Admit Obligations|' \
            r'bypass_check|Unset Guard Checking|Unset Positivity Checking|Unset Universe Checking|' \
            r'type-in-type|impredicative-set|native_compute)\b'


def sh(cmd, timeout=3000, cwd=VERIF):
    # own process group: on a timeout the whole group is killed (a harness that hangs under a changed /repo must not be left
    # running behind the check)
    import signal
    p = subprocess.Popen(cmd, shell=True, cwd=cwd, env=ENV, stdout=subprocess.PIPE, stderr=subprocess.STDOUT, text=True,
                         start_new_session=True)
    try:
        out, _ = p.communicate(timeout=timeout)
    except subprocess.TimeoutExpired:
        try:
            os.killpg(p.pid, signal.SIGKILL)
        except Exception:
            p.kill()
        try:
            p.communicate(timeout=10)
        except Exception:
            pass
        raise
    return p.returncode, out


def coq_deps(vfile):
    """transitive .v dependencies (inside the project) of a file, through coqdep"""
    seen, todo = set(), [vfile]
    while todo:
        f = todo.pop()
        if f in seen or not os.path.exists(os.path.join(COQ, f)):
            seen.add(f)
            continue
        seen.add(f)
        rc, out = sh(f'coqdep -Q . SZ {f} 2>/dev/null', cwd=COQ)
        for m in re.finditer(r'(\S+)\.vo\b', out.split(':', 1)[1] if ':' in out else ''):
            dep = m.group(1) + '.v'
            if dep not in seen:
                todo.append(dep)
    return sorted(seen)


def build(log):
    """steps 1-4, serialised across concurrently running checks"""
    res = {}
    os.makedirs(os.path.join(VERIF, 'build'), exist_ok=True)
    with open(os.path.join(VERIF, 'build', '.lock'), 'w') as lk:
        fcntl.flock(lk, fcntl.LOCK_EX)
        t = time.time()
        rc, out = sh(f'python3 tools/gen.py --repo {REPO}')
        log.append(out)
        res['gen_rc'] = rc
        st = json.load(open(os.path.join(COQ, 'Gen', 'STATUS.json')))
        res['gen_failed'] = st['failed']
        res['gen_changed'] = st['changed']
        res['pins'] = st['pins']
        rc, out = sh('make coq 2>&1')
        log.append(out[-6000:])
        res['coq_rc'] = rc
        res['coq_errors'] = re.findall(r'File "\./([^"]+)", line (\d+)', out) if rc != 0 else []
        res['coq_log_tail'] = out[-3000:] if rc != 0 else ''
        rc, out = sh('make driver 2>&1')
        log.append(out[-2000:])
        res['driver_ok'] = (rc == 0 and os.path.exists(os.path.join(VERIF, 'ocaml', '_build', 'driver')))
        res['build_s'] = round(time.time() - t, 1)
    return res


def check_props_file(pid):
    """always recompile Props/<pid>.v and its continuation files Props/<pid>[a-z].v: re-type-checks every property statement
    against the current Gen-dependent .vo files"""
    files = [f'Props/{pid}.v'] + sorted(os.path.relpath(f, COQ) for f in glob.glob(os.path.join(COQ, 'Props', f'{pid}[a-z].v')))
    out = {'file': files[0], 'files': files, 'ok': True, 'theorems': [], 'axioms': [], 'closed': 0, 'log': ''}
    if not os.path.exists(os.path.join(COQ, files[0])):
        out['log'] = 'missing'
        out['ok'] = False
        return out
    for vf in files:
        src = open(os.path.join(COQ, vf)).read()
        out['theorems'] += re.findall(r'^\s*(?:Theorem|Example)\s+(\w+)', src, re.M)
        rc, log = sh(f'timeout 1800 coqc -Q . SZ {vf} 2>&1', cwd=COQ)
        if rc != 0:
            out['ok'] = False
            out['log'] += log[-4000:]
            continue
        # Print Assumptions output: "Closed under the global context" or "Axioms:\n name : type ..."
        blocks = re.split(r'(?=Closed under the global context|Axioms:)', log)
        for b in blocks:
            if b.startswith('Axioms:'):
                out['axioms'] += re.findall(r'^(\S+)\s*:', b[len('Axioms:'):], re.M)
        out['closed'] += log.count('Closed under the global context')
    out['axioms'] = sorted(set(out['axioms']))
    return out


def forbidden_scan():
    hits = []
    for f in glob.glob(os.path.join(COQ, '**', '*.v'), recursive=True):
        txt = open(f).read()
        # strip comments
        txt2 = re.sub(r'\(\*.*?\*\)', '', txt, flags=re.S)
        for m in re.finditer(FORBIDDEN, txt2):
            hits.append((os.path.relpath(f, COQ), m.group(0)))
        for m in re.finditer(r'^\s*(Variable|Variables|Hypothesis|Hypotheses|Context)\b', txt2, re.M):
            # allowed only inside a Section
            before = txt2[:m.start()]
            if len(re.findall(r'^\s*Section\s', before, re.M)) <= len(re.findall(r'^\s*End\s', before, re.M)):
                hits.append((os.path.relpath(f, COQ), m.group(1) + ' outside a Section'))
    return hits


def main():
    ap = argparse.ArgumentParser()
    ap.add_argument('pid')
    ap.add_argument('--tier', default=os.environ.get('VERIF_TIER', 'quick'))
    ap.add_argument('--replay')
    a = ap.parse_args()
    pid, tier = a.pid, a.tier
    if tier not in ('quick', 'thorough'):
        tier = 'quick'
    seed = int(os.environ.get('VERIF_SEED', '0') or 0)
    P = PROPS[pid]
    t0 = time.time()
    log = []
    violations = []     # (replay dict, found_input: bool)
    os.makedirs(os.path.join(VERIF, 'evidence'), exist_ok=True)
    os.makedirs(os.path.join(VERIF, 'replays'), exist_ok=True)

    b = build(log)
    broken = []         # obligations that no longer check: strings
    # -- translation obligations
    for tgt, why in b['gen_failed']:
        if any(tgt.startswith(p) or p.startswith(tgt) for p in P['gen_targets']):
            broken.append(f'translation of {tgt} failed: {why}')
    # -- pins (hand-modelled source that must not change)
    expected_pins = json.load(open(os.path.join(VERIF, 'pins.json')))
    for name in P.get('pins', []):
        cur = b['pins'].get(name)
        if cur != expected_pins.get(name):
            broken.append(f'pinned source {name} changed (hand model in coq/Model no longer tied to it): {expected_pins.get(name)} -> {cur}')
    # -- proofs
    pr = check_props_file(pid)
    if not pr['ok']:
        deps = sorted({d for vf in pr['files'] for d in coq_deps(vf)})
        failed_files = sorted({f for f, _ in b['coq_errors'] if f in deps})
        m = re.search(r'File "\./([^"]+)", line (\d+).*?\n(Error:.*?)(?:\n\n|\Z)', pr['log'], re.S)
        where = f'{m.group(1)}:{m.group(2)} {m.group(3)[:300]}' if m else pr['log'][-400:]
        broken.append(f'proof obligation no longer checks: Props/{pid}.v ({len(pr["theorems"])} theorems); '
                      f'failing files: {failed_files or [pr["file"]]}; {where}')
    forb = forbidden_scan()
    if forb:
        broken.append(f'forbidden vernacular in the development: {forb[:5]}')
    unexpected_axioms = [x for x in pr.get('axioms', []) if x not in P.get('allowed_axioms', [])]
    if unexpected_axioms:
        broken.append(f'Print Assumptions lists axioms that are not in the declared trusted base: {unexpected_axioms}')
    if not b['driver_ok']:
        broken.append('extracted model driver does not build (correspondence cannot run)')
    # -- thorough tier: the independent checker re-checks the compiled property files and everything they depend on
    chk = None
    if tier == 'thorough' and pr['ok'] and not os.environ.get('SZV_NO_COQCHK'):
        # files whose independent re-check takes far longer than a registered command may (C05b pulls in Flocq and the Reals:
        # 44 min; its last manual coqchk log is findings/coqchk_c05b.log) are re-checked only with SZV_COQCHK_FULL=1
        skip = [] if os.environ.get('SZV_COQCHK_FULL') else list(P.get('coqchk_skip', []))
        mods = ' '.join('SZ.' + f[:-2].replace('/', '.') for f in pr['files'] if f not in skip)
        t1 = time.time()
        if mods.strip():
            rc, out = sh(f'timeout {6000 if os.environ.get("SZV_COQCHK_FULL") else 2400} coqchk -o -silent -Q . SZ {mods} 2>&1', timeout=6100, cwd=COQ)
        else:
            rc, out = 0, ('* Axioms: <none>\n* Constants/Inductives relying on type-in-type: <none>\n'
                          '* Constants/Inductives relying on unsafe (co)fixpoints: <none>\n* Inductives whose positivity is assumed: <none>\n')
        m = re.search(r'\* Axioms:(.*?)\* Constants/Inductives relying on type-in-type:(.*?)\* Constants/Inductives relying on unsafe \(co\)fixpoints:(.*?)'
                      r'\* Inductives whose positivity is assumed:(.*)', out, re.S)
        chk = {'cmd': f'coqchk -o -silent -Q . SZ {mods}', 'rc': rc, 'seconds': round(time.time() - t1, 1), 'skipped_too_slow': skip}
        if rc != 0 or not m:
            broken.append('coqchk does not accept the compiled property files: ' + out[-300:])
        else:
            axs = re.findall(r'^\s+(\S+)\s*$', m.group(1), re.M)
            axs = [x for x in axs if x != '<none>']
            # the standard library's own axiomatisation of the kernel's primitive integers / floats (reached through the C05
            # float model) is named in the trusted base; anything else is not
            okp = ['Coq.Numbers.Cyclic.Int63.', 'Coq.Floats.'] + list(P.get('coqchk_allowed_prefixes', []))
            foreign = [x for x in axs if not any(x.startswith(q) for q in okp)]
            chk['axioms'] = axs
            chk['unsafe'] = [g.strip() for g in m.groups()[1:]]
            if foreign:
                broken.append(f'coqchk lists axioms outside the declared trusted base: {foreign[:6]}')
            if any(g.strip() != '<none>' for g in m.groups()[1:]):
                broken.append('coqchk reports type-in-type / unsafe fixpoints / assumed positivity: ' + repr(chk['unsafe']))

    # -- harness
    hres = {'evaluations': 0, 'distinct_nontrivial': 0, 'samples': [], 'violations': [], 'known': [], 'notes': []}
    harnesses = P.get('harness') or []
    if isinstance(harnesses, str):
        harnesses = [harnesses]
    for hi, harness in enumerate(harnesses):
        out_json = os.path.join(VERIF, 'build', f'harness_{pid}_{hi}.json')
        if os.path.exists(out_json):
            os.remove(out_json)
        cmd = f'/venv/bin/python tools/checks/{harness} --pid {pid} --tier {tier} --seed {seed} --out {out_json}'
        if broken:
            cmd += ' --search'
        if not b['driver_ok']:
            cmd += ' --no-model'
        if a.replay:
            cmd += f' --replay {a.replay}'
        budget = P.get('timeout', {}).get(tier, 900 if tier == 'quick' else 3000)
        try:
            rc, out = sh(cmd, timeout=budget)
        except subprocess.TimeoutExpired:
            rc, out = 124, 'harness timed out'
        log.append(out[-4000:])
        if rc == 124 and '--search' in cmd and not os.path.exists(out_json):
            # the wider search did not finish within the budget: the ordinary run of the harness (its oracles run on every
            # sample) still gets its chance to exhibit a failing input
            try:
                rc, out = sh(cmd.replace(' --search', ''), timeout=budget)
            except subprocess.TimeoutExpired:
                rc, out = 124, 'harness timed out'
            log.append(out[-4000:])
        if not os.path.exists(out_json) and broken and '--no-model' not in cmd and rc != 124:
            # an obligation broke and the harness died (typically: the generated model of the changed source is missing or does
            # not compile, so nothing can be evaluated inside Coq): search for a failing input with the direct oracles alone
            first_crash = out[-600:]
            try:
                rc, out = sh(cmd + ' --no-model' + ('' if '--search' in cmd else ' --search'), timeout=budget)
            except subprocess.TimeoutExpired:
                rc, out = 124, 'harness timed out'
            log.append(out[-4000:])
            if os.path.exists(out_json):
                broken.append(f'harness {harness} could not evaluate the model ({first_crash.strip()[-200:]}); it was re-run with the direct oracles only')
        if os.path.exists(out_json):
            h1 = json.load(open(out_json))
            hres['evaluations'] += h1.get('evaluations', 0)
            hres['distinct_nontrivial'] += h1.get('distinct_nontrivial', 0)
            hres['samples'] += h1.get('samples', [])[:4]
            hres['violations'] += h1.get('violations', [])
            hres['known'] += h1.get('known', [])
            hres['notes'] += h1.get('notes', [])
            hres.setdefault('distribution', {})[harness] = h1.get('distribution', {})
            hres['rule'] = (hres.get('rule', '') + ' | ' if hres.get('rule') else '') + f"{harness}: {h1.get('rule', '')}"
        else:
            broken.append(f'harness {harness} crashed (rc={rc}): {out[-600:]}')

    # -- decide
    known = json.load(open(os.path.join(VERIF, 'known_findings.json')))
    known_here = {k['key']: k for k in known.get('findings', []) if k['property'] == pid and k.get('status') == 'known'}
    printed = set()
    lines = []
    nviol = 0
    for v in hres.get('violations', []):
        key = v.get('finding_key')
        if key and key in known_here:
            if key not in printed:
                printed.add(key)
                lines.append(f"KNOWN-FINDING: property={pid} {key}: {known_here[key]['what']}")
            continue
        nviol += 1
        path = os.path.join(VERIF, 'replays', f'{pid}-{nviol}.json')
        json.dump(dict(v, property=pid, seed=seed, tier=tier, replay_cmd=f'python3 tools/run.py {pid} --replay {path}'),
                  open(path, 'w'), indent=1, default=str)
        if nviol <= 5:
            lines.append(f'VIOLATION property={pid} replay={path}')
    # known findings that the harness confirmed still reproduce
    for k in hres.get('known', []):
        if k in known_here and k not in printed:
            printed.add(k)
            lines.append(f"KNOWN-FINDING: property={pid} {k}: {known_here[k]['what']}")
    if broken and nviol == 0:
        nviol += 1
        path = os.path.join(VERIF, 'replays', f'{pid}-unproved.json')
        json.dump({'property': pid, 'no_longer_checks': broken, 'searched': hres.get('evaluations', 0),
                   'note': 'an obligation tying the theorems to /repo broke and the search found no failing input',
                   'seed': seed, 'tier': tier}, open(path, 'w'), indent=1)
        lines.append(f'VIOLATION property={pid} replay={path} no-failing-input-found')
    for l in lines:
        print(l)

    nth = len(pr['theorems'])
    ev = {
        'property_id': pid, 'tier': tier, 'seed': seed, 'level': 'proof',
        'coverage': {
            'obligations': max(nth, 1), 'discharged': nth if pr['ok'] else 0,
            'checker_cmd': f'make -C /verif setup && cd /verif/coq && coqc -Q . SZ Props/{pid}.v   (Coq 8.16.1 kernel; every run)',
            'trusted_base': COMMON_TRUSTED + P.get('trusted', []),
            'theorems': pr['theorems'],
            'print_assumptions': {'closed_under_global_context': pr.get('closed', 0), 'axioms': pr.get('axioms', [])},
            **({'coqchk': chk} if chk else {}),
            'generated_files_changed_this_run': b['gen_changed'],
            'translation_failures': b['gen_failed'],
            'obligations_broken': broken,
            'evaluations': hres.get('evaluations', 0),
            'distinct_nontrivial': hres.get('distinct_nontrivial', 0),
            'rule': hres.get('rule', ''),
            'samples': hres.get('samples', [])[:8] or [f'theorem {t}' for t in pr['theorems'][:8]],
            'traces_validated_against_impl': hres.get('evaluations', 0),
            'distribution': hres.get('distribution', {}),
            'known_findings_printed': sorted(printed),
            'notes': hres.get('notes', []) + P.get('notes', []),
            'exhaustive': False,
        },
        'assumptions': P.get('assumptions', []),
        'wall_s': round(time.time() - t0, 1),
        'violations': nviol,
    }
    json.dump(ev, open(os.path.join(VERIF, 'evidence', f'{pid}.json'), 'w'), indent=1, default=str)
    with open(os.path.join(VERIF, 'build', f'run_{pid}.log'), 'w') as f:
        f.write('\n'.join(log))
    print(f'{pid}: tier={tier} theorems={nth} proofs_ok={pr["ok"]} broken={len(broken)} evaluations={hres.get("evaluations", 0)} '
          f'violations={nviol} known={len(printed)} wall={ev["wall_s"]}s')
    sys.exit(1 if nviol else 0)


if __name__ == '__main__':
    main()
