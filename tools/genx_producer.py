"""genx_producer: fail-closed extraction of the arithmetic skeleton of the 3D plane-set producers
(conversion_utils.numpy_producer, seismic_file_producer, io_thread_func) into coq/Gen/Producer.v.

What is extracted (every expression is translated from the source text, nothing is assumed):
  padded shape, number of plane sets, the "last plane set" condition, np.pad widths, the rows of the source a plane
  set holds, planes_to_read, the whole-plane-set / per-block switch, the per-block loop bounds and slice bounds,
  the source line of buffer row i in io_thread_func (both readers), the crossline crop and the two edge-replication
  assignments.
The control structure around them is checked statement by statement; any deviation is a translation failure.
"""
import ast, os
from miniast import E, B, Unsupported, find_function, strip_doc, expect, norm

OUTPUTS = ['Producer']
PARAMS = '(n_il n_xl ns bs0 bs1 bs2 : Z)'
ARGS = 'n_il n_xl ns bs0 bs1 bs2'


def block_loop(stmts, env, bufname, prefix, out):
    """else-branch of the layout switch:  for x in range(NX): for z in range(NZ): slice = buf[:, a:b, c:d].copy(); queue.put(slice)"""
    expect(len(stmts) == 1 and isinstance(stmts[0], ast.For), f'{prefix}: per-block branch is not a single for loop')
    fx = stmts[0]
    expect(norm(fx.target) == 'x' and isinstance(fx.iter, ast.Call) and norm(fx.iter.func) == 'range' and len(fx.iter.args) == 1,
           f'{prefix}: outer block loop is not `for x in range(N)`')
    expect(len(fx.body) == 1 and isinstance(fx.body[0], ast.For), f'{prefix}: outer block loop body')
    fz = fx.body[0]
    expect(norm(fz.target) == 'z' and isinstance(fz.iter, ast.Call) and norm(fz.iter.func) == 'range' and len(fz.iter.args) == 1,
           f'{prefix}: inner block loop is not `for z in range(N)`')
    out.append(f'Definition {prefix}_nblocks_x {PARAMS} : Z := {E(fx.iter.args[0], env)}.')
    out.append(f'Definition {prefix}_nblocks_z {PARAMS} : Z := {E(fz.iter.args[0], env)}.')
    expect(len(fz.body) == 2, f'{prefix}: inner block loop body must be slice assignment + queue.put')
    asg, put = fz.body
    expect(isinstance(asg, ast.Assign) and norm(asg.targets[0]) == 'slice', f'{prefix}: slice assignment')
    v = asg.value
    expect(isinstance(v, ast.Call) and isinstance(v.func, ast.Attribute) and v.func.attr == 'copy' and not v.args,
           f'{prefix}: slice is not a .copy() of a sub-array')
    sub = v.func.value
    expect(isinstance(sub, ast.Subscript) and norm(sub.value) == bufname and isinstance(sub.slice, ast.Tuple) and len(sub.slice.elts) == 3,
           f'{prefix}: block slice is not {bufname}[a, b, c]')
    s0, s1, s2 = sub.slice.elts
    expect(isinstance(s0, ast.Slice) and s0.lower is None and s0.upper is None and s0.step is None, f'{prefix}: first axis of a block must be `:`')
    for s in (s1, s2):
        expect(isinstance(s, ast.Slice) and s.step is None and s.lower is not None and s.upper is not None, f'{prefix}: block slice bounds')
    e2 = dict(env, x='x', z='z')
    out.append(f'Definition {prefix}_block_x_lo {PARAMS} (x : Z) : Z := {E(s1.lower, e2)}.')
    out.append(f'Definition {prefix}_block_x_hi {PARAMS} (x : Z) : Z := {E(s1.upper, e2)}.')
    out.append(f'Definition {prefix}_block_z_lo {PARAMS} (z : Z) : Z := {E(s2.lower, e2)}.')
    out.append(f'Definition {prefix}_block_z_hi {PARAMS} (z : Z) : Z := {E(s2.upper, e2)}.')
    expect(norm(put) == 'queue.put(slice)', f'{prefix}: per-block branch must put the slice: {norm(put)}')


def common_prologue(body, env, prefix, out, shape_stmt):
    expect(norm(body[0]) == shape_stmt, f'{prefix}: first statement changed: {norm(body[0])}')
    ps = body[1]
    expect(isinstance(ps, ast.Assign) and norm(ps.targets[0]) == 'padded_shape' and isinstance(ps.value, ast.Tuple) and len(ps.value.elts) == 3,
           f'{prefix}: padded_shape assignment')
    env['padded_shape'] = tuple(E(e, env) for e in ps.value.elts)
    for k in range(3):
        out.append(f'Definition {prefix}_padded{k} {PARAMS} : Z := {env["padded_shape"][k]}.')


def planes_to_read_stmt(st, env, prefix, out):
    expect(isinstance(st, ast.If) and len(st.body) == 1 and len(st.orelse) == 1 and
           norm(st.body[0].targets[0]) == 'planes_to_read' and norm(st.orelse[0].targets[0]) == 'planes_to_read',
           f'{prefix}: planes_to_read statement changed')
    out.append(f'Definition {prefix}_planes_to_read {PARAMS} (p : Z) : Z := if {B(st.test, env)} then {E(st.body[0].value, env)} else {E(st.orelse[0].value, env)}.')
    env['planes_to_read'] = f'({prefix}_planes_to_read {ARGS} p)'


def switch_stmt(st, env, bufname, prefix, out):
    expect(isinstance(st, ast.If) and len(st.body) == 1 and norm(st.body[0]) == f'queue.put({bufname})',
           f'{prefix}: layout switch: whole-plane-set branch must be queue.put({bufname})')
    out.append(f'Definition {prefix}_whole_set {PARAMS} : bool := {B(st.test, env)}.')
    block_loop(st.orelse, env, bufname, prefix, out)


def hash_loop_ok(st, prefix):
    expect(isinstance(st, ast.For) and norm(st.iter) == 'range(planes_to_read)' and len(st.body) == 1 and
           norm(st.body[0]).startswith('hash_object.update('), f'{prefix}: hash loop changed')


def gen_numpy(tree, out):
    f = find_function(tree, 'numpy_producer')
    expect([a.arg for a in f.args.args] == ['queue', 'in_array', 'blockshape', 'hash_object'], 'numpy_producer: signature changed')
    body = strip_doc(f.body)
    env = {'n_ilines': 'n_il', 'n_xlines': 'n_xl', 'trace_length': 'ns', 'blockshape': ('bs0', 'bs1', 'bs2')}
    common_prologue(body, env, 'np', out, 'n_ilines, n_xlines, trace_length = in_array.shape')
    st = body[2]
    expect(isinstance(st, ast.Assign) and norm(st.targets[0]) == 'n_plane_sets', 'numpy_producer: n_plane_sets')
    out.append(f'Definition np_n_plane_sets {PARAMS} : Z := {E(st.value, env)}.')
    loop = body[3]
    expect(len(body) == 4 and isinstance(loop, ast.For) and norm(loop.target) == 'plane_set_id' and norm(loop.iter) == 'range(n_plane_sets)',
           'numpy_producer: main loop changed')
    env['plane_set_id'] = 'p'
    lb = loop.body
    expect(len(lb) == 4, f'numpy_producer: loop body has {len(lb)} statements, expected 4')
    # 1: the np.pad statement
    padst = lb[0]
    expect(isinstance(padst, ast.If) and len(padst.body) == 2 and len(padst.orelse) == 1, 'numpy_producer: pad statement shape')
    out.append(f'Definition np_last_set {PARAMS} (p : Z) : bool := {B(padst.test, env)}.')
    ip = padst.body[0]
    expect(isinstance(ip, ast.Assign) and norm(ip.targets[0]) == 'ilines_pad', 'numpy_producer: ilines_pad')
    env_last = dict(env, ilines_pad=E(ip.value, env))

    def pad_call(asg, e):
        expect(isinstance(asg, ast.Assign) and norm(asg.targets[0]) == 'buffer', 'numpy_producer: buffer assignment')
        c = asg.value
        expect(isinstance(c, ast.Call) and norm(c.func) == 'np.pad' and len(c.args) == 3 and not c.keywords and
               isinstance(c.args[2], ast.Constant) and c.args[2].value == 'edge', 'numpy_producer: np.pad(..., "edge") expected')
        src = c.args[0]
        expect(isinstance(src, ast.Subscript) and norm(src.value) == 'in_array' and isinstance(src.slice, ast.Tuple) and len(src.slice.elts) == 3,
               'numpy_producer: padded source')
        s0, s1, s2 = src.slice.elts
        for s in (s1, s2):
            expect(isinstance(s, ast.Slice) and s.lower is None and s.upper is None and s.step is None, 'numpy_producer: source slice must be [a:b, :, :]')
        expect(isinstance(s0, ast.Slice) and s0.step is None, 'numpy_producer: source row slice')
        w = c.args[1]
        expect(isinstance(w, ast.Tuple) and len(w.elts) == 3 and all(isinstance(t, ast.Tuple) and len(t.elts) == 2 for t in w.elts), 'numpy_producer: pad widths')
        befores = [E(t.elts[0], e) for t in w.elts]
        expect(befores == ['0', '0', '0'], 'numpy_producer: padding before the data must be 0')
        return E(s0.lower, e), E(s0.upper, e), [E(t.elts[1], e) for t in w.elts]
    lo1, hi1, w1 = pad_call(padst.body[1], env_last)
    lo2, hi2, w2 = pad_call(padst.orelse[0], env)
    out.append(f'Definition np_row_lo {PARAMS} (p : Z) : Z := if np_last_set {ARGS} p then {lo1} else {lo2}.')
    out.append(f'Definition np_row_hi {PARAMS} (p : Z) : Z := if np_last_set {ARGS} p then {hi1} else {hi2}.')
    for k, nm in enumerate(('i', 'x', 'z')):
        out.append(f'Definition np_padw_{nm} {PARAMS} (p : Z) : Z := if np_last_set {ARGS} p then {w1[k]} else {w2[k]}.')
    planes_to_read_stmt(lb[1], env, 'np', out)
    hash_loop_ok(lb[2], 'numpy_producer')
    switch_stmt(lb[3], env, 'buffer', 'np', out)


def gen_seismic(tree, out):
    f = find_function(tree, 'seismic_file_producer')
    body = strip_doc(f.body)
    env = {'n_ilines': 'n_il', 'n_xlines': 'n_xl', 'trace_length': 'ns', 'blockshape': ('bs0', 'bs1', 'bs2')}
    common_prologue(body, env, 'sf', out, 'n_ilines, n_xlines, trace_length = (len(geom.ilines), len(geom.xlines), len(seismicfile.samples))')
    nps = next((s for s in body if isinstance(s, ast.Assign) and norm(s.targets[0]) == 'n_plane_sets'), None)
    expect(nps is not None, 'seismic_file_producer: n_plane_sets')
    out.append(f'Definition sf_n_plane_sets {PARAMS} : Z := {E(nps.value, env)}.')
    loops = [s for s in body if isinstance(s, ast.For) and norm(s.target) == 'plane_set_id']
    expect(len(loops) == 1 and norm(loops[0].iter) == 'range(n_plane_sets)' and body[-1] is loops[0], 'seismic_file_producer: main loop changed')
    env['plane_set_id'] = 'p'
    lb = [s for s in loops[0].body if not (isinstance(s, ast.If) and norm(s.test) == 'verbose')]
    expect(len(lb) == 5, f'seismic_file_producer: loop body has {len(lb)} statements, expected 5')
    planes_to_read_stmt(lb[0], env, 'sf', out)
    expect(norm(lb[1]) == 'seismic_buffer = np.zeros((blockshape[0], padded_shape[1], padded_shape[2]), dtype=np.float32)',
           'seismic_file_producer: buffer allocation changed: ' + norm(lb[1]))
    disp = lb[2]
    expect(isinstance(disp, ast.If) and norm(disp.test) == 'isinstance(geom, InferredGeometry3d)' and len(disp.body) == 1 and len(disp.orelse) == 1,
           'seismic_file_producer: io dispatch changed')
    want = 'io_thread_func(blockshape, store_headers, headers_dict, geom, plane_set_id, planes_to_read, seismic_buffer, seismicfile, minimal_il_reader, trace_length)'
    expect(norm(disp.orelse[0]) == want, 'seismic_file_producer: call of io_thread_func changed: ' + norm(disp.orelse[0]))
    hash_loop_ok(lb[3], 'seismic_file_producer')
    switch_stmt(lb[4], env, 'seismic_buffer', 'sf', out)


def gen_io(tree, out):
    f = find_function(tree, 'io_thread_func')
    expect([a.arg for a in f.args.args] == ['blockshape', 'store_headers', 'headers_dict', 'geom', 'plane_set_id', 'planes_to_read',
                                            'seismic_buffer', 'seismicfile', 'minimal_il_reader', 'trace_length'], 'io_thread_func: signature changed')
    body = strip_doc(f.body)
    expect(len(body) == 1 and isinstance(body[0], ast.For) and norm(body[0].target) == 'i' and norm(body[0].iter) == 'range(blockshape[0])',
           'io_thread_func: outer loop changed')
    lb = body[0].body
    P = '(g_il0 g_xl0 g_xl_last g_nxl bs0 p ptr ns i : Z)'
    env = {'geom.ilines[0]': 'g_il0', 'geom.xlines[0]': 'g_xl0', 'geom.xlines[-1]': 'g_xl_last', 'len(geom.xlines)': 'g_nxl',
           'blockshape': ('bs0', 'bs1', 'bs2'), 'plane_set_id': 'p', 'planes_to_read': 'ptr', 'trace_length': 'ns', 'i': 'i'}
    main = [s for s in lb if isinstance(s, ast.If) and norm(s.test) == 'i < planes_to_read']
    expect(len(main) == 1, 'io_thread_func: `if i < planes_to_read` not found')
    main = main[0]
    # --- populated rows
    rd = [s for s in main.body if isinstance(s, ast.If) and norm(s.test) == 'minimal_il_reader is not None']
    expect(len(rd) == 1, 'io_thread_func: reader dispatch (populated rows)')
    rd = rd[0]
    a_min = rd.body[0]
    expect(isinstance(a_min, ast.Assign) and isinstance(a_min.value, ast.Call) and norm(a_min.value.func) == 'minimal_il_reader.read_line'
           and norm(a_min.targets[0]) == '(headers, seismic_buffer[i, 0:len(geom.xlines), 0:trace_length])',
           'io_thread_func: minimal reader assignment changed: ' + norm(a_min))
    min_line_pop = E(a_min.value.args[0], env)
    a_seg = rd.orelse[0]
    expect(isinstance(a_seg, ast.Assign) and norm(a_seg.targets[0]) == 'seismic_buffer[i, 0:len(geom.xlines), 0:trace_length]', 'io_thread_func: segyio assignment target')
    v = a_seg.value
    # np.asarray(seismicfile.iline[seismicfile.ilines[LINE]])[XLO:XHI, :]
    expect(isinstance(v, ast.Subscript) and isinstance(v.slice, ast.Tuple) and len(v.slice.elts) == 2, 'io_thread_func: segyio crop')
    crop_x, crop_z = v.slice.elts
    expect(isinstance(crop_z, ast.Slice) and crop_z.lower is None and crop_z.upper is None, 'io_thread_func: sample crop must be `:`')
    inner = v.value
    expect(isinstance(inner, ast.Call) and norm(inner.func) == 'np.asarray', 'io_thread_func: np.asarray')
    il = inner.args[0]
    expect(isinstance(il, ast.Subscript) and norm(il.value) == 'seismicfile.iline' and isinstance(il.slice, ast.Subscript)
           and norm(il.slice.value) == 'seismicfile.ilines', 'io_thread_func: inline lookup changed')
    seg_line_pop = E(il.slice.slice, env)
    xlo, xhi = E(crop_x.lower, env), E(crop_x.upper, env)
    # --- padding rows
    rd2 = [s for s in main.orelse if isinstance(s, ast.If) and norm(s.test) == 'minimal_il_reader is not None']
    expect(len(rd2) == 1 and len(main.orelse) == 1, 'io_thread_func: reader dispatch (padding rows)')
    rd2 = rd2[0]
    b_min = rd2.body[0]
    expect(isinstance(b_min, ast.Assign) and isinstance(b_min.value, ast.Call) and norm(b_min.value.func) == 'minimal_il_reader.read_line'
           and norm(b_min.targets[0]) == '(_, seismic_buffer[i, 0:len(geom.xlines), 0:trace_length])', 'io_thread_func: minimal reader (padding rows)')
    min_line_pad = E(b_min.value.args[0], env)
    expect(len(rd2.orelse) == 4, 'io_thread_func: segyio padding rows: 4 statements expected')
    s_num, s_line, s_shape, s_asg = rd2.orelse
    expect(norm(s_num.targets[0]) == 'last_populated_inline_number', 'io_thread_func: last_populated_inline_number')
    seg_line_pad = E(s_num.value, env)
    expect(norm(s_line) == 'last_populated_inline = seismicfile.iline[seismicfile.ilines[last_populated_inline_number]]', 'io_thread_func: last_populated_inline')
    expect(isinstance(s_shape.value, ast.Tuple) and norm(s_shape.value.elts[1]) == 'slice(None)' and norm(s_shape.targets[0]) == 'il_shape', 'io_thread_func: il_shape')
    sl = s_shape.value.elts[0]
    expect(isinstance(sl, ast.Call) and norm(sl.func) == 'slice' and len(sl.args) == 2, 'io_thread_func: il_shape slice')
    xlo2, xhi2 = E(sl.args[0], env), E(sl.args[1], env)
    expect(norm(s_asg) == 'seismic_buffer[i, 0:len(geom.xlines), 0:trace_length] = np.asarray(last_populated_inline)[il_shape]', 'io_thread_func: padding row assignment')
    out.append(f'Definition io_seg_line {P} : Z := if i <? ptr then {seg_line_pop} else {seg_line_pad}.')
    out.append(f'Definition io_min_line {P} : Z := if i <? ptr then {min_line_pop} else {min_line_pad}.')
    out.append(f'Definition io_xl_lo {P} : Z := if i <? ptr then {xlo} else {xlo2}.')
    out.append(f'Definition io_xl_hi {P} : Z := if i <? ptr then {xhi} else {xhi2}.')
    # --- the two edge replication statements (last two statements of the loop body)
    px, pz = lb[-2], lb[-1]
    expect(isinstance(px, ast.Assign) and isinstance(px.targets[0], ast.Subscript) and norm(px.targets[0].value) == 'seismic_buffer', 'io_thread_func: crossline padding statement')
    t = px.targets[0].slice.elts
    s = px.value.slice.elts
    expect(norm(t[0]) == 'i' and norm(s[0]) == 'i' and norm(t[2]) == norm(s[2]) == '0:trace_length' and isinstance(t[1], ast.Slice) and t[1].upper is None
           and norm(px.value.value) == 'seismic_buffer', 'io_thread_func: crossline padding statement shape')
    out.append(f'Definition io_xpad_from {P} : Z := {E(t[1].lower, env)}.')
    out.append(f'Definition io_xpad_src {P} : Z := {E(s[1], env)}.')
    expect(isinstance(pz, ast.Assign) and isinstance(pz.value, ast.Call) and norm(pz.value.func) == 'np.expand_dims' and norm(pz.value.args[1]) == '1', 'io_thread_func: sample padding statement')
    t = pz.targets[0].slice.elts
    s = pz.value.args[0].slice.elts
    expect(norm(t[0]) == 'i' and norm(s[0]) == 'i' and norm(t[1]) == norm(s[1]) == ':' and isinstance(t[2], ast.Slice) and t[2].upper is None, 'io_thread_func: sample padding statement shape')
    out.append(f'Definition io_zpad_from {P} : Z := {E(t[2].lower, env)}.')
    out.append(f'Definition io_zpad_src {P} : Z := {E(s[2], env)}.')


def generate(srcdir):
    tree = ast.parse(open(os.path.join(srcdir, 'conversion_utils.py')).read())
    out = ['(* GENERATED by tools/genx_producer.py from seismic_zfp/conversion_utils.py -- DO NOT EDIT. *)',
           'From Coq Require Import ZArith List Bool.', 'Import ListNotations.', 'From SZ Require Import Lib.Py Gen.Utils.', 'Open Scope Z_scope.', '']
    gen_numpy(tree, out)
    out.append('')
    gen_seismic(tree, out)
    out.append('')
    gen_io(tree, out)
    return {'Producer': '\n'.join(out) + '\n'}
