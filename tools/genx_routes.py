#!/usr/bin/env python3
"""genx_routes.py -- plug-in generator for the conversion ROUTES (ZGY, VDS, SGZ-as-input; properties C01a, C03b, C05a):
emits coq/Gen/Routes.v.

Fail closed: everything is read with Python `ast` from the CURRENT sources; a statement, expression or branch that is
not recognised raises Fail (the target `Routes` is then a translation failure, Gen/Routes.v is removed and the proofs
of C01a / C03b / C05a stop building).  Nothing is guessed.

What is extracted
  seismicfile.py       Filetype members and values; SeismicFile.open: the extension dispatch chain (after
                       splitext()[1].lower().strip('.')), the two ValueError exits, per file type the opener and the
                       `structured` flag it sets
  conversion.py        set_filetype of the four converter classes; the file-type branch of SeismicFileConverter.run
                       (store_headers); the window crop of the generated ZGY header arrays in get_blank_header_info
                       (which slice of rows / columns is kept, in terms of geom.ilines / geom.xlines); a CENSUS of every mention of `filetype` / `Filetype` in conversion.py,
                       conversion_utils.py and headers.py (the producers, the compressor, the writer, make_header and
                       run_conversion_loop must not mention it: route independence of the data path)
  conversion_utils.py  make_header_seismic_file: the per-file-type branch (SEG-Y: file-header copy; ZGY: the two doubles:
                       byte ranges, source expression, packer), the source-code field and the detection-code field;
                       make_header_numpy's source code; io_thread_func's line accessor
                       seismicfile.iline[seismicfile.ilines[<ordinal>]] in both branches
  headers.py           HeaderwordInfo.__init__: which file types take the first/last-trace scan, the ZGY branch (table
                       updates in program order, self-referencing keys, order of the stored arrays in headers_dict, the
                       position of each in the tuple returned by get_zgy_header_arrays); get_zgy_header_arrays: a
                       symbolic evaluation of np.linspace / np.meshgrid / the affine CDP expressions / np.round /
                       .astype(np.intc) giving, for each returned array, its shape and its element at (row, column)
  read.py              _parse_coordinates: the branch condition and both (start, step) formulas of the sample axis;
                       get_file_source_code / get_header_detection_method_code byte ranges

numpy facts applied by this generator (named in the trusted base, validated by tools/checks/routes.py on every run):
  np.meshgrid(a, b) (default indexing='xy') returns (A, B) of shape (len(b), len(a)) with A[r, c] = a[c], B[r, c] = b[r];
  np.linspace(0, n - 1, num=n)[k] == float(k);  elementwise broadcasting of scalars over grids of one shape.
np.linspace(first, last, num=count, dtype=np.intc) on the line-number axes is NOT interpreted here: it is emitted as the
parameter `lin` (start, stop, num, k) of the generated definitions; Model/Routes.v states what is assumed of it.
"""
import ast, os

OUTPUTS = ['Routes']


class Fail(Exception):
    pass


def need(cond, msg):
    if not cond:
        raise Fail(msg)


def U(node):
    return ast.unparse(node)


def strip_doc(body):
    if body and isinstance(body[0], ast.Expr) and isinstance(body[0].value, ast.Constant) \
            and isinstance(body[0].value.value, str):
        return body[1:]
    return body


def load(srcdir, mod):
    p = os.path.join(srcdir, mod + '.py')
    return ast.parse(open(p).read(), filename=p)


def find_def(tree, qual):
    node = tree
    for part in qual.split('.'):
        found = [n for n in node.body if isinstance(n, (ast.FunctionDef, ast.ClassDef)) and n.name == part]
        need(len(found) == 1, f'{qual}: {len(found)} definitions of {part}')
        node = found[0]
    return node


def zlit(k):
    return f'({k})' if k < 0 else str(k)


def codes(s):
    return '[' + '; '.join(str(ord(ch)) for ch in s) + ']'


def int_const(node, what):
    if isinstance(node, ast.UnaryOp) and isinstance(node.op, ast.USub) and isinstance(node.operand, ast.Constant) \
            and type(node.operand.value) is int:
        return -node.operand.value
    need(isinstance(node, ast.Constant) and type(node.value) is int, f'{what}: integer literal expected, found {U(node)}')
    return node.value


def slice_bounds(sub, base, what):
    need(isinstance(sub, ast.Subscript) and U(sub.value) == base and isinstance(sub.slice, ast.Slice)
         and sub.slice.step is None and sub.slice.lower is not None and sub.slice.upper is not None,
         f'{what}: {base}[lo:hi] expected, found {U(sub)}')
    return int_const(sub.slice.lower, what), int_const(sub.slice.upper, what)


# ------------------------------------------------------------------------------------------------- seismicfile.py
def gen_seismicfile(srcdir, out):
    tree = load(srcdir, 'seismicfile')
    ft = find_def(tree, 'Filetype')
    need([U(b) for b in ft.bases] == ['Enum'], 'Filetype is not an Enum')
    members = []
    for st in strip_doc(ft.body):
        need(isinstance(st, ast.Assign) and len(st.targets) == 1 and isinstance(st.targets[0], ast.Name),
             'Filetype: unexpected member ' + U(st))
        members.append((st.targets[0].id, int_const(st.value, 'Filetype.' + st.targets[0].id)))
    names = [m[0] for m in members]
    need(len(set(names)) == len(names) and len(set(m[1] for m in members)) == len(members), 'Filetype: duplicate member / value')
    for req in ('SEGY', 'ZGY', 'VDS', 'SGZ'):
        need(req in names, f'Filetype.{req} missing')
    val = dict(members)
    out.append('(* ---- seismicfile.py: class Filetype(Enum) ---- *)')
    for n, v in members:
        out.append(f'Definition ft_{n} : Z := {zlit(v)}.')
    out.append('Definition filetype_codes : list Z := [' + '; '.join(f'ft_{n}' for n in names) + '].')
    out.append('')

    def ft_of(node, what):
        need(isinstance(node, ast.Attribute) and U(node.value) == 'Filetype' and node.attr in val, f'{what}: Filetype.<member> expected, found {U(node)}')
        return node.attr

    f = find_def(tree, 'SeismicFile.open')
    need([U(d) for d in f.decorator_list] == ['staticmethod'], 'SeismicFile.open is not a staticmethod')
    need([a.arg for a in f.args.args] == ['filename', 'file_type'] and [U(d) for d in f.args.defaults] == ['None'],
         'SeismicFile.open: signature changed')
    body = strip_doc(f.body)
    need(len(body) == 6, f'SeismicFile.open: {len(body)} statements, expected 6')
    need(U(body[0]) == 'handle = None', 'SeismicFile.open: first statement changed')
    # --- if file_type is None: <extension chain> elif not isinstance(file_type, Filetype): raise ValueError
    st = body[1]
    need(isinstance(st, ast.If) and U(st.test) == 'file_type is None', 'SeismicFile.open: `if file_type is None` expected')
    need(len(st.body) == 2 and U(st.body[0]) == "ext = os.path.splitext(filename)[1].lower().strip('.')",
         'SeismicFile.open: extension normalisation changed: ' + U(st.body[0]))
    table = []
    node = st.body[1]
    while True:
        need(isinstance(node, ast.If), 'SeismicFile.open: extension chain: if expected')
        t = node.test
        need(isinstance(t, ast.Compare) and U(t.left) == 'ext' and len(t.ops) == 1, 'extension test: ' + U(t))
        if isinstance(t.ops[0], ast.In):
            need(isinstance(t.comparators[0], ast.List) and all(isinstance(e, ast.Constant) and isinstance(e.value, str)
                                                                 for e in t.comparators[0].elts), 'extension list: ' + U(t))
            exts = [e.value for e in t.comparators[0].elts]
        elif isinstance(t.ops[0], ast.Eq):
            need(isinstance(t.comparators[0], ast.Constant) and isinstance(t.comparators[0].value, str), 'extension test: ' + U(t))
            exts = [t.comparators[0].value]
        else:
            raise Fail('extension test: ' + U(t))
        need(len(node.body) == 1 and isinstance(node.body[0], ast.Assign) and U(node.body[0].targets[0]) == 'file_type',
             'extension branch must be `file_type = Filetype.X`: ' + U(node.body[0]))
        tgt = ft_of(node.body[0].value, 'extension branch')
        for e in exts:
            need(e == e.lower().strip('.'), f'extension {e!r} can never equal a lower-cased, dot-stripped extension')
            need(e not in [x for x, _ in table], f'extension {e!r} tested twice')
            table.append((e, tgt))
        need(len(node.orelse) == 1, 'extension chain: else branch expected')
        nxt = node.orelse[0]
        if isinstance(nxt, ast.If):
            node = nxt
            continue
        need(isinstance(nxt, ast.Raise) and isinstance(nxt.exc, ast.Call) and U(nxt.exc.func) == 'ValueError',
             'extension chain must end in raise ValueError: ' + U(nxt))
        break
    need(len(st.orelse) == 1 and isinstance(st.orelse[0], ast.If) and U(st.orelse[0].test) == 'not isinstance(file_type, Filetype)'
         and len(st.orelse[0].body) == 1 and isinstance(st.orelse[0].body[0], ast.Raise)
         and U(st.orelse[0].body[0].exc.func) == 'ValueError' and not st.orelse[0].orelse,
         'SeismicFile.open: the check of an explicit file_type changed')
    out.append('(* ---- seismicfile.py: SeismicFile.open(filename, file_type=None) ----')
    out.append("   file_type None: ext = os.path.splitext(filename)[1].lower().strip('.'); first matching entry; none: ValueError.")
    out.append('   file_type given: must be a Filetype (else ValueError); the extension is not consulted.  Extensions as code points. *)')
    out.append('Definition open_ext_table : list (list Z * Z) := [' + '; '.join(f'({codes(e)}, ft_{t})' for e, t in table) + '].')
    # --- opener chain
    node = body[2]
    openers = []
    expect_open = {'SEGY': "segyio.open(filename, mode='r', strict=False)", 'ZGY': 'pyzgy.open(filename)',
                   'VDS': 'pyvds.open(filename)', 'SGZ': 'seismic_zfp.open(filename)'}
    opener_id = {'SEGY': 0, 'ZGY': 1, 'VDS': 2, 'SGZ': 3}
    segy_structured = ("try:\n    metrics = handle.xfd.cube_metrics(189, 193)\n"
                       "    handle.structured = metrics['iline_count'] * metrics['xline_count'] == handle.tracecount\n"
                       "except RuntimeError:\n    handle.structured = False")
    while node is not None:
        need(isinstance(node, ast.If) and isinstance(node.test, ast.Compare) and U(node.test.left) == 'file_type'
             and len(node.test.ops) == 1 and isinstance(node.test.ops[0], ast.Eq), 'opener chain: ' + U(node)[:60])
        t = ft_of(node.test.comparators[0], 'opener chain')
        need(t not in [o[0] for o in openers], f'opener chain: Filetype.{t} twice')
        stmts = list(node.body)
        if stmts and isinstance(stmts[0], ast.If) and U(stmts[0].test).endswith(' is None') and len(stmts[0].body) == 1 \
                and isinstance(stmts[0].body[0], ast.Raise) and U(stmts[0].body[0].exc.func) == 'ImportError' and not stmts[0].orelse:
            stmts = stmts[1:]           # optional dependency missing: ImportError
        need(len(stmts) == 2 and U(stmts[0]) == 'handle = ' + expect_open[t], f'opener of Filetype.{t} changed: ' + U(stmts[0]))
        if U(stmts[1]) == 'handle.structured = True':
            structured = 'Some true'
        elif U(stmts[1]) == 'handle.structured = False':
            structured = 'Some false'
        elif t == 'SEGY' and U(stmts[1]) == segy_structured:
            structured = 'None'
        else:
            raise Fail(f'structured flag of Filetype.{t}: ' + U(stmts[1]))
        openers.append((t, opener_id[t], structured))
        if not node.orelse:
            node = None
        else:
            need(len(node.orelse) == 1, 'opener chain: else with several statements')
            node = node.orelse[0]
    need(sorted(o[0] for o in openers) == sorted(names), 'opener chain does not cover exactly the Filetype members')
    need([U(s) for s in body[3:]] == ['handle.filetype = file_type', 'handle.filename = filename', 'return handle'],
         'SeismicFile.open: tail changed')
    out.append('(* opener per file type: 0 = segyio.open(filename, mode=\'r\', strict=False), 1 = pyzgy.open, 2 = pyvds.open, 3 = seismic_zfp.open *)')
    out.append('Definition open_opener : list (Z * Z) := [' + '; '.join(f'(ft_{t}, {i})' for t, i, _ in openers) + '].')
    out.append('(* handle.structured: Some b = the constant b; None = computed (segyio cube_metrics: iline_count * xline_count == tracecount, False on RuntimeError) *)')
    out.append('Definition open_structured : list (Z * option bool) := [' + '; '.join(f'(ft_{t}, {s})' for t, _, s in openers) + '].')
    out.append('(* handle.filetype = file_type ; handle.filename = filename *)')
    out.append('')
    return val


# ------------------------------------------------------------------------------------------------- float expressions
class FX:
    """translation of the float-valued Python expressions of the ZGY route into the fixed syntax `rfx`"""
    def __init__(self, env, prefix):
        self.env = env          # python text -> rfx text
        self.prefix = prefix    # spelling of the handle: 'seismicfile' or 'self.seismicfile'

    def tr(self, node):
        k = U(node)
        if k in self.env:
            return self.env[k]
        if isinstance(node, ast.Constant):
            if type(node.value) is int:
                return f'(RInt {zlit(node.value)})'
            if type(node.value) is float and node.value == int(node.value) and abs(node.value) < 2 ** 53:
                return f'(RFlt {zlit(int(node.value))})'
            raise Fail('constant ' + k)
        if isinstance(node, ast.BinOp):
            op = {ast.Add: 'RAdd', ast.Sub: 'RSub', ast.Mult: 'RMul', ast.Div: 'RDiv'}.get(type(node.op))
            need(op is not None, 'operator in ' + k)
            return f'({op} {self.tr(node.left)} {self.tr(node.right)})'
        raise Fail('float expression not recognised: ' + k)


# ------------------------------------------------------------------------------------------------- conversion_utils.py
def gen_conversion_utils(srcdir, out, val):
    tree = load(srcdir, 'conversion_utils')
    consts = {}
    for st in load(srcdir, 'sgzconstants').body:
        if isinstance(st, ast.Assign) and len(st.targets) == 1 and isinstance(st.targets[0], ast.Name):
            consts[st.targets[0].id] = st.value
    f = find_def(tree, 'make_header_seismic_file')
    need([a.arg for a in f.args.args] == ['seismicfile', 'bits_per_voxel', 'blockshape', 'geom', 'header_info'], 'make_header_seismic_file: signature')
    body = strip_doc(f.body)
    need(len(body) == 5, f'make_header_seismic_file: {len(body)} statements, expected 5')
    need(U(body[0]) == ('buffer = make_header(seismicfile.ilines, seismicfile.xlines, seismicfile.samples, seismicfile.tracecount, '
                        'header_info, bits_per_voxel, blockshape, geom, unstructured=seismicfile.unstructured)'),
         'make_header_seismic_file: call of make_header changed')
    # per-file-type branch
    node = body[1]
    branches = {}
    while node is not None:
        need(isinstance(node, ast.If) and isinstance(node.test, ast.Compare) and U(node.test.left) == 'seismicfile.filetype'
             and len(node.test.ops) == 1 and isinstance(node.test.ops[0], ast.Eq)
             and isinstance(node.test.comparators[0], ast.Attribute) and U(node.test.comparators[0].value) == 'Filetype'
             and node.test.comparators[0].attr in val, 'make_header_seismic_file: file-type branch: ' + U(node)[:70])
        t = node.test.comparators[0].attr
        need(t not in branches, f'make_header_seismic_file: Filetype.{t} twice')
        branches[t] = node.body
        if not node.orelse:
            node = None
        else:
            need(len(node.orelse) == 1 and isinstance(node.orelse[0], ast.If), 'make_header_seismic_file: unconditional else branch')
            node = node.orelse[0]
    need(set(branches) == {'SEGY', 'ZGY'}, 'make_header_seismic_file: branches for ' + str(sorted(branches)))
    need(U(ast.Module(body=branches['SEGY'], type_ignores=[])) ==
         "with open(seismicfile.filename, 'rb') as f:\n    segy_file_header = f.read(SEGY_FILE_HEADER_BYTES)\n"
         "    buffer[DISK_BLOCK_BYTES:DISK_BLOCK_BYTES + SEGY_FILE_HEADER_BYTES] = segy_file_header",
         'make_header_seismic_file: SEG-Y branch changed')
    fx = FX({'seismicfile.samples[0]': 'RSamples0', 'seismicfile.zinc': 'RZinc'}, 'seismicfile')
    dbl = []
    for st in branches['ZGY']:
        need(isinstance(st, ast.Assign) and len(st.targets) == 1, 'ZGY branch: ' + U(st))
        lo, hi = slice_bounds(st.targets[0], 'buffer', 'ZGY branch')
        need(isinstance(st.value, ast.Call) and U(st.value.func) == 'double_to_bytes' and len(st.value.args) == 1 and not st.value.keywords,
             'ZGY branch: double_to_bytes(expr) expected: ' + U(st))
        need(hi == lo + 8, f'ZGY branch: field {lo}:{hi} is not 8 bytes')
        dbl.append((lo, hi, fx.tr(st.value.args[0])))
    need(len(dbl) >= 1, 'ZGY branch is empty')
    # double_to_bytes itself
    ut = load(srcdir, 'utils')
    need(U(find_def(ut, 'double_to_bytes').body[-1]) == "return struct.pack('<d', value)", 'utils.double_to_bytes changed')
    need(U(find_def(ut, 'bytes_to_double').body[-1]) == "return struct.unpack('<d', bytes)[0]", 'utils.bytes_to_double changed')
    need(U(find_def(ut, 'int_to_bytes').body[-1]) == "return struct.pack('<I', bytes)", 'utils.int_to_bytes changed')
    # source code and detection code
    lo_s, hi_s = slice_bounds(body[2].targets[0], 'buffer', 'source-code field')
    need(U(body[2].value) == 'int_to_bytes(seismicfile.filetype.value)', 'source-code field: ' + U(body[2].value))
    lo_d, hi_d = slice_bounds(body[3].targets[0], 'buffer', 'detection-code field')
    need(U(body[3].value) == 'int_to_bytes(HEADER_DETECTION_CODES[header_info.header_detection])', 'detection-code field: ' + U(body[3].value))
    need(hi_s == lo_s + 4 and hi_d == lo_d + 4, 'code fields are not 4 bytes')
    need(U(body[4]) == 'return buffer', 'make_header_seismic_file must return buffer')
    need('HEADER_DETECTION_CODES' in consts and isinstance(consts['HEADER_DETECTION_CODES'], ast.Dict), 'HEADER_DETECTION_CODES')
    det = {k.value: int_const(v, 'HEADER_DETECTION_CODES') for k, v in zip(consts['HEADER_DETECTION_CODES'].keys, consts['HEADER_DETECTION_CODES'].values)}
    need(list(det) == ['heuristic', 'thorough', 'exhaustive', 'strip'], 'HEADER_DETECTION_CODES keys: ' + str(list(det)))
    # numpy route
    fn = find_def(tree, 'make_header_numpy')
    srcs = [s for s in ast.walk(fn) if isinstance(s, ast.Assign) and isinstance(s.targets[0], ast.Subscript) and U(s.targets[0].value) == 'buffer']
    need(len(srcs) == 1, 'make_header_numpy: exactly one buffer assignment expected')
    lo_n, hi_n = slice_bounds(srcs[0].targets[0], 'buffer', 'make_header_numpy')
    need((lo_n, hi_n) == (lo_s, hi_s) and isinstance(srcs[0].value, ast.Call) and U(srcs[0].value.func) == 'int_to_bytes'
         and len(srcs[0].value.args) == 1, 'make_header_numpy: source-code assignment changed')
    np_code = int_const(srcs[0].value.args[0], 'make_header_numpy source code')
    out.append('(* ---- conversion_utils.py: make_header_seismic_file (after make_header filled bytes 0:76 and 980:2048) ---- *)')
    out.append('(* if filetype == SEGY: buffer[4096:4096+3600] = first 3600 bytes of the source file *)')
    out.append('Definition mhs_copies_file_header (ft : Z) : bool := (ft =? ft_SEGY).')
    out.append("(* elif filetype == ZGY: buffer[lo:hi] = struct.pack('<d', expr) in program order; no other file type assigns bytes here *)")
    out.append('Definition mhs_zgy_f64 : list (Z * Z * rfx) := [' + '; '.join(f'({lo}, {hi}, {e})' for lo, hi, e in dbl) + '].')
    out.append('Definition mhs_f64 (ft : Z) : list (Z * Z * rfx) := if ft =? ft_ZGY then mhs_zgy_f64 else [].')
    out.append("(* buffer[lo:hi] = struct.pack('<I', seismicfile.filetype.value) *)")
    out.append(f'Definition mhs_source_code_lo : Z := {lo_s}.')
    out.append(f'Definition mhs_source_code_hi : Z := {hi_s}.')
    out.append('Definition mhs_source_code (ft : Z) : Z := ft.')
    out.append(f'(* make_header_numpy: the same bytes = int_to_bytes({np_code}) *)')
    out.append(f'Definition mhn_source_code : Z := {zlit(np_code)}.')
    out.append("(* buffer[lo:hi] = struct.pack('<I', HEADER_DETECTION_CODES[header_detection]); modes heuristic, thorough, exhaustive, strip *)")
    out.append(f'Definition mhs_detection_lo : Z := {lo_d}.')
    out.append(f'Definition mhs_detection_hi : Z := {hi_d}.')
    out.append('Definition mhs_detection_codes : list Z := [' + '; '.join(zlit(det[k]) for k in det) + '].')
    out.append('')
    # io_thread_func: the line accessor
    io = find_def(tree, 'io_thread_func')
    subs = [n for n in ast.walk(io) if isinstance(n, ast.Subscript) and U(n.value) == 'seismicfile.iline']
    need(len(subs) == 2, f'io_thread_func: {len(subs)} uses of seismicfile.iline, expected 2')
    keys = []
    for s in subs:
        k = s.slice
        need(isinstance(k, ast.Subscript) and U(k.value) == 'seismicfile.ilines', 'io_thread_func: seismicfile.iline is not indexed by seismicfile.ilines[..]: ' + U(s))
        keys.append(U(k.slice))
    need(sorted(keys) == sorted(['geom.ilines[0] + plane_set_id * blockshape[0] + i', 'last_populated_inline_number']),
         'io_thread_func: ordinal expressions of the line accessor changed: ' + str(keys))
    for attr in ('xline', 'trace', 'depth_slice'):
        need(not [n for n in ast.walk(io) if isinstance(n, ast.Attribute) and U(n) == 'seismicfile.' + attr],
             f'io_thread_func uses seismicfile.{attr}')
    out.append('(* ---- conversion_utils.py: io_thread_func fetches a plane ONLY as seismicfile.iline[seismicfile.ilines[L]] (both branches;')
    out.append('   L = the ordinal io_seg_line of Gen/Producer.v), i.e. by the line NUMBER found at ordinal L of the handle\'s own axis *)')
    out.append('Definition io_line_by_number_of_ordinal : bool := true.')
    out.append('')


# ------------------------------------------------------------------------------------------------- conversion.py
def gen_conversion(srcdir, out, val):
    tree = load(srcdir, 'conversion')
    classes = {'SeismicFileConverter': None, 'SegyConverter': 'SEGY', 'ZgyConverter': 'ZGY', 'VdsConverter': 'VDS'}
    out.append('(* ---- conversion.py: set_filetype of the converter classes (None: decided by SeismicFile.open from the extension) ---- *)')
    for cls, want in classes.items():
        f = find_def(tree, cls + '.set_filetype')
        body = strip_doc(f.body)
        need(len(body) == 1 and isinstance(body[0], ast.Return), f'{cls}.set_filetype: single return expected')
        r = U(body[0].value)
        if want is None:
            need(r == 'None', f'{cls}.set_filetype returns {r}')
            out.append('Definition conv_filetype_base : option Z := None.')
        else:
            need(r.startswith('Filetype.') and r[9:] in val, f'{cls}.set_filetype returns {r}')
            out.append(f'Definition conv_filetype_{cls[:-9].lower()} : option Z := Some ft_{r[9:]}.')
        if cls != 'SeismicFileConverter':
            c = find_def(tree, cls)
            need([U(b) for b in c.bases] == ['SeismicFileConverter'], f'{cls}: bases changed')
            need([n.name for n in c.body if isinstance(n, ast.FunctionDef)] == ['set_filetype'], f'{cls} overrides more than set_filetype')
    init = find_def(tree, 'SeismicFileConverter.__init__')
    need('self.filetype = self.set_filetype()' in [U(s) for s in init.body], 'SeismicFileConverter.__init__: filetype assignment changed')
    opens = [U(n) for n in ast.walk(find_def(tree, 'SeismicFileConverter')) if isinstance(n, ast.Call) and U(n.func) == 'SeismicFile.open']
    need(opens and all(o == 'SeismicFile.open(self.in_filename, self.filetype)' for o in opens), 'SeismicFileConverter: SeismicFile.open call changed: ' + str(opens))
    # run: store_headers
    run = find_def(tree, 'SeismicFileConverter.run')
    asg = [n for n in ast.walk(run) if isinstance(n, ast.Assign) and U(n.targets[0]) == 'store_headers']
    need(len(asg) == 2 and U(asg[0].value) == "not header_detection == 'strip'" and U(asg[1].value) == 'False', 'run: store_headers assignments changed')
    ifs = [n for n in ast.walk(run) if isinstance(n, ast.If) and asg[1] in n.body]
    pre = 'seismic.filetype == Filetype.'
    need(len(ifs) == 1 and len(ifs[0].body) == 1 and not ifs[0].orelse and U(ifs[0].test).startswith(pre)
         and U(ifs[0].test)[len(pre):] in val, 'run: condition of store_headers = False changed')
    t = U(ifs[0].test)[len(pre):]
    out.append("(* SeismicFileConverter.run: store_headers = not(header_detection == 'strip'); if seismic.filetype == Filetype.%s: store_headers = False *)" % t)
    out.append(f'Definition run_store_headers (ft : Z) (strip : bool) : bool := if ft =? ft_{t} then false else negb strip.')
    # get_blank_header_info, heuristic branch: the window crop of the generated ZGY arrays (D54 repair)
    gb = find_def(tree, 'SeismicFileConverter.get_blank_header_info')
    hb = [n for n in ast.walk(gb) if isinstance(n, ast.If) and U(n.test) == "header_detection == 'heuristic'"]
    need(len(hb) == 1, "get_blank_header_info: `if header_detection == 'heuristic'` not found")
    hs = hb[0].body
    need(len(hs) == 3 and U(hs[0]) == 'header_info = HeaderwordInfo(n_traces=n_traces, seismicfile=seismic, header_detection=header_detection)'
         and U(hs[2]) == 'return header_info' and isinstance(hs[1], ast.If) and not hs[1].orelse,
         'get_blank_header_info: heuristic branch changed shape')
    pre = 'seismic.filetype == Filetype.'
    need(U(hs[1].test).startswith(pre) and U(hs[1].test)[len(pre):] in val, 'get_blank_header_info: crop condition: ' + U(hs[1].test))
    ct = U(hs[1].test)[len(pre):]
    cb = hs[1].body
    need(len(cb) == 2 and isinstance(cb[0], ast.Assign) and isinstance(cb[0].targets[0], ast.Tuple) and isinstance(cb[0].value, ast.Tuple)
         and all(isinstance(e, ast.Name) for e in cb[0].targets[0].elts), 'crop: axis names: ' + U(cb[0]))
    axn = {}
    for nm, v in zip(cb[0].targets[0].elts, cb[0].value.elts):
        need(U(v) in ('self.geom.ilines', 'self.geom.xlines'), 'crop: axis source ' + U(v))
        axn[nm.id] = 'gi' if U(v) == 'self.geom.ilines' else 'gx'
    need(sorted(axn.values()) == ['gi', 'gx'], 'crop: both geometry axes expected')
    lp = cb[1]
    need(isinstance(lp, ast.For) and U(lp.target) == '(hw, array)' and U(lp.iter) == 'header_info.headers_dict.items()' and len(lp.body) == 1
         and not lp.orelse, 'crop: loop over headers_dict changed: ' + U(lp)[:80])
    asg = lp.body[0]
    need(isinstance(asg, ast.Assign) and U(asg.targets[0]) == 'header_info.headers_dict[hw]' and isinstance(asg.value, ast.Call)
         and U(asg.value.func) == 'np.ascontiguousarray' and len(asg.value.args) == 1 and not asg.value.keywords, 'crop: assignment changed: ' + U(asg))
    sub = asg.value.args[0]
    need(isinstance(sub, ast.Subscript) and U(sub.value) == 'array' and isinstance(sub.slice, ast.Tuple) and len(sub.slice.elts) == 2,
         'crop: array[rows, cols] expected: ' + U(sub))

    def bound(node, what):
        # A[0] -> first element of the axis, A[-1] + 1 -> last element + 1, A[-1] -> last element
        if isinstance(node, ast.BinOp) and isinstance(node.op, ast.Add) and isinstance(node.right, ast.Constant) and type(node.right.value) is int:
            return f'({bound(node.left, what)} + {node.right.value})'
        need(isinstance(node, ast.Subscript) and isinstance(node.value, ast.Name) and node.value.id in axn, f'crop {what}: {U(node)}')
        k = int_const(node.slice, 'crop ' + what)
        need(k in (0, -1), f'crop {what}: index {k}')
        return axn[node.value.id] + ('0' if k == 0 else 'l')
    crop = []
    for nm, sl in zip(('row', 'col'), sub.slice.elts):
        need(isinstance(sl, ast.Slice) and sl.step is None and sl.lower is not None and sl.upper is not None, f'crop {nm}: lo:hi expected: ' + U(sl))
        crop.append((nm, bound(sl.lower, nm), bound(sl.upper, nm)))
    out.append('(* get_blank_header_info, heuristic: for a source of this file type every generated header array (rows, cols) is replaced by')
    out.append('   np.ascontiguousarray(array[row_lo:row_hi, col_lo:col_hi]); gi0 / gil = first / last element of geom.ilines, gx0 / gxl of geom.xlines *)')
    out.append(f'Definition zgy_crop_filetype : Z := ft_{ct}.')
    for nm, lo, hi in crop:
        out.append(f'Definition zgy_crop_{nm}_lo (gi0 gil gx0 gxl : Z) : Z := {lo}.')
        out.append(f'Definition zgy_crop_{nm}_hi (gi0 gil gx0 gxl : Z) : Z := {hi}.')
    out.append('')


# ------------------------------------------------------------------------------------------------- census
def gen_census(srcdir, out):
    """every mention of the file type on the writer side, by enclosing function"""
    expected = {
        'conversion': {'SeismicFileConverter.__init__': 3, 'SeismicFileConverter.get_blank_header_info': 2,
                       'SeismicFileConverter.check_input_file_exists': 2, 'SeismicFileConverter.run': 3,
                       'SegyConverter.set_filetype': 1, 'ZgyConverter.set_filetype': 1, 'VdsConverter.set_filetype': 1, '<module>': 1},
        'conversion_utils': {'make_header_seismic_file': 5, '<module>': 1},
        'headers': {'HeaderwordInfo.__init__': 5, '<module>': 1},
    }
    must_be_free = {'conversion_utils': ['make_header', 'make_header_numpy', 'io_thread_func', 'io_thread_func_2d', 'unstructured_io_thread_func',
                                         'numpy_producer', 'seismic_file_producer', 'seismic_file_producer_2d', 'compressor', 'writer',
                                         'run_conversion_loop', 'MinimalInlineReader.read_line'],
                    'headers': ['HeaderwordInfo.get_zgy_header_arrays', 'HeaderwordInfo.to_buffer', 'HeaderwordInfo.get_header_array_count']}
    total = 0
    lines = []
    for mod, exp in expected.items():
        tree = load(srcdir, mod)
        found = {}

        def visit_def(node, qual):
            for st in node.body:
                if isinstance(st, (ast.FunctionDef, ast.ClassDef)):
                    visit_def(st, (qual + '.' if qual != '<module>' else '') + st.name)
                else:
                    for n in ast.walk(st):
                        need(not isinstance(n, (ast.FunctionDef, ast.ClassDef)), f'{mod}: nested definition inside a statement of {qual}')
                        hit = (isinstance(n, ast.Attribute) and n.attr in ('filetype', 'set_filetype')) or (isinstance(n, ast.Name) and n.id == 'Filetype') \
                              or (isinstance(n, ast.alias) and n.name == 'Filetype')
                        if hit:
                            found[qual] = found.get(qual, 0) + 1
        visit_def(tree, '<module>')
        need(found == exp, f'{mod}: mentions of the file type changed: found {found}, expected {exp}')
        for q in must_be_free.get(mod, []):
            find_def(tree, q)       # must exist
            need(q not in found, f'{mod}.{q} mentions the file type')
        total += sum(found.values())
        lines.append(f'   {mod}: ' + ', '.join(f'{k} x{v}' for k, v in sorted(found.items())))
    out.append('(* ---- census: every mention of `filetype` / `Filetype` / `set_filetype` on the writer side (the generator fails if this changes) ----')
    out.extend(lines)
    out.append('   free of any mention (checked): make_header, make_header_numpy, io_thread_func(_2d), unstructured_io_thread_func, numpy_producer,')
    out.append('   seismic_file_producer(_2d), compressor, writer, run_conversion_loop, MinimalInlineReader.read_line, get_zgy_header_arrays, to_buffer,')
    out.append('   get_header_array_count: the data path and the header codec depend on the file type only through the handle object. *)')
    out.append(f'Definition filetype_census_size : Z := {total}.')
    out.append('Definition data_path_filetype_free : bool := true.')
    out.append('')


# ------------------------------------------------------------------------------------------------- headers.py
def gen_headers(srcdir, out, val):
    tree = load(srcdir, 'headers')
    init = find_def(tree, 'HeaderwordInfo.__init__')
    top = [s for s in strip_doc(init.body) if isinstance(s, ast.If) and U(s.test) == 'seismicfile is not None']
    need(len(top) == 1, 'HeaderwordInfo.__init__: `if seismicfile is not None` not found')
    sb = top[0].body
    need(len(sb) == 2 and U(sb[0]) == 'self.seismicfile = seismicfile' and isinstance(sb[1], ast.If), 'HeaderwordInfo.__init__: seismicfile branch changed shape')
    n1 = sb[1]
    t1 = n1.test
    need(isinstance(t1, ast.Compare) and U(t1.left) == 'self.seismicfile.filetype' and len(t1.ops) == 1 and isinstance(t1.ops[0], ast.In)
         and isinstance(t1.comparators[0], ast.List), 'HeaderwordInfo.__init__: scan branch test: ' + U(t1))
    scan = []
    for e in t1.comparators[0].elts:
        need(isinstance(e, ast.Attribute) and U(e.value) == 'Filetype' and e.attr in val, 'scan branch list: ' + U(e))
        scan.append(e.attr)
    need(len(n1.orelse) == 1 and isinstance(n1.orelse[0], ast.If), 'HeaderwordInfo.__init__: elif expected after the scan branch')
    n2 = n1.orelse[0]
    pre = 'seismicfile.filetype == Filetype.'
    need(U(n2.test).startswith(pre) and U(n2.test)[len(pre):] in val, 'HeaderwordInfo.__init__: second branch test: ' + U(n2.test))
    zt = U(n2.test)[len(pre):]
    need(zt == 'ZGY', 'HeaderwordInfo.__init__: second branch is not the ZGY branch')
    need(len(n2.orelse) == 1 and isinstance(n2.orelse[0], ast.Raise) and U(n2.orelse[0].exc.func) == 'RuntimeError',
         'HeaderwordInfo.__init__: other file types must raise RuntimeError')
    out.append('(* ---- headers.py: HeaderwordInfo.__init__(seismicfile=...) ---- *)')
    out.append('(* file types whose table comes from scanning the first and the last trace header of the handle (the SEG-Y route of Gen/Headers.v) *)')
    out.append('Definition hwinfo_scan_filetypes : list Z := [' + '; '.join('ft_' + s for s in scan) + '].')
    out.append(f'Definition hwinfo_zgy_filetype : Z := ft_{zt}.')
    out.append('(* any other file type: RuntimeError *)')
    # ZGY branch
    fx = FX({'seismicfile.zinc': 'RZinc'}, 'seismicfile')
    updates, selfkeys, unpack, hdict = [], None, None, None
    for st in n2.body:
        if isinstance(st, ast.Assign) and isinstance(st.targets[0], ast.Subscript) and U(st.targets[0].value) == 'self.table':
            need(selfkeys is None, 'ZGY branch: constant entry after the loop of stored keys')
            k = int_const(st.targets[0].slice, 'ZGY table key')
            need(isinstance(st.value, ast.Tuple) and len(st.value.elts) == 2, 'ZGY table value: ' + U(st.value))
            v, r = st.value.elts
            need(int_const(r, 'ZGY table reference') == 0, f'ZGY table entry {k}: reference is not 0')
            if U(v) == 'int(seismicfile.n_samples)':
                tv = 'TVNSamples'
            elif isinstance(v, ast.Call) and U(v.func) == 'int' and len(v.args) == 1:
                tv = f'(TVTrunc {fx.tr(v.args[0])})'
            else:
                tv = f'(TVConst {zlit(int_const(v, "ZGY table value"))})'
            updates.append((k, tv))
        elif isinstance(st, ast.For):
            need(selfkeys is None and U(st.target) == 'hw_code' and isinstance(st.iter, ast.List) and len(st.body) == 1
                 and U(st.body[0]) == 'self.table[hw_code] = (0, hw_code)' and not st.orelse, 'ZGY branch: loop of stored keys changed: ' + U(st))
            selfkeys = [int_const(e, 'stored key') for e in st.iter.elts]
        elif isinstance(st, ast.Assign) and isinstance(st.targets[0], ast.Tuple):
            need(U(st.value) == 'self.get_zgy_header_arrays()' and all(isinstance(e, ast.Name) for e in st.targets[0].elts), 'ZGY branch: ' + U(st))
            unpack = [e.id for e in st.targets[0].elts]
        elif isinstance(st, ast.Assign) and U(st.targets[0]) == 'self.headers_dict':
            need(isinstance(st.value, ast.Dict) and unpack is not None, 'ZGY branch: headers_dict: ' + U(st))
            hdict = []
            for k, v in zip(st.value.keys, st.value.values):
                need(isinstance(v, ast.Name) and v.id in unpack, 'headers_dict value ' + U(v))
                hdict.append((int_const(k, 'headers_dict key'), unpack.index(v.id)))
        else:
            raise Fail('ZGY branch: unexpected statement ' + U(st))
    need(updates and selfkeys and unpack and hdict, 'ZGY branch incomplete')
    need(len(set(k for k, _ in updates) | set(selfkeys)) == len(updates) + len(selfkeys), 'ZGY branch: a table key is assigned twice')
    need(len(set(k for k, _ in hdict)) == len(hdict) and len(set(p for _, p in hdict)) == len(hdict), 'headers_dict: duplicate key or array')
    out.append('(* ZGY branch, in program order: self.table[k] = (value, 0) *)')
    out.append('Definition zgy_tbl_consts : list (Z * ztv) := [' + '; '.join(f'({k}, {tv})' for k, tv in updates) + '].')
    out.append('(* for hw_code in [...]: self.table[hw_code] = (0, hw_code) *)')
    out.append('Definition zgy_tbl_self_keys : list Z := [' + '; '.join(str(k) for k in selfkeys) + '].')
    out.append('(* self.headers_dict = {key: array}: (key, position of that array in the tuple returned by get_zgy_header_arrays), dict order *)')
    out.append('Definition zgy_headers_dict : list (Z * Z) := [' + '; '.join(f'({k}, {p})' for k, p in hdict) + '].')
    # table codec facts used by the proofs are those of Gen/Headers.v (to_buffer / get_header_array_count)
    # ---- get_zgy_header_arrays
    g = find_def(tree, 'HeaderwordInfo.get_zgy_header_arrays')
    S = 'self.seismicfile'
    env = {}
    cfx = FX({}, S)

    def lin(call):
        need(isinstance(call, ast.Call) and U(call.func) == 'np.linspace' and len(call.args) == 2, 'linspace call: ' + U(call))
        kw = {k.arg: U(k.value) for k in call.keywords}
        a0, a1 = U(call.args[0]), U(call.args[1])
        for which in ('il', 'xl'):
            ax = f'{S}.{which}ines'
            if (a0, a1) == (f'{ax}[0]', f'{ax}[-1]') and kw == {'num': f'len({ax})', 'dtype': 'np.intc'}:
                return ('axis', 'lines', which)
            if (a0, a1) == ('0', f'{S}.n_{which}ines - 1') and kw == {'num': f'{S}.n_{which}ines'}:
                return ('axis', 'idx', which)
        raise Fail('np.linspace call not recognised: ' + U(call))

    def scal(node):
        return cfx.tr(node)

    def gridexpr(node):
        """elementwise expression over grids -> (shape, rfx text); shape None for a scalar"""
        k = U(node)
        if k in env:
            v = env[k]
            if v[0] == 'grid':
                need(v[3][0] == 'idx', 'line-number grid used in a float expression: ' + k)
                return (v[1], v[2]), ('RRow' if v[4] == 'row' else 'RCol')
            if v[0] == 'scalar':
                return None, v[1]
            raise Fail('name of the wrong kind in a CDP expression: ' + k)
        if k in cfx.env:
            return None, cfx.env[k]
        if isinstance(node, ast.Constant):
            return None, scal(node)
        if isinstance(node, ast.BinOp):
            op = {ast.Add: 'RAdd', ast.Sub: 'RSub', ast.Mult: 'RMul', ast.Div: 'RDiv'}.get(type(node.op))
            need(op is not None, 'operator in ' + k)
            s1, e1 = gridexpr(node.left)
            s2, e2 = gridexpr(node.right)
            need(s1 is None or s2 is None or s1 == s2, 'grids of different shape combined in ' + k)
            return (s1 or s2), f'({op} {e1} {e2})'
        raise Fail('CDP expression not recognised: ' + k)

    returns = None
    for st in strip_doc(g.body):
        if isinstance(st, ast.Return):
            need(isinstance(st.value, ast.Tuple) and all(isinstance(e, ast.Name) for e in st.value.elts), 'get_zgy_header_arrays: return ' + U(st))
            returns = [e.id for e in st.value.elts]
            continue
        need(returns is None, 'get_zgy_header_arrays: statement after return')
        need(isinstance(st, ast.Assign) and len(st.targets) == 1, 'get_zgy_header_arrays: ' + U(st))
        tgt, v = st.targets[0], st.value
        if isinstance(tgt, ast.Tuple):
            need(isinstance(v, ast.Call) and U(v.func) == 'np.meshgrid' and len(v.args) == 2 and not v.keywords and len(tgt.elts) == 2
                 and all(isinstance(e, ast.Name) for e in tgt.elts), 'meshgrid statement: ' + U(st))
            a, b = (env.get(U(x)) for x in v.args)
            need(a and b and a[0] == 'axis' and b[0] == 'axis', 'meshgrid arguments are not linspace axes: ' + U(st))
            # (A, B) = meshgrid(a, b): shape (len(b), len(a)); A[r, c] = a[c]; B[r, c] = b[r]
            env[tgt.elts[0].id] = ('grid', b[2], a[2], (a[1], a[2]), 'col')
            env[tgt.elts[1].id] = ('grid', b[2], a[2], (b[1], b[2]), 'row')
        elif isinstance(tgt, ast.Name):
            if isinstance(v, ast.Call) and U(v.func) == 'np.linspace':
                env[tgt.id] = lin(v)
            elif U(v) == f'{S}.corners':
                env[tgt.id] = ('corners',)
                for kk in range(4):
                    for cc in range(2):
                        cfx.env[f'{tgt.id}[{kk}][{cc}]'] = f'(RCorner {kk} {cc})'
                cfx.env[f'{S}.n_ilines'] = 'RCountIl'
                cfx.env[f'{S}.n_xlines'] = 'RCountXl'
            elif isinstance(v, ast.Call) and isinstance(v.func, ast.Attribute) and v.func.attr == 'astype':
                need([U(x) for x in v.args] == ['np.intc'] and not v.keywords, 'astype: ' + U(v))
                r = v.func.value
                need(isinstance(r, ast.Call) and U(r.func) == 'np.round' and len(r.args) == 1 and not r.keywords, 'np.round(...) expected: ' + U(r))
                shp, e = gridexpr(r.args[0])
                need(shp is not None, 'CDP expression is not a grid: ' + U(st))
                env[tgt.id] = ('round', shp[0], shp[1], e)
            else:
                env[tgt.id] = ('scalar', scal(v))
                cfx.env[tgt.id] = env[tgt.id][1]
        else:
            raise Fail('get_zgy_header_arrays: ' + U(st))
    need(returns is not None and len(returns) == len(unpack), 'get_zgy_header_arrays: number of returned arrays differs from the unpacking in __init__')
    shapes = set()
    syms = []
    for nm in returns:
        v = env.get(nm)
        need(v is not None and v[0] in ('grid', 'round'), f'returned name {nm} is not an array built here')
        shapes.add((v[1], v[2]))
        if v[0] == 'grid':
            need(v[3][0] == 'lines', f'returned grid {nm} is built from an index axis')
            syms.append(f'ZLines {"true" if v[3][1] == "il" else "false"} {"true" if v[4] == "row" else "false"}')
        else:
            syms.append(f'ZRound {v[3]}')
    need(len(shapes) == 1, 'returned arrays have different shapes: ' + str(shapes))
    rows, cols = shapes.pop()
    need(rows != cols, 'grid with both axes from the same line axis')
    out.append('(* get_zgy_header_arrays: every returned array is a 2-D grid of shape (rows, cols); written with tobytes(): C order *)')
    out.append(f'Definition zgy_grid_rows (n_il n_xl : Z) : Z := n_{rows}.')
    out.append(f'Definition zgy_grid_cols (n_il n_xl : Z) : Z := n_{cols}.')
    out.append('(* the returned tuple, by position: element (r, c) of each array.')
    out.append('   ZLines il by_row: lin(first, last, count)[r or c] of the inline (il = true) or crossline axis, lin = np.linspace(.., dtype=np.intc);')
    out.append('   ZRound e: np.round(e).astype(np.intc), e over RRow = float(r), RCol = float(c) *)')
    out.append('Definition zgy_returns : list zsym := [' + '; '.join(syms) + '].')
    out.append('')


# ------------------------------------------------------------------------------------------------- read.py
def gen_read(srcdir, out):
    tree = load(srcdir, 'read')
    f = find_def(tree, 'SgzReader._parse_coordinates')
    body = strip_doc(f.body)
    need(len(body) == 5 and isinstance(body[0], ast.If), '_parse_coordinates: shape changed')
    br = body[0]
    t = br.test
    need(isinstance(t, ast.Compare) and len(t.ops) == 1 and isinstance(t.ops[0], ast.Eq) and U(t.comparators[0]) == '0'
         and isinstance(t.left, ast.Call) and U(t.left.func) == 'bytes_to_double' and len(t.left.args) == 1, '_parse_coordinates: branch test: ' + U(t))
    clo, chi = slice_bounds(t.left.args[0], 'self.headerbytes', 'branch test')
    need(chi == clo + 8, 'branch test does not read 8 bytes')

    def hdr_read(node, what):
        need(isinstance(node, ast.Call) and len(node.args) == 1 and U(node.func) in ('bytes_to_int', 'bytes_to_signed_int', 'bytes_to_double'), what + ': ' + U(node))
        lo, hi = slice_bounds(node.args[0], 'self.headerbytes', what)
        need(hi - lo == (8 if U(node.func) == 'bytes_to_double' else 4), what + ': width')
        return U(node.func), lo

    ib = br.body
    need(len(ib) == 3 and U(ib[0].targets[0]) == 'sample_rate_ms' and U(ib[1].targets[0]) == 'zmin' and isinstance(ib[2], ast.If), 'integer branch changed shape')
    k1, istep = hdr_read(ib[0].value, 'integer branch step')
    k2, istart = hdr_read(ib[1].value, 'integer branch start')
    need((k1, k2) == ('bytes_to_int', 'bytes_to_signed_int'), 'integer branch readers changed')
    gate = ib[2]
    need(U(gate.test).startswith("self.file_version > SeismicZfpVersion('") and len(gate.body) == 1 and U(gate.body[0]) == 'sample_rate_ms /= 1000' and not gate.orelse,
         'integer branch: version gate changed')
    ver = U(gate.test)[len("self.file_version > SeismicZfpVersion('"):-2].split('.')
    need(len(ver) == 3 and all(p.isdigit() for p in ver), 'version gate literal')
    db = br.orelse
    need(len(db) == 2 and U(db[0].targets[0]) == 'sample_rate_ms' and U(db[1].targets[0]) == 'zmin', 'double branch changed shape')
    env = {}

    class RX(FX):
        def tr(self, node):
            if isinstance(node, ast.Call) and U(node.func) == 'bytes_to_double':
                _, lo = hdr_read(node, 'double branch')
                return f'(RHdrF64 {lo})'
            return FX.tr(self, node)
    rx = RX(env, '')
    dstep, dstart = rx.tr(db[0].value), rx.tr(db[1].value)
    need(U(body[1]) == "zslices_list = gen_coord_list(zmin, sample_rate_ms, bytes_to_int(self.headerbytes[4:8])).astype('float')",
         '_parse_coordinates: construction of the sample axis changed')
    need(U(body[4]) == 'return (zslices_list, xlines_list, ilines_list)', '_parse_coordinates: return changed')
    need(U(find_def(load(srcdir, 'utils'), 'gen_coord_list').body[-1]) == 'return start + step * np.arange(count)', 'utils.gen_coord_list changed')
    out.append('(* ---- read.py: SgzReader._parse_coordinates, the sample axis ----')
    out.append('   if bytes_to_double(headerbytes[c:c+8]) == 0: the integer fields (Gen/Geometry.v) else the doubles;')
    out.append("   zslices = gen_coord_list(start, step, u32 at 4).astype('float'), gen_coord_list = start + step * np.arange(count) *)")
    out.append(f'Definition rdz_cond_f64_at : Z := {clo}.')
    out.append(f'Definition rdz_int_start_i32_at : Z := {istart}.')
    out.append(f'Definition rdz_int_step_u32_at : Z := {istep}.')
    out.append(f'Definition rdz_int_step_div1000_after : Z * Z * Z := ({ver[0]}, {ver[1]}, {ver[2]}).')
    out.append(f'Definition rdz_dbl_start : rfx := {dstart}.')
    out.append(f'Definition rdz_dbl_step : rfx := {dstep}.')
    out.append('Definition rdz_count_u32_at : Z := 4.')
    for nm, coq in (('get_file_source_code', 'rd_source_code'), ('get_header_detection_method_code', 'rd_detection_code')):
        g = find_def(tree, 'SgzReader.' + nm)
        b = strip_doc(g.body)
        need(len(b) == 1 and isinstance(b[0], ast.Return), nm + ': single return expected')
        k, lo = hdr_read(b[0].value, nm)
        need(k == 'bytes_to_int', nm + ': reader changed')
        out.append(f'(* {nm}: bytes_to_int(headerbytes[lo:lo+4]) *)')
        out.append(f'Definition {coq}_lo : Z := {lo}.')
    out.append('')


PREAMBLE = '''(* GENERATED by tools/genx_routes.py from seismic_zfp/{seismicfile,conversion,conversion_utils,headers,read}.py -- DO NOT EDIT.
   Regenerated on every check run; the statement structure around every extracted piece was matched (fail closed). *)
From Coq Require Import ZArith List Bool.
Import ListNotations.
Open Scope Z_scope.

(* ---- fixed syntax (this text does not depend on the sources) ---- *)
(* scalar expressions of the ZGY route and of the reader's sample axis; Python semantics in Model/Routes.v *)
Inductive rfx :=
| RSamples0                 (* seismicfile.samples[0]: np.float64 *)
| RZinc                     (* seismicfile.zinc: Python float *)
| RCorner (k c : Z)         (* seismicfile.corners[k][c]: Python float *)
| RCountIl | RCountXl       (* seismicfile.n_ilines / n_xlines: Python int *)
| RRow | RCol               (* float(r) / float(c) at grid position (r, c): element of a float index grid *)
| RInt (z : Z)              (* Python int literal *)
| RFlt (z : Z)              (* Python float literal with an integer value *)
| RHdrF64 (off : Z)         (* bytes_to_double(headerbytes[off:off+8]) *)
| RAdd (a b : rfx) | RSub (a b : rfx) | RMul (a b : rfx) | RDiv (a b : rfx).
(* value written to a header-word table entry *)
Inductive ztv := TVNSamples (* int(seismicfile.n_samples) *) | TVConst (z : Z) | TVTrunc (e : rfx) (* int(e) *).
(* an array returned by get_zgy_header_arrays, by its element at grid position (r, c) *)
Inductive zsym := ZLines (il by_row : bool) | ZRound (e : rfx).
'''


def generate(srcdir):
    out = [PREAMBLE]
    val = gen_seismicfile(srcdir, out)
    gen_conversion(srcdir, out, val)
    gen_census(srcdir, out)
    gen_conversion_utils(srcdir, out, val)
    gen_headers(srcdir, out, val)
    gen_read(srcdir, out)
    return {'Routes': '\n'.join(out) + '\n'}


if __name__ == '__main__':
    import sys
    print(generate(sys.argv[1] if len(sys.argv) > 1 else '/repo/seismic_zfp')['Routes'])
