"""genx_cli.py -- plug-in generator for the command line interface (C01 / C06 / C11 / C19 "through API and CLI"): coq/Gen/Cli.v.

Fail-closed `ast` extraction from seismic_zfp/cli.py (whole module) and the API signatures in seismic_zfp/conversion.py it
calls.  The matcher is the one of genx_headers.py (a statement must equal a TEMPLATE node for node; identifiers H_<name> are
holes).  EVERY module-level statement of cli.py must be of one of the recognised forms, in the recognised order; anything else
raises GenFail: the target Cli is then a translation failure, Gen/Cli.v is removed and Model/Cli.v, Proofs/Cli.v,
Props/C19c.v, Props/C11c.v, Props/C06c.v no longer build.

Recognised forms (cli.py)
  imports                exactly: click, pkg_resources, SeismicZfpVersion, (SegyConverter, ZgyConverter, SgzConverter)
  NAME = "<text>"        a help text (string literal; implicit concatenation is one literal)
  NAME = [click.option("--<long-name>", type=T, default=D, help=<text or help-text NAME>, show_default=<bool>), ...]
                         an option group.  Exactly one declaration per option, of the form --[a-z][a-z0-9-]*; the keywords
                         type (required), default, help, show_default and NO other (required=, multiple=, is_flag=, nargs=,
                         callback=, envvar=, expose_value=, flag_value=, count= ... all change what click binds: fail);
                         T is click.INT, click.BOOL or click.Tuple([click.INT] * k) / click.Tuple([click.INT, ...]);
                         D is None, an integer literal (possibly negated) or True/False
  def add_options        verbatim (the loop `for option in reversed(options): func = option(func)`; the variant without
                         reversed() is accepted too and reported in cli_add_options_reversed)
  the group `cli`        @click.group() @click.version_option(version=<the library version>) def cli(): docstring only
  a command              @cli.command("<name>", short_help="<text>")
                         then any sequence of  @click.argument("<decl>", required=<bool>, type=click.Path([exists=<bool>]))
                                               @add_options(<option group NAME>)
                                               @click.version_option(version=<the library version>)
                         def <name>(p1=None, ..., pn=None):      -- plain parameters, every default None
                             click.echo(f"...")                  -- an f-string over the parameters only
                             with <Converter>(<args>) as converter:
                                 converter.<method>(<args>)
                         where <Converter> is one of the three imported classes and every positional / keyword argument
                         of both calls is a plain parameter NAME of the function (min_il=min_il; abs(x), x or 4, literals,
                         *args, **kwargs: fail).  Which keyword receives which parameter is EXTRACTED, not prescribed:
                         a swapped or dropped keyword is a legal program that the theorems then reject.
  if __name__ == "__main__": cli()

conversion.py (API side)  SeismicFileConverter.__init__ / run and SgzConverter.__init__ / convert_to_segy: the parameter
                         lists and the literal defaults; SegyConverter and ZgyConverter derive from SeismicFileConverter and
                         define neither __init__ nor run nor __enter__ (so the CLI's calls reach exactly those two methods,
                         and `with X(...) as converter` binds the constructed object: __enter__ returns self, matched).

What is emitted: the Gallina types of the declarations, the option groups, per command the decorator stack top to bottom, the
Python signature, the constructed class, the called method, and the two functions env -> (positional values, keyword values)
that say which parameter each argument of the two calls receives (env = the values the function's parameters are bound to).
"""
import ast, os, re, sys

sys.path.insert(0, os.path.dirname(os.path.abspath(__file__)))
from genx_headers import GenFail, match_function, _match, _load, _find_def, _strip_doc

OUTPUTS = ['Cli']

IMPORTS = ['import click', 'import pkg_resources', 'from seismic_zfp.version import SeismicZfpVersion',
           'from seismic_zfp.conversion import SegyConverter, ZgyConverter, SgzConverter']
CONVERTERS = ('SegyConverter', 'ZgyConverter', 'SgzConverter')
VERSION_EXPR = "SeismicZfpVersion(pkg_resources.get_distribution('seismic_zfp').version).to_string()"
OPTION_KEYWORDS = ('type', 'default', 'help', 'show_default')

T_ADD_OPTIONS = '''
def add_options(options):
    def _add_options(func):
        for option in reversed(options):
            func = option(func)
        return func
    return _add_options
'''
T_ADD_OPTIONS_PLAIN = '''
def add_options(options):
    def _add_options(func):
        for option in options:
            func = option(func)
        return func
    return _add_options
'''
T_GROUP = '''
@click.group()
@click.version_option(version=H_version)
def cli():
    pass
'''
T_BODY = '''
def H_name():
    click.echo(H_msg)
    with H_ctor as converter:
        H_call
'''
T_MAIN = '''
if __name__ == "__main__":
    cli()
'''
T_ENTER = '''
def __enter__(self):
    return self
'''


# ------------------------------------------------------------------------------------------------------------ helpers
def _q(s):
    if not isinstance(s, str) or '"' in s or '\\' in s or not s.isascii() or not s.isprintable():
        raise GenFail(f'string {s!r} cannot be written as a Coq string literal')
    return f'"{s}"'


def _strs(xs):
    return '[' + '; '.join(_q(x) for x in xs) + ']'


def _is_attr(e, base, attr=None):
    return isinstance(e, ast.Attribute) and isinstance(e.value, ast.Name) and e.value.id == base and (attr is None or e.attr == attr)


def _str_lit(e, what):
    if isinstance(e, ast.Constant) and isinstance(e.value, str):
        return e.value
    raise GenFail(f'{what}: expected a string literal, found {ast.unparse(e)} (line {getattr(e, "lineno", "?")})')


def _bool_lit(e, what):
    if isinstance(e, ast.Constant) and isinstance(e.value, bool):
        return e.value
    raise GenFail(f'{what}: expected True / False, found {ast.unparse(e)}')


def _zlit(n):
    return f'({n})' if n < 0 else str(n)


def _cli_type(e, what):
    """click.INT | click.BOOL | click.Tuple([click.INT] * k) | click.Tuple([click.INT, ..., click.INT])"""
    if _is_attr(e, 'click', 'INT'):
        return 'CInt'
    if _is_attr(e, 'click', 'BOOL'):
        return 'CBool'
    if isinstance(e, ast.Call) and _is_attr(e.func, 'click', 'Tuple') and len(e.args) == 1 and not e.keywords:
        a = e.args[0]
        if isinstance(a, ast.BinOp) and isinstance(a.op, ast.Mult) and isinstance(a.left, ast.List) and len(a.left.elts) == 1 \
                and _is_attr(a.left.elts[0], 'click', 'INT') and isinstance(a.right, ast.Constant) \
                and type(a.right.value) is int and a.right.value >= 1:
            return f'(CIntTuple {a.right.value})'
        if isinstance(a, ast.List) and a.elts and all(_is_attr(x, 'click', 'INT') for x in a.elts):
            return f'(CIntTuple {len(a.elts)})'
    raise GenFail(f'{what}: unrecognised click type {ast.unparse(e)}')


def _path_type(e, what):
    """click.Path() | click.Path(exists=<bool>)"""
    if isinstance(e, ast.Call) and _is_attr(e.func, 'click', 'Path') and not e.args:
        kws = {k.arg: k.value for k in e.keywords}
        if set(kws) <= {'exists'} and len(kws) == len(e.keywords):
            ex = _bool_lit(kws['exists'], what + ' exists=') if 'exists' in kws else False
            return f'(CPath {"true" if ex else "false"})'
    raise GenFail(f'{what}: unrecognised argument type {ast.unparse(e)} (expected click.Path() or click.Path(exists=...))')


def _default(e, ty, what):
    if isinstance(e, ast.Constant) and e.value is None:
        return 'VNone'
    if isinstance(e, ast.Constant) and isinstance(e.value, bool):
        if ty != 'CBool':
            raise GenFail(f'{what}: boolean default for a non-BOOL option')
        return f'(VBool {"true" if e.value else "false"})'
    n = None
    if isinstance(e, ast.Constant) and type(e.value) is int:
        n = e.value
    elif isinstance(e, ast.UnaryOp) and isinstance(e.op, ast.USub) and isinstance(e.operand, ast.Constant) and type(e.operand.value) is int:
        n = -e.operand.value
    if n is not None:
        if ty != 'CInt':
            raise GenFail(f'{what}: integer default for a non-INT option')
        return f'(VInt {_zlit(n)})'
    raise GenFail(f'{what}: unrecognised default {ast.unparse(e)} (None, an integer literal or True/False expected)')


def _option(call, helps, what):
    """click.option("--name", type=, default=, help=, show_default=) -> Gallina cli_decl"""
    if not (isinstance(call, ast.Call) and _is_attr(call.func, 'click', 'option')):
        raise GenFail(f'{what}: expected a click.option(...) call, found {ast.unparse(call)[:60]}')
    if len(call.args) != 1:
        raise GenFail(f'{what}: click.option with {len(call.args)} declarations (exactly one long name expected)')
    decl = _str_lit(call.args[0], what)
    if not re.fullmatch(r'--[a-z][a-z0-9]*(-[a-z0-9]+)*', decl):
        raise GenFail(f'{what}: option declaration {decl!r} is not of the form --long-name')
    kws = {}
    for k in call.keywords:
        if k.arg is None or k.arg not in OPTION_KEYWORDS or k.arg in kws:
            raise GenFail(f'{what}: click.option({decl!r}) has the unrecognised / repeated keyword {k.arg!r}')
        kws[k.arg] = k.value
    if 'type' not in kws:
        raise GenFail(f'{what}: click.option({decl!r}) has no explicit type')
    ty = _cli_type(kws['type'], f'{what} {decl}')
    dflt = _default(kws['default'], ty, f'{what} {decl}') if 'default' in kws else 'VNone'
    if 'help' in kws:
        h = kws['help']
        if not ((isinstance(h, ast.Constant) and isinstance(h.value, str)) or (isinstance(h, ast.Name) and h.id in helps)):
            raise GenFail(f'{what}: help of {decl} is neither a string literal nor a help-text name')
    if 'show_default' in kws:
        _bool_lit(kws['show_default'], f'{what} {decl} show_default=')
    return f'DOption {_q(decl)} {ty} {dflt}', decl


def _version_option(call, what):
    if not (isinstance(call, ast.Call) and _is_attr(call.func, 'click', 'version_option') and not call.args
            and len(call.keywords) == 1 and call.keywords[0].arg == 'version'
            and ast.unparse(call.keywords[0].value) == VERSION_EXPR):
        raise GenFail(f'{what}: expected click.version_option(version={VERSION_EXPR})')


def _argument(call, what):
    if len(call.args) != 1:
        raise GenFail(f'{what}: click.argument with {len(call.args)} declarations')
    decl = _str_lit(call.args[0], what)
    if not re.fullmatch(r'[a-z][a-z0-9]*([-_][a-z0-9]+)*', decl):
        raise GenFail(f'{what}: argument declaration {decl!r} not recognised')
    kws = {}
    for k in call.keywords:
        if k.arg not in ('required', 'type') or k.arg in kws:
            raise GenFail(f'{what}: click.argument({decl!r}) has the unrecognised / repeated keyword {k.arg!r}')
        kws[k.arg] = k.value
    if 'type' not in kws:
        raise GenFail(f'{what}: click.argument({decl!r}) has no explicit type')
    req = _bool_lit(kws['required'], f'{what} {decl} required=') if 'required' in kws else True    # click: arguments are required by default
    return f'DArgument {_q(decl)} {_path_type(kws["type"], what + " " + decl)} {"true" if req else "false"}'


def _call_args(call, params, what):
    """every argument of the call is a plain parameter name of the enclosing function -> (positional names, [(kw, name)])"""
    pos, kw = [], []
    for x in call.args:
        if not (isinstance(x, ast.Name) and x.id in params):
            raise GenFail(f'{what}: positional argument {ast.unparse(x)} is not a plain parameter of the command function')
        pos.append(x.id)
    seen = set()
    for k in call.keywords:
        if k.arg is None:
            raise GenFail(f'{what}: **{ast.unparse(k.value)} is not recognised')
        if k.arg in seen:
            raise GenFail(f'{what}: keyword {k.arg} repeated')
        seen.add(k.arg)
        if not (isinstance(k.value, ast.Name) and k.value.id in params):
            raise GenFail(f'{what}: {k.arg}={ast.unparse(k.value)} is not a plain parameter of the command function')
        kw.append((k.arg, k.value.id))
    return pos, kw


def _args_fn(name, pos, kw):
    p = '[' + '; '.join(f'env {_q(x)}' for x in pos) + ']'
    k = '[' + '; '.join(f'({_q(a)}, env {_q(v)})' for a, v in kw) + ']'
    return f'Definition {name} (env : string -> cli_val) : list cli_val * list (string * cli_val) :=\n  ({p},\n   {k}).\n'


def _plain_params(f, what, skip_self=False):
    a = f.args
    if a.vararg or a.kwarg or a.kwonlyargs or a.posonlyargs:
        raise GenFail(f'{what}: *args / **kwargs / keyword-only / positional-only parameters')
    names = [x.arg for x in a.args]
    if skip_self:
        if names[:1] != ['self']:
            raise GenFail(f'{what}: first parameter is not self')
        names = names[1:]
    n_nodef = len(names) - len(a.defaults)
    return names, [None] * n_nodef + list(a.defaults)


def _api_default(e, what):
    if e is None:
        return 'None'
    if isinstance(e, ast.Constant):
        v = e.value
        if v is None:
            return 'Some VNone'
        if isinstance(v, bool):
            return f'Some (VBool {"true" if v else "false"})'
        if type(v) is int:
            return f'Some (VInt {_zlit(v)})'
        if isinstance(v, str):
            return f'Some (VStr {_q(v)})'
    if isinstance(e, ast.UnaryOp) and isinstance(e.op, ast.USub) and isinstance(e.operand, ast.Constant) and type(e.operand.value) is int:
        return f'Some (VInt {_zlit(-e.operand.value)})'
    raise GenFail(f'{what}: default {ast.unparse(e)} is not None / an int / a bool / a str literal')


PREAMBLE = '''(* GENERATED by tools/genx_cli.py from seismic_zfp/cli.py and the signatures in seismic_zfp/conversion.py -- do not edit.
   The whole of cli.py was matched (fail closed): imports, help texts, option groups, add_options, the click group, the
   three commands and the __main__ guard; nothing else is defined there.  Per command: the decorator stack top to bottom,
   the Python signature of the callback, the converter class constructed, the method called, and which parameter of the
   callback each positional / keyword argument of the two calls receives (env = the binding of the callback's parameters). *)
From Coq Require Import ZArith List Bool String.
Import ListNotations.
Open Scope Z_scope.
Open Scope string_scope.

(* click parameter types that occur: click.INT, click.BOOL, click.Tuple of k click.INT, click.Path(exists=...) *)
Inductive cli_ty := CInt | CBool | CIntTuple (k : nat) | CPath (must_exist : bool).
(* Python values that occur as defaults / bound values: None, int, bool, tuple of ints, str *)
Inductive cli_val := VNone | VInt (z : Z) | VBool (b : bool) | VInts (l : list Z) | VStr (s : string).
(* one click parameter declaration: click.argument(decl, required=, type=), click.option(decl, type=, default=) (an
   absent default is None), click.version_option(version=...) (the eager flag --version, not passed to the callback) *)
Inductive cli_decl :=
| DArgument (decl : string) (ty : cli_ty) (required : bool)
| DOption (decl : string) (ty : cli_ty) (default : cli_val)
| DVersion.
(* one decorator of a command: a single declaration, or @add_options(group) *)
Inductive cli_deco := UseParam (d : cli_decl) | UseGroup (g : list cli_decl).

'''


# ---------------------------------------------------------------------------------------------------------- generate
def generate(srcdir):
    cl, cv = _load(srcdir, 'cli'), _load(srcdir, 'conversion')
    out = [PREAMBLE]
    emit = out.append
    body = list(cl.body)

    # ------------------------------------------------------------------ imports
    n_imp = 0
    while n_imp < len(body) and isinstance(body[n_imp], (ast.Import, ast.ImportFrom)):
        n_imp += 1
    imports = [ast.unparse(s) for s in body[:n_imp]]
    if imports != IMPORTS:
        raise GenFail(f'cli.py: imports changed: {imports}')
    rest = body[n_imp:]
    if any(isinstance(s, (ast.Import, ast.ImportFrom)) for s in rest):
        raise GenFail('cli.py: import below the first block')

    # ------------------------------------------------------------------ module-level statements, in order
    helps, groups, group_order = set(), {}, []
    add_options_reversed = None
    have_group = False
    commands = []
    main_seen = False
    for st in rest:
        ln = getattr(st, 'lineno', '?')
        if main_seen:
            raise GenFail(f'cli.py: statement after the __main__ guard (line {ln})')
        if isinstance(st, ast.Assign):
            if commands or have_group:
                raise GenFail(f'cli.py: assignment after the first click command (line {ln})')
            if len(st.targets) != 1 or not isinstance(st.targets[0], ast.Name):
                raise GenFail(f'cli.py: unrecognised assignment at line {ln}')
            nm = st.targets[0].id
            if nm in helps or nm in groups or nm in CONVERTERS or nm in ('click', 'pkg_resources', 'SeismicZfpVersion', 'cli', 'add_options'):
                raise GenFail(f'cli.py: {nm} assigned twice / shadows an import (line {ln})')
            if isinstance(st.value, ast.Constant) and isinstance(st.value.value, str):
                helps.add(nm)
            elif isinstance(st.value, ast.List):
                decls, seen = [], set()
                for i, c in enumerate(st.value.elts):
                    g, d = _option(c, helps, f'cli.py {nm}[{i}]')
                    if d in seen:
                        raise GenFail(f'cli.py {nm}: option {d} declared twice')
                    seen.add(d)
                    decls.append(g)
                groups[nm] = decls
                group_order.append(nm)
            else:
                raise GenFail(f'cli.py: {nm} = {ast.unparse(st.value)[:50]} is neither a help text nor an option group (line {ln})')
        elif isinstance(st, ast.FunctionDef) and st.name == 'add_options':
            if add_options_reversed is not None or commands or have_group:
                raise GenFail('cli.py: add_options defined twice / after the commands')
            try:
                _match(ast.parse(T_ADD_OPTIONS).body[0], st, {}, 'cli.add_options')
                add_options_reversed = True
            except GenFail:
                _match(ast.parse(T_ADD_OPTIONS_PLAIN).body[0], st, {}, 'cli.add_options')
                add_options_reversed = False
            if st.decorator_list:
                raise GenFail('cli.add_options is decorated')
        elif isinstance(st, ast.FunctionDef) and st.name == 'cli':
            if have_group or commands:
                raise GenFail('cli.py: the group `cli` defined twice / after a command')
            h = {}
            tg = ast.parse(T_GROUP).body[0]
            if len(st.decorator_list) != len(tg.decorator_list):
                raise GenFail('cli.cli: decorators changed')
            for td, ad in zip(tg.decorator_list, st.decorator_list):
                _match(td, ad, h, 'cli.cli')
            if _plain_params(st, 'cli.cli')[0] or st.returns is not None:
                raise GenFail('cli.cli: the group callback takes parameters')
            if ast.unparse(h['H_version']) != VERSION_EXPR:
                raise GenFail('cli.cli: version_option(version=...) changed')
            if [x for x in _strip_doc(st.body) if not isinstance(x, ast.Pass)]:
                raise GenFail('cli.cli: the group callback has a body')
            have_group = True
        elif isinstance(st, ast.FunctionDef):
            if not have_group or add_options_reversed is None:
                raise GenFail(f'cli.py: command {st.name} defined before the group / add_options')
            commands.append(_command(st, groups))
        elif isinstance(st, ast.If):
            _match(ast.parse(T_MAIN).body[0], st, {}, 'cli.py __main__ guard')
            main_seen = True
        else:
            raise GenFail(f'cli.py: unrecognised module-level statement {type(st).__name__} at line {ln}')
    if not main_seen:
        raise GenFail('cli.py: no __main__ guard')
    if not commands:
        raise GenFail('cli.py: no commands')
    names = [c['name'] for c in commands]
    fnames = [c['fname'] for c in commands]
    if len(set(names)) != len(names) or len(set(fnames)) != len(fnames):
        raise GenFail(f'cli.py: command (function) names repeated: {names} {fnames}')
    if any(f in ('cli', 'add_options') or f in groups or f in helps for f in fnames):
        raise GenFail('cli.py: a command function shadows another module-level name')

    # ------------------------------------------------------------------ emit: groups, stacking, commands
    emit('(* ---- cli.py: the option groups, in source order ---- *)\n')
    for g in group_order:
        emit(f'Definition cli_group_{g} : list cli_decl :=\n  [' + ';\n   '.join(groups[g]) + '].\n')
    emit('\n(* def add_options(options): def _add_options(func): for option in reversed(options): func = option(func); return func\n'
         '   -- true: the loop runs over reversed(options); false: over options *)\n')
    emit(f'Definition cli_add_options_reversed : bool := {"true" if add_options_reversed else "false"}.\n')
    emit('\n(* ---- the commands of the click group `cli` (itself: @click.group() @click.version_option(...), no body) ---- *)\n')
    emit(f'Definition cli_commands : list string := {_strs(names)}.\n')
    for c in commands:
        n = c['fname']
        emit(f'\n(* @cli.command({c["name"]!r}) def {n}({", ".join(p + "=None" for p in c["params"])}):\n'
             f'     click.echo(...)\n     with {c["ctor"]}({c["ctor_src"]}) as converter:\n         converter.{c["method"]}({c["call_src"]}) *)\n')
        emit(f'Definition cli_{n}_command : string := {_q(c["name"])}.\n')
        emit(f'Definition cli_{n}_stack : list cli_deco :=\n  [' + ';\n   '.join(c['stack']) + '].\n')
        emit(f'Definition cli_{n}_signature : list string := {_strs(c["params"])}.\n')
        emit(f'Definition cli_{n}_ctor : string := {_q(c["ctor"])}.\n')
        emit(_args_fn(f'cli_{n}_ctor_args', *c['ctor_args']))
        emit(f'Definition cli_{n}_method : string := {_q(c["method"])}.\n')
        emit(_args_fn(f'cli_{n}_run_args', *c['call_args']))

    # ------------------------------------------------------------------ API side: conversion.py
    base = _find_def(cv, 'SeismicFileConverter')
    if [ast.unparse(b) for b in base.bases] != ['object'] or base.decorator_list or base.keywords:
        raise GenFail('conversion.SeismicFileConverter: base classes / decorators changed')
    match_function(cv, 'SeismicFileConverter.__enter__', T_ENTER)
    for sub in ('SegyConverter', 'ZgyConverter'):
        k = _find_def(cv, sub)
        if [ast.unparse(b) for b in k.bases] != ['SeismicFileConverter'] or k.decorator_list or k.keywords:
            raise GenFail(f'conversion.{sub}: base classes / decorators changed')
        defs = [s.name for s in k.body if isinstance(s, (ast.FunctionDef, ast.ClassDef))]
        assigned = [ast.unparse(t) for s in k.body if isinstance(s, (ast.Assign, ast.AnnAssign)) for t in (s.targets if isinstance(s, ast.Assign) else [s.target])]
        if any(d in ('__init__', 'run', '__enter__', '__exit__', '__new__') for d in defs + assigned):
            raise GenFail(f'conversion.{sub} overrides __init__ / run / __enter__ / __exit__')
    sgzc = _find_def(cv, 'SgzConverter')
    if [ast.unparse(b) for b in sgzc.bases] != ['SgzReader'] or sgzc.decorator_list or sgzc.keywords:
        raise GenFail('conversion.SgzConverter: base classes / decorators changed')
    if any(isinstance(s, ast.FunctionDef) and s.name in ('__enter__', '__exit__', '__new__') for s in sgzc.body):
        raise GenFail('conversion.SgzConverter defines __enter__ / __exit__ (the reader\'s are expected)')
    rd = _load(srcdir, 'read')
    match_function(rd, 'SgzReader.__enter__', T_ENTER)
    emit('\n(* ---- conversion.py, the API the commands call: parameter names (without self) and literal defaults (None = no\n'
         '   default).  SegyConverter and ZgyConverter derive from SeismicFileConverter and override neither __init__ nor run;\n'
         '   __enter__ returns self in SeismicFileConverter and in SgzReader (SgzConverter\'s base) ---- *)\n')
    for label, qual in (('seismicfileconverter_init', 'SeismicFileConverter.__init__'), ('seismicfileconverter_run', 'SeismicFileConverter.run'),
                        ('sgzconverter_init', 'SgzConverter.__init__'), ('sgzconverter_convert_to_segy', 'SgzConverter.convert_to_segy')):
        f = _find_def(cv, qual)
        if f.decorator_list:
            raise GenFail(f'conversion.{qual} is decorated')
        ps, ds = _plain_params(f, 'conversion.' + qual, skip_self=True)
        emit(f'Definition api_{label}_params : list (string * option cli_val) :=\n  [' +
             '; '.join(f'({_q(p)}, {_api_default(d, qual + " " + p)})' for p, d in zip(ps, ds)) + '].\n')
    return {'Cli': ''.join(out)}


def _command(st, groups):
    what = f'cli.{st.name}'
    decos = st.decorator_list
    if not decos:
        raise GenFail(f'{what}: undecorated function at module level')
    d0 = decos[0]
    if not (isinstance(d0, ast.Call) and _is_attr(d0.func, 'cli', 'command') and len(d0.args) == 1
            and [k.arg for k in d0.keywords] in ([], ['short_help'])):
        raise GenFail(f'{what}: first decorator is not cli.command("<name>", short_help=...)')
    cname = _str_lit(d0.args[0], what)
    if not re.fullmatch(r'[a-z][a-z0-9-]*', cname):
        raise GenFail(f'{what}: command name {cname!r}')
    for k in d0.keywords:
        _str_lit(k.value, what + ' short_help')
    stack, n_version = [], 0
    for d in decos[1:]:
        if not isinstance(d, ast.Call):
            raise GenFail(f'{what}: unrecognised decorator {ast.unparse(d)}')
        if _is_attr(d.func, 'click', 'argument'):
            stack.append('UseParam (' + _argument(d, what) + ')')
        elif isinstance(d.func, ast.Name) and d.func.id == 'add_options':
            if not (len(d.args) == 1 and not d.keywords and isinstance(d.args[0], ast.Name) and d.args[0].id in groups):
                raise GenFail(f'{what}: add_options({ast.unparse(d)[12:-1]}) is not applied to one option group of this module')
            stack.append(f'UseGroup cli_group_{d.args[0].id}')
        elif _is_attr(d.func, 'click', 'version_option'):
            _version_option(d, what)
            n_version += 1
            if n_version > 1:
                raise GenFail(f'{what}: two version options')
            stack.append('UseParam DVersion')
        elif _is_attr(d.func, 'click', 'option'):
            stack.append('UseParam (' + _option(d, set(), what)[0] + ')')
        else:
            raise GenFail(f'{what}: unrecognised decorator {ast.unparse(d)[:60]}')
    params, defaults = _plain_params(st, what)
    if len(set(params)) != len(params):
        raise GenFail(f'{what}: repeated parameter')
    if any(not (isinstance(d, ast.Constant) and d.value is None) for d in defaults):
        raise GenFail(f'{what}: a parameter has no default / a default other than None')
    if 'converter' in params or any(p in ('click',) + CONVERTERS for p in params):
        raise GenFail(f'{what}: a parameter shadows a name the body uses')
    if st.returns is not None:
        raise GenFail(f'{what}: return annotation')
    # body
    t = ast.parse(T_BODY).body[0]
    bodyt, bodya = t.body, _strip_doc(st.body)
    if len(bodya) != 2:
        raise GenFail(f'{what}: the body has {len(bodya)} statements, expected click.echo(...) and one with-statement')
    h = {}
    _match(bodyt[0], bodya[0], h, what)
    _match(bodyt[1], bodya[1], h, what)
    msg = h['H_msg']
    if not isinstance(msg, (ast.JoinedStr, ast.Constant)):
        raise GenFail(f'{what}: click.echo argument is not a (formatted) string literal')
    for n in ast.walk(msg):
        if isinstance(n, ast.Name) and n.id not in params:
            raise GenFail(f'{what}: the echoed text refers to {n.id}')
        if isinstance(n, (ast.Call, ast.Attribute, ast.Subscript, ast.NamedExpr, ast.Await, ast.Yield, ast.Lambda)):
            raise GenFail(f'{what}: the echoed text contains {type(n).__name__}')
    ctor = h['H_ctor']
    if not (isinstance(ctor, ast.Call) and isinstance(ctor.func, ast.Name) and ctor.func.id in CONVERTERS):
        raise GenFail(f'{what}: the with-statement does not construct one of {CONVERTERS}')
    call = h['H_call']
    if not (isinstance(call, ast.Call) and isinstance(call.func, ast.Attribute) and isinstance(call.func.value, ast.Name)
            and call.func.value.id == 'converter' and call.func.attr.isidentifier()):
        raise GenFail(f'{what}: the body of the with-statement is not converter.<method>(...)')
    return {'name': cname, 'fname': st.name, 'stack': stack, 'params': params, 'ctor': ctor.func.id,
            'ctor_args': _call_args(ctor, params, what + ' constructor call'), 'method': call.func.attr,
            'call_args': _call_args(call, params, what + ' method call'),
            'ctor_src': ', '.join(ast.unparse(x) for x in ctor.args) + ''.join(f', {k.arg}={ast.unparse(k.value)}' for k in ctor.keywords),
            'call_src': ', '.join(ast.unparse(x) for x in call.args) + ''.join(f', {k.arg}={ast.unparse(k.value)}' for k in call.keywords)}


if __name__ == '__main__':
    print(generate(sys.argv[1] if len(sys.argv) > 1 else '/repo/seismic_zfp')['Cli'])
