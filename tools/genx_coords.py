"""genx_coords.py -- plug-in generator for the by-number / by-coordinate entry points of the reader (C02d / C14b):
coq/Gen/Coords.v.

Fail-closed `ast` extraction with the matcher of genx_headers.py (a function must equal a TEMPLATE written here node for
node; identifiers H_<name> are holes that capture the expression found at that place).  Calls whose attribute names / keyword
arguments carry the information (which axis, which indexer, which ordinal reader, which include_stop flag) are taken apart by
small recognisers that accept exactly one shape each.  Anything not recognised raises GenFail: the target Coords is then a
translation failure, Gen/Coords.v is removed and Model/Coords.v, Proofs/Coords.v, Props/C02d.v, Props/C14b.v no longer build.

What is extracted
  utils.py  coord_to_index    the comparison handed to np.where, the two subscripts [axis][pick] applied to its result, the
                              exception class caught, the include_stop test (the subscripts of `coords` it evaluates, in
                              evaluation order, and the expression built from them), the value returned for the stop
                              coordinate, the exception raised on a miss, the default of include_stop
            gen_coord_list    element k of the returned array
  read.py   SgzReader.get_inline_index / get_crossline_index / get_zslice_index     axis and include_stop flag passed on
            SgzReader.read_inline_number / read_crossline_number / read_zslice_coord  indexer, flag, ordinal reader
            SgzReader.get_trace_by_coord   how a None bound is defaulted (a coordinate expression over self.zslices -- the
                              present code -- or an ordinal -- the D50 repair), the include_stop flag of either bound, the
                              call of get_trace; the positional parameters of get_trace
            SgzReader._parse_coordinates / __init__   header byte offsets of (start, step, count) of the three axes, the
                              casts, that nothing else in read.py assigns the axes
"""
import ast, os, sys

sys.path.insert(0, os.path.dirname(os.path.abspath(__file__)))
from genx_headers import GenFail, Tr, match_function, match_unique_stmt, assigned_names_targets, _load, _find_def, _int, _dump

OUTPUTS = ['Coords']

# ---------------------------------------------------------------------------------------------------------- templates
T_CTI = '''
def coord_to_index(coord, coords, include_stop=H_default):
    try:
        index = np.where(H_test)[H_axis][H_pick]
    except H_caught:
        if include_stop and H_stoptest:
            return H_stopresult
        raise H_miss(H_msg)
    return index
'''
T_GCL = '''
def gen_coord_list(start, step, count):
    return H_expr
'''
T_GET_INDEX = '''
def {name}(self, {param}):
    return H_call
'''
T_GET_ZINDEX = '''
def get_zslice_index(self, zslice_no, include_stop=H_default):
    return H_call
'''
T_GET_TRACE_SIG = '''
def get_trace(self, index, min_sample_id=None, max_sample_id=None, override_unstructured_mapping=False):
    ANY_BLOCK
'''
# the present code: a None bound becomes a COORDINATE computed from the axis, then both bounds are looked up
T_GTBC_COORD = '''
def get_trace_by_coord(self, index, min_sample_no=None, max_sample_no=None):
    min_sample_no = H_lo_default if min_sample_no is None else min_sample_no
    max_sample_no = H_hi_default if max_sample_no is None else max_sample_no
    trace = self.get_trace(index, H_lo_ix, H_hi_ix)
    return trace
'''
# the D50 repair: a None bound becomes an ORDINAL, only a given bound is looked up
T_GTBC_ORD = '''
def get_trace_by_coord(self, index, min_sample_no=None, max_sample_no=None):
    min_sample_id = H_lo_ord if min_sample_no is None else H_lo_ix
    max_sample_id = H_hi_ord if max_sample_no is None else H_hi_ix
    trace = self.get_trace(index, min_sample_id, max_sample_id)
    return trace
'''
T_PARSE = '''
def _parse_coordinates(self):
    if bytes_to_double(self.headerbytes[H_dt0:H_dt1]) == 0:
        sample_rate_ms = bytes_to_int(self.headerbytes[H_r0:H_r1])
        zmin = bytes_to_signed_int(self.headerbytes[H_z0:H_z1])
        if self.file_version > SeismicZfpVersion("0.1.6"):
            sample_rate_ms /= 1000
    else:
        sample_rate_ms = bytes_to_double(self.headerbytes[H_dt0:H_dt1]) / 1000.0
        zmin = bytes_to_double(self.headerbytes[H_zd0:H_zd1])
    zslices_list = gen_coord_list(zmin, sample_rate_ms, bytes_to_int(self.headerbytes[H_zc0:H_zc1])).astype(H_zcast)
    xlines_list = gen_coord_list(bytes_to_int(self.headerbytes[H_xs0:H_xs1]),
                                 bytes_to_int(self.headerbytes[H_xd0:H_xd1]),
                                 bytes_to_int(self.headerbytes[H_xc0:H_xc1])).astype(H_xcast)
    ilines_list = gen_coord_list(bytes_to_int(self.headerbytes[H_is0:H_is1]),
                                 bytes_to_int(self.headerbytes[H_id0:H_id1]),
                                 bytes_to_int(self.headerbytes[H_ic0:H_ic1])).astype(H_icast)
    return zslices_list, xlines_list, ilines_list
'''
T_INIT_AXES = '''
if self.is_3d:
    self.zslices, self.xlines, self.ilines = self._parse_coordinates()
else:
    sample_rate_ms = bytes_to_int(self.headerbytes[H_r0:H_r1]) / 1000
    self.zslices = gen_coord_list(bytes_to_signed_int(self.headerbytes[H_z0:H_z1]),
                                  sample_rate_ms,
                                  bytes_to_int(self.headerbytes[H_zc0:H_zc1])).astype(H_zcast)
'''

EXN = {'IndexError': 'IndexErr', 'ValueError': 'ValueErr', 'TypeError': 'TypeErr', 'AssertionError': 'AssertErr',
       'RuntimeError': 'RuntimeErr', 'IOError': 'IOErr', 'OSError': 'IOErr', 'ZeroDivisionError': 'ZeroDivErr'}
AXES = {'ilines': 'AxIlines', 'xlines': 'AxXlines', 'zslices': 'AxZslices'}
INDEXERS = {'get_inline_index': 'IxInline', 'get_crossline_index': 'IxCrossline', 'get_zslice_index': 'IxZslice'}
READERS = {'read_inline': 'rd_read_inline', 'read_crossline': 'rd_read_crossline', 'read_zslice': 'rd_read_zslice'}
CASTS = {'intc': 32}        # numpy dtype name -> width of the signed two's-complement integer the values are wrapped to


def _zl(k):
    return f'({k})' if k < 0 else str(k)


def _boolc(e, what):
    if isinstance(e, ast.Constant) and isinstance(e.value, bool):
        return 'true' if e.value else 'false'
    raise GenFail(f'{what}: expected True/False, found {ast.unparse(e)}')


def _exn(e, what):
    if isinstance(e, ast.Name) and e.id in EXN:
        return EXN[e.id]
    raise GenFail(f'{what}: exception class {ast.unparse(e)} is not one the model knows')


def _str(e, what):
    if isinstance(e, ast.Constant) and isinstance(e.value, str):
        return e.value
    raise GenFail(f'{what}: expected a string literal, found {ast.unparse(e)}')


class CoordExpr:
    """translator of a coordinate-valued / coordinate-comparing expression into Gallina over an abstract coordinate
    algebra O : coord_ops C.  names: python name -> Gallina variable of type C; seq: source text of the sequence whose constant
    subscripts seq[k] become (at k); the subscripts are recorded in Python's evaluation order (left operand first)."""
    def __init__(self, names, seq):
        self.names, self.seq, self.subs = names, seq, []

    def c(self, e):
        if isinstance(e, ast.Name) and e.id in self.names:
            return self.names[e.id]
        if isinstance(e, ast.Subscript) and ast.unparse(e.value) == self.seq:
            k = _int(e.slice, what=f'constant subscript of {self.seq}')
            self.subs.append(k)
            return f'(el {_zl(k)})'
        if isinstance(e, ast.BinOp) and isinstance(e.op, (ast.Add, ast.Sub)):
            l = self.c(e.left)
            r = self.c(e.right)
            return f'({"c_add" if isinstance(e.op, ast.Add) else "c_sub"} O {l} {r})'
        raise GenFail(f'unsupported coordinate expression {ast.unparse(e)}')

    def b(self, e):
        if isinstance(e, ast.Compare) and len(e.ops) == 1:
            l = self.c(e.left)
            r = self.c(e.comparators[0])
            s = {ast.Eq: f'(c_eqb O {l} {r})', ast.NotEq: f'(negb (c_eqb O {l} {r}))', ast.Lt: f'(c_ltb O {l} {r})',
                 ast.LtE: f'(c_leb O {l} {r})', ast.Gt: f'(c_ltb O {r} {l})', ast.GtE: f'(c_leb O {r} {l})'}.get(type(e.ops[0]))
            if s is not None:
                return s
        raise GenFail(f'unsupported coordinate comparison {ast.unparse(e)}')


def _cti_call(call, param, own_flag, where):
    """coord_to_index(<param>, self.<axis>[, include_stop=<const | own flag parameter>]) -> (axis ctor, flag term over p)"""
    if not (isinstance(call, ast.Call) and isinstance(call.func, ast.Name) and call.func.id == 'coord_to_index'):
        raise GenFail(f'{where}: not a call of coord_to_index: {ast.unparse(call)}')
    args = list(call.args)
    kw = {k.arg: k.value for k in call.keywords}
    if len(args) not in (2, 3) or set(kw) - {'include_stop'} or (len(args) == 3 and kw):
        raise GenFail(f'{where}: unexpected arguments in {ast.unparse(call)}')
    if not (isinstance(args[0], ast.Name) and args[0].id == param):
        raise GenFail(f'{where}: first argument is not the parameter {param}')
    ax = args[1]
    if not (isinstance(ax, ast.Attribute) and isinstance(ax.value, ast.Name) and ax.value.id == 'self' and ax.attr in AXES):
        raise GenFail(f'{where}: second argument {ast.unparse(ax)} is not one of the reader axes')
    f = args[2] if len(args) == 3 else kw.get('include_stop')
    if f is None:
        flag = 'cx_include_stop_default'
    elif own_flag and isinstance(f, ast.Name) and f.id == own_flag:
        flag = 'p'
    else:
        flag = _boolc(f, where + ' include_stop')
    return AXES[ax.attr], flag


def _indexer_call(call, param, where):
    """self.<indexer>(<param>[, include_stop=<const>]) -> (indexer ctor, option-bool term)"""
    if not (isinstance(call, ast.Call) and isinstance(call.func, ast.Attribute) and isinstance(call.func.value, ast.Name)
            and call.func.value.id == 'self' and call.func.attr in INDEXERS):
        raise GenFail(f'{where}: not a call of one of the index methods: {ast.unparse(call)}')
    kw = {k.arg: k.value for k in call.keywords}
    args = list(call.args)
    if len(args) not in (1, 2) or set(kw) - {'include_stop'} or (len(args) == 2 and kw):
        raise GenFail(f'{where}: unexpected arguments in {ast.unparse(call)}')
    if not (isinstance(args[0], ast.Name) and args[0].id == param):
        raise GenFail(f'{where}: argument is not the parameter {param}')
    f = args[1] if len(args) == 2 else kw.get('include_stop')
    ix = INDEXERS[call.func.attr]
    if f is not None and ix != 'IxZslice':
        raise GenFail(f'{where}: include_stop passed to {call.func.attr}, which does not take it')
    return ix, ('None' if f is None else f'(Some {_boolc(f, where + " include_stop")})')


def _slice4(h, lo, hi, n, where):
    a, b = _int(h[lo], what='byte offset'), _int(h[hi], what='byte offset')
    if b - a != n:
        raise GenFail(f'{where}: header slice [{a}:{b}] is not {n} bytes')
    return a


def _cast(e, where):
    s = _str(e, where)
    return s


def generate(srcdir):
    ut, rd = _load(srcdir, 'utils'), _load(srcdir, 'read')
    out = []
    emit = out.append
    emit('(* GENERATED by tools/genx_coords.py from seismic_zfp/utils.py (coord_to_index, gen_coord_list) and seismic_zfp/read.py\n'
         '   (get_*_index, read_*_number, read_zslice_coord, get_trace_by_coord, _parse_coordinates, __init__) -- do not edit.\n'
         '   The statement structure around every piece was matched against the templates in the generator (fail closed). *)\n'
         'From Coq Require Import ZArith List Bool.\nImport ListNotations.\nFrom SZ Require Import Lib.Py Gen.Reader.\nOpen Scope Z_scope.\n\n')
    emit('(* the operations the extracted expressions use on coordinates (numpy scalars / array elements): an abstract algebra.\n'
         '   c_dflt is only the value of a subscript that does not exist (never reached: the model evaluates the subscripts first) *)\n'
         'Record coord_ops (C : Type) := { c_eqb : C -> C -> bool; c_ltb : C -> C -> bool; c_leb : C -> C -> bool;\n'
         '                                 c_add : C -> C -> C; c_sub : C -> C -> C; c_dflt : C }.\n'
         'Arguments c_eqb {C}. Arguments c_ltb {C}. Arguments c_leb {C}. Arguments c_add {C}. Arguments c_sub {C}. Arguments c_dflt {C}.\n\n')

    # ------------------------------------------------------------------ utils.coord_to_index
    h = match_function(ut, 'coord_to_index', T_CTI)
    emit('(* ---- utils.coord_to_index(coord, coords, include_stop) ---- *)\n')
    emit(f'Definition cx_include_stop_default : bool := {_boolc(h["H_default"], "coord_to_index default")}.\n')
    ce = CoordExpr({'coords': 'x', 'coord': 'coord'}, '#none')
    emit('(* try: index = np.where(TEST)[AXIS][PICK] -- TEST elementwise over coords (x = one element) *)\n')
    test = ce.b(h['H_test'])
    used = {n.id for n in ast.walk(h['H_test']) if isinstance(n, ast.Name)}
    if used != {'coords', 'coord'}:
        raise GenFail(f'coord_to_index: the np.where test mentions {sorted(used)}, expected coords and coord')
    emit(f'Definition cx_where_test {{C}} (O : coord_ops C) (x coord : C) : bool := {test}.\n')
    emit(f'Definition cx_where_axis : Z := {_zl(_int(h["H_axis"]))}.\n')
    emit(f'Definition cx_where_pick : Z := {_zl(_int(h["H_pick"]))}.\n')
    emit(f'(* except {ast.unparse(h["H_caught"])}: *)\nDefinition cx_caught : exn := {_exn(h["H_caught"], "coord_to_index except")}.\n')
    ce = CoordExpr({'coord': 'coord'}, 'coords')
    st = ce.b(h['H_stoptest'])
    emit('(* if include_stop and STOPTEST: the subscripts of coords STOPTEST evaluates, in evaluation order, and STOPTEST over them *)\n')
    emit(f'Definition cx_stop_subscripts : list Z := [{"; ".join(_zl(k) for k in ce.subs)}].\n')
    emit(f'Definition cx_stop_test {{C}} (O : coord_ops C) (coord : C) (el : Z -> C) : bool := {st}.\n')
    tr = Tr({}, {'len(coords)': 'len_coords'})
    emit(f'(* return {ast.unparse(h["H_stopresult"])} *)\nDefinition cx_stop_result (len_coords : Z) : Z := {tr.z(h["H_stopresult"])}.\n')
    emit(f'(* raise {ast.unparse(h["H_miss"])}(...) *)\nDefinition cx_miss : exn := {_exn(h["H_miss"], "coord_to_index raise")}.\n\n')

    # ------------------------------------------------------------------ utils.gen_coord_list
    h = match_function(ut, 'gen_coord_list', T_GCL)
    tr = Tr({}, {'np.arange(count)': 'k'}, {'start': 'start', 'step': 'step'})
    ex = tr.z(h['H_expr'])
    n_ar = sum(1 for n in ast.walk(h['H_expr']) if _dump(n) == _dump(ast.parse('np.arange(count)').body[0].value))
    if n_ar != 1:
        raise GenFail(f'gen_coord_list: {n_ar} occurrences of np.arange(count)')
    emit('(* ---- utils.gen_coord_list(start, step, count): element k, 0 <= k < count, of the returned array (numpy broadcasting\n'
         '   over np.arange(count)) ---- *)\n')
    emit(f'Definition cx_coord_elem (start step k : Z) : Z := {ex}.\n\n')

    # ------------------------------------------------------------------ read.py index methods
    emit('(* ---- read.SgzReader.get_inline_index / get_crossline_index / get_zslice_index ---- *)\n'
         'Inductive cx_axis := AxIlines | AxXlines | AxZslices.\n'
         'Inductive cx_indexer := IxInline | IxCrossline | IxZslice.\n')
    rows = {}
    for name, param in (('get_inline_index', 'il_no'), ('get_crossline_index', 'xl_no')):
        hh = match_function(rd, 'SgzReader.' + name, T_GET_INDEX.format(name=name, param=param))
        rows[INDEXERS[name]] = _cti_call(hh['H_call'], param, None, name)
    hh = match_function(rd, 'SgzReader.get_zslice_index', T_GET_ZINDEX)
    zdef = _boolc(hh['H_default'], 'get_zslice_index default')
    rows['IxZslice'] = _cti_call(hh['H_call'], 'zslice_no', 'include_stop', 'get_zslice_index')
    emit('(* the axis each index method searches *)\nDefinition cx_indexer_axis (ix : cx_indexer) : cx_axis :=\n  match ix with '
         + ' | '.join(f'{k} => {rows[k][0]}' for k in ('IxInline', 'IxCrossline', 'IxZslice')) + ' end.\n')
    emit(f'Definition cx_get_zslice_index_default : bool := {zdef}.\n')
    emit('(* the include_stop flag it hands to coord_to_index; given = the include_stop argument of the call, None when absent\n'
         '   (only get_zslice_index has that parameter) *)\n'
         'Definition cx_indexer_flag (ix : cx_indexer) (given : option bool) : bool :=\n'
         '  let p := match given with Some b => b | None => cx_get_zslice_index_default end in\n  match ix with '
         + ' | '.join(f'{k} => {rows[k][1]}' for k in ('IxInline', 'IxCrossline', 'IxZslice')) + ' end.\n\n')

    # ------------------------------------------------------------------ read.py by-number readers
    emit('(* ---- read.SgzReader.read_inline_number / read_crossline_number / read_zslice_coord:\n'
         '   return self.<ordinal reader>(self.<index method>(<argument>[, include_stop=...])) ---- *)\n'
         'Inductive cx_entry := EnInlineNumber | EnCrosslineNumber | EnZsliceCoord.\n')
    ent = {}
    for ctor, name, param in (('EnInlineNumber', 'read_inline_number', 'il_no'), ('EnCrosslineNumber', 'read_crossline_number', 'xl_no'),
                              ('EnZsliceCoord', 'read_zslice_coord', 'zslice_no')):
        hh = match_function(rd, 'SgzReader.' + name, T_GET_INDEX.format(name=name, param=param))
        c = hh['H_call']
        if not (isinstance(c, ast.Call) and isinstance(c.func, ast.Attribute) and isinstance(c.func.value, ast.Name)
                and c.func.value.id == 'self' and c.func.attr in READERS and len(c.args) == 1 and not c.keywords):
            raise GenFail(f'{name}: not a call self.<ordinal reader>(<one argument>): {ast.unparse(c)}')
        ix, fl = _indexer_call(c.args[0], param, name)
        ent[ctor] = (ix, fl, READERS[c.func.attr])
    order = ('EnInlineNumber', 'EnCrosslineNumber', 'EnZsliceCoord')
    emit('Definition cx_entry_indexer (e : cx_entry) : cx_indexer :=\n  match e with ' + ' | '.join(f'{k} => {ent[k][0]}' for k in order) + ' end.\n')
    emit('Definition cx_entry_flag (e : cx_entry) : option bool :=\n  match e with ' + ' | '.join(f'{k} => {ent[k][1]}' for k in order) + ' end.\n')
    emit('Definition cx_entry_reader (e : cx_entry) (H : hdr) : Z -> outcome arrv :=\n  match e with ' + ' | '.join(f'{k} => {ent[k][2]} H' for k in order) + ' end.\n\n')

    # ------------------------------------------------------------------ read.py get_trace_by_coord
    match_function(rd, 'SgzReader.get_trace', T_GET_TRACE_SIG)
    emit('(* ---- read.SgzReader.get_trace_by_coord(index, min_sample_no=None, max_sample_no=None):\n'
         '   trace = self.get_trace(index, LO, HI), get_trace(self, index, min_sample_id, max_sample_id, override_unstructured_mapping=False) ---- *)\n')
    why = []
    form = None
    for nm, tmpl in (('coord', T_GTBC_COORD), ('ordinal', T_GTBC_ORD)):
        try:
            g = match_function(rd, 'SgzReader.get_trace_by_coord', tmpl)
            form = nm
            break
        except GenFail as ex_:
            why.append(f'{nm} form: {ex_}')
    if form is None:
        raise GenFail('get_trace_by_coord matches neither form -- ' + ' -- '.join(why))
    lo_ix, lo_fl = _indexer_call(g['H_lo_ix'], 'min_sample_no', 'get_trace_by_coord lower bound')
    hi_ix, hi_fl = _indexer_call(g['H_hi_ix'], 'max_sample_no', 'get_trace_by_coord upper bound')
    emit('(* a None bound: replaced by an ORDINAL (true; the D50 repair) or by a COORDINATE computed from the axis and then looked\n'
         '   up like a given bound (false) *)\n')
    emit(f'Definition cx_gtbc_none_by_ordinal : bool := {"true" if form == "ordinal" else "false"}.\n')
    if form == 'coord':
        ce_lo, ce_hi = CoordExpr({}, 'self.zslices'), CoordExpr({}, 'self.zslices')
        lo_e, hi_e = ce_lo.c(g['H_lo_default']), ce_hi.c(g['H_hi_default'])
        lo_s, hi_s = ce_lo.subs, ce_hi.subs
        lo_o, hi_o = '0', '0'
        emit(f'(* min_sample_no = {ast.unparse(g["H_lo_default"])};  max_sample_no = {ast.unparse(g["H_hi_default"])} *)\n')
    else:
        tr = Tr({}, {'self.n_samples': '(rd_n_samples H)'})
        lo_o, hi_o = tr.z(g['H_lo_ord']), tr.z(g['H_hi_ord'])
        lo_e = hi_e = '(c_dflt O)'
        lo_s = hi_s = []
        emit(f'(* min_sample_id = {ast.unparse(g["H_lo_ord"])};  max_sample_id = {ast.unparse(g["H_hi_ord"])} *)\n')
    for side, subs, e, o in (('lo', lo_s, lo_e, lo_o), ('hi', hi_s, hi_e, hi_o)):
        emit(f'Definition cx_gtbc_{side}_none_subscripts : list Z := [{"; ".join(_zl(k) for k in subs)}].\n')
        emit(f'Definition cx_gtbc_{side}_none_coord {{C}} (O : coord_ops C) (el : Z -> C) : C := {e}.\n')
        emit(f'Definition cx_gtbc_{side}_none_ordinal (H : hdr) : Z := {o}.\n')
    emit('(* the index method and include_stop argument used for a bound *)\n')
    emit(f'Definition cx_gtbc_lo_indexer : cx_indexer := {lo_ix}.\nDefinition cx_gtbc_lo_flag : option bool := {lo_fl}.\n')
    emit(f'Definition cx_gtbc_hi_indexer : cx_indexer := {hi_ix}.\nDefinition cx_gtbc_hi_flag : option bool := {hi_fl}.\n\n')

    # ------------------------------------------------------------------ read.py axes
    cls = _find_def(rd, 'SgzReader')
    init = _find_def(rd, 'SgzReader.__init__')
    hi_ = match_unique_stmt(init.body, T_INIT_AXES, 'SgzReader.__init__ (axes)')
    for tgt, n in (('self.ilines', 1), ('self.xlines', 1), ('self.zslices', 2)):
        k = assigned_names_targets(cls.body, tgt)
        if k != n:
            raise GenFail(f'read.py: {k} assignments to {tgt} in SgzReader, expected {n}')
    p = match_function(rd, 'SgzReader._parse_coordinates', T_PARSE)
    W = '_parse_coordinates'
    f_is, f_id, f_ic = _slice4(p, 'H_is0', 'H_is1', 4, W), _slice4(p, 'H_id0', 'H_id1', 4, W), _slice4(p, 'H_ic0', 'H_ic1', 4, W)
    f_xs, f_xd, f_xc = _slice4(p, 'H_xs0', 'H_xs1', 4, W), _slice4(p, 'H_xd0', 'H_xd1', 4, W), _slice4(p, 'H_xc0', 'H_xc1', 4, W)
    f_zc, f_z, f_r = _slice4(p, 'H_zc0', 'H_zc1', 4, W), _slice4(p, 'H_z0', 'H_z1', 4, W), _slice4(p, 'H_r0', 'H_r1', 4, W)
    f_dt, f_zd = _slice4(p, 'H_dt0', 'H_dt1', 8, W), _slice4(p, 'H_zd0', 'H_zd1', 8, W)
    ic, xc = _cast(p['H_icast'], W), _cast(p['H_xcast'], W)
    if ic not in CASTS or xc not in CASTS or ic != xc:
        raise GenFail(f'_parse_coordinates: line axes cast to {ic!r} / {xc!r}; only {sorted(CASTS)} are modelled')
    if _cast(p['H_zcast'], W) != 'float' or _cast(hi_['H_zcast'], '__init__') != 'float':
        raise GenFail('sample axis is no longer cast to float')
    z2 = (_slice4(hi_, 'H_z0', 'H_z1', 4, '__init__'), _slice4(hi_, 'H_r0', 'H_r1', 4, '__init__'), _slice4(hi_, 'H_zc0', 'H_zc1', 4, '__init__'))
    if z2 != (f_z, f_r, f_zc):
        raise GenFail(f'the 2D branch of __init__ builds the sample axis from other header fields {z2} than _parse_coordinates {(f_z, f_r, f_zc)}')
    lines = sorted({f_is, f_id, f_xs, f_xd})
    if len(lines) != 4:
        raise GenFail('_parse_coordinates: start/step fields of the line axes overlap')
    emit('(* ---- read.SgzReader._parse_coordinates / __init__: axis = gen_coord_list(start, step, count).astype(cast) ----\n'
         '   line axes: start, step = unsigned 32-bit header fields that are not part of Gen.Reader.hdr; count = a field of hdr *)\n')
    emit('Record chdr := { ' + '; '.join(f'c_u32_{o} : Z' for o in lines) + ' }.\n')
    emit(f'Definition cx_ilines_start (X : chdr) : Z := c_u32_{f_is} X.\nDefinition cx_ilines_step (X : chdr) : Z := c_u32_{f_id} X.\n'
         f'Definition cx_ilines_count (H : hdr) : Z := h_u32_{f_ic} H.\n')
    emit(f'Definition cx_xlines_start (X : chdr) : Z := c_u32_{f_xs} X.\nDefinition cx_xlines_step (X : chdr) : Z := c_u32_{f_xd} X.\n'
         f'Definition cx_xlines_count (H : hdr) : Z := h_u32_{f_xc} H.\n')
    emit(f'(* .astype({ic!r}): wrapped to a signed integer of this many bits *)\nDefinition cx_line_cast_bits : Z := {CASTS[ic]}.\n')
    emit(f'(* sample axis (float64, outside the integer model): count field, and for the record the byte offsets of\n'
         f'   zmin (i32 {f_z} / f64 {f_zd}) and of the sample interval in microseconds (u32 {f_r} / f64 {f_dt}) *)\n')
    emit(f'Definition cx_zslices_count (H : hdr) : Z := h_u32_{f_zc} H.\n')
    emit(f'Definition cx_zslices_fields : list Z := [{f_z}; {f_r}; {f_zd}; {f_dt}].\n')
    return {'Coords': ''.join(out)}


if __name__ == '__main__':
    src = sys.argv[1] if len(sys.argv) > 1 else os.path.join(os.environ.get('VERIF_REPO', '/repo'), 'seismic_zfp')
    sys.stdout.write(generate(src)['Coords'])
